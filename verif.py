#!/usr/bin/env python3
"""Driver for the runtime monitors of go-i2p/common (see DESIGN.md).

usage: verif.py check <Cxx> [--tier quick|thorough] [--seed N] [--shards N]
       verif.py replay <replay.json>
       verif.py setup

Exit codes: 0 held on everything explored; 1 violation(s) (VIOLATION lines printed);
            3 inconclusive (build failure, dead shard without reproducible culprit, floor).
"""
import argparse, glob, hashlib, json, os, shutil, struct, subprocess, sys, time

VERIF = os.path.dirname(os.path.abspath(__file__))
REPO = os.environ.get("VERIF_REPO", "/repo")
# VERIF_WORK redirects every output (binaries, shard output, evidence, replays) and, when the
# repository under test is not /repo, a private copy of the harness whose go.mod points at it.
# Used only for trying the checks on scratch copies of the repository (seeded changes); the
# registered commands never set it.
WORK = os.environ.get("VERIF_WORK", VERIF)
HARNESS = os.path.join(VERIF, "harness")
BIN = os.path.join(WORK, "bin")
OUT = os.path.join(WORK, "out")
EVID = os.path.join(WORK, "evidence")
REPL = os.path.join(WORK, "replays")


def prepare_harness():
    """Returns the harness directory to build from (a private copy when REPO is not /repo)."""
    global HARNESS
    if os.path.realpath(REPO) == "/repo" and WORK == VERIF:
        return
    dst = os.path.join(WORK, "harness")
    if os.path.isdir(dst):
        shutil.rmtree(dst)
    shutil.copytree(os.environ.get("VERIF_HARNESS_SRC", os.path.join(VERIF, "harness")), dst)
    gm = open(os.path.join(dst, "go.mod")).read().replace("=> /repo", "=> " + os.path.realpath(REPO))
    open(os.path.join(dst, "go.mod"), "w").write(gm)
    HARNESS = dst
TOOLCHAIN = "/root/go/pkg/mod/golang.org/toolchain@v0.0.1-go1.24.12.linux-amd64/bin"

# per-property settings: race build, shard count, per-shard wall limit (s)
# tscale multiplies the thorough tier's case counts so that every thorough run is a few minutes
# of 16-core work; qscale does the same for the quick tier (10-40 s of 16-core work per property)
PROPS = {
    "C01": {"tscale": 20, "race_job": "concurrent-serialisation"}, "C02": {"tscale": 40, "qscale": 40}, "C03": {}, "C04": {"race_in_thorough": True}, "C05": {},
    "C06": {"tscale": 20, "qscale": 15}, "C07": {"tscale": 40, "qscale": 40, "race_job": "concurrent-hashing"}, "C08": {"race_in_thorough": True, "qscale": 6},
    "C09": {"tscale": 30, "qscale": 20}, "C10": {"tscale": 40, "qscale": 12}, "C11": {"tscale": 3, "qscale": 2},
    "C12": {"tscale": 40, "qscale": 80}, "C13": {"tscale": 40, "qscale": 20}, "C14": {"tscale": 60, "qscale": 80},
    "C15": {"tscale": 60, "qscale": 80, "virtual_clock_job": "lifetime"}, "C16": {"qscale": 4}, "C17": {"tscale": 12, "qscale": 15, "race_job": "concurrent-accessors"}, "C18": {"race": True},
    "C19": {"tscale": 30, "qscale": 60}, "C20": {"qscale": 2},
}


def goenv():
    env = dict(os.environ)
    for k in ("DEBUG_I2P", "WARNFAIL_I2P"):
        env.pop(k, None)
    env["GOFLAGS"] = "-mod=mod"
    env["GOPROXY"] = "off"
    env["GOSUMDB"] = "off"
    env["GONOSUMDB"] = "*"
    env["GONOSUMCHECK"] = "1"
    if os.path.isdir(TOOLCHAIN):
        env["PATH"] = TOOLCHAIN + os.pathsep + env.get("PATH", "")
        env["GOTOOLCHAIN"] = "local"
    else:  # fall back to toolchain switching (needs the sum db lookup disabled another way)
        env.pop("GOSUMDB", None)
        env["GOTOOLCHAIN"] = "auto"
    env.setdefault("GOCACHE", os.path.join(os.path.expanduser("~"), ".cache", "go-build"))
    return env


def build(race=False, faketime=False):
    """Rebuild the worker against /repo's current working tree. Returns (path, None) or (None, err)."""
    os.makedirs(BIN, exist_ok=True)
    prepare_harness()
    shutil.copyfile(os.path.join(REPO, "go.sum"), os.path.join(HARNESS, "go.sum"))
    # census of the exported API of the working tree (types, functions), regenerated every build
    p = subprocess.run(["go", "run", "./cmd/census", REPO, os.path.join(HARNESS, "lib", "census_gen.go")], cwd=HARNESS,
                       env=goenv(), stdout=subprocess.PIPE, stderr=subprocess.STDOUT, text=True)
    if p.returncode != 0:
        return None, "census failed:\n" + p.stdout[-4000:]
    out = os.path.join(BIN, "worker-race" if race else ("worker-faketime" if faketime else "worker"))
    cmd = ["go", "build", "-tags", "verif faketime" if faketime else "verif", "-o", out]
    if race:
        cmd.append("-race")
    cmd.append("./cmd/worker")
    env = goenv()
    if faketime:
        # the runtime's virtual clock (time.Now advances only while every goroutine is blocked, so
        # time.Sleep(48h) returns at once). It needs a binary without the cgo runtime: with it the
        # scheduler's all-idle detection, which is what advances the clock, never fires.
        env["CGO_ENABLED"] = "0"
    p = subprocess.run(cmd, cwd=HARNESS, env=env, stdout=subprocess.PIPE, stderr=subprocess.STDOUT, text=True)
    if p.returncode != 0:
        return None, p.stdout[-4000:]
    return out, None


def load_known():
    path = os.environ.get("VERIF_KNOWN_SRC", os.path.join(VERIF, "known_findings.json"))
    if not os.path.exists(path):
        return []
    return json.load(open(path)).get("findings", [])


def _norm(x):
    if isinstance(x, bool):
        return "true" if x else "false"
    if isinstance(x, float) and x == int(x):
        return str(int(x))
    return str(x)


def pred_ok(pred, val):
    if isinstance(pred, dict):
        for op, ref in pred.items():
            if op == "gt" and not (isinstance(val, (int, float)) and val > ref): return False
            if op == "ge" and not (isinstance(val, (int, float)) and val >= ref): return False
            if op == "lt" and not (isinstance(val, (int, float)) and val < ref): return False
            if op == "le" and not (isinstance(val, (int, float)) and val <= ref): return False
            if op == "in" and _norm(val) not in [_norm(x) for x in ref]: return False
            if op == "prefix" and not (isinstance(val, str) and val.startswith(ref)): return False
            if op == "contains" and not (isinstance(val, str) and ref in val): return False
            if op == "absent" and ref and val is not None: return False
        return True
    return _norm(val) == _norm(pred)


def match_known(v, known):
    for k in known:
        if k.get("status") != "known":
            continue
        if k["property"] != v["property"]:
            continue
        if k.get("site") not in (None, v["site"]) and not (isinstance(k.get("site"), list) and v["site"] in k["site"]):
            continue
        if k.get("clause") not in (None, v["clause"]) and not (isinstance(k.get("clause"), list) and v["clause"] in k["clause"]):
            continue
        shape = v.get("shape") or {}
        if all(pred_ok(p, shape.get(key)) for key, p in (k.get("match") or {}).items()):
            return k
    return None


def run_shards(worker, prop, tier, seed, nshards, outdir, limit, extra_env=None, extra_args=None):
    procs = []
    env = goenv()
    env.pop("GOFLAGS", None)
    env["VERIF_TSCALE"] = str(PROPS.get(prop, {}).get("tscale", 1))
    env["VERIF_QSCALE"] = os.environ.get("VERIF_QSCALE", str(PROPS.get(prop, {}).get("qscale", 1)))
    env["VERIF_KNOWN"] = os.environ.get("VERIF_KNOWN_SRC", os.path.join(VERIF, "known_findings.json"))
    if extra_env:
        env.update(extra_env)
    for i in range(nshards):
        cmd = ["timeout", "-s", "QUIT", str(limit), worker, "-prop", prop, "-tier", tier, "-seed", str(seed),
               "-shard", str(i), "-nshards", str(nshards), "-out", outdir] + (extra_args or [])
        log = open(os.path.join(outdir, f"shard-{i}.log"), "w")
        procs.append((i, subprocess.Popen(cmd, stdout=log, stderr=subprocess.STDOUT, env=env), log))
    res = {}
    for i, p, log in procs:
        res[i] = p.wait()
        log.close()
    return res


def count_distinct(worker, outdir):
    """Distinct case hashes over all shards (counted by the worker binary: sorting a []uint64 is cheap,
    a Python set of tens of millions of entries is not). Falls back to a Python set."""
    try:
        env = goenv(); env.pop("GOFLAGS", None)
        p = subprocess.run([worker, "-count-distinct", outdir], stdout=subprocess.PIPE, stderr=subprocess.PIPE, text=True, env=env, timeout=900)
        if p.returncode == 0:
            return int(p.stdout.strip())
    except Exception:
        pass
    distinct = set()
    for dp in glob.glob(os.path.join(outdir, "distinct-*.bin")):
        b = open(dp, "rb").read()
        for k in range(0, len(b), 8):
            distinct.add(b[k:k + 8])
    return len(distinct)


def replay_case(worker, prop, tier, seed, job, index, limit=150):
    outdir = os.path.join(OUT, f"replay-{prop}-{os.getpid()}")
    shutil.rmtree(outdir, ignore_errors=True)
    os.makedirs(outdir)
    env = goenv(); env.pop("GOFLAGS", None)
    # the same case counts as the run that produced the case, so that the job reaches its index
    env["VERIF_TSCALE"] = str(PROPS.get(prop, {}).get("tscale", 1))
    env["VERIF_QSCALE"] = os.environ.get("VERIF_QSCALE", str(PROPS.get(prop, {}).get("qscale", 1)))
    cmd = ["timeout", "-s", "QUIT", str(limit), worker, "-prop", prop, "-tier", tier, "-seed", str(seed),
           "-out", outdir, "-replay-job", job, "-replay-index", str(index)]
    p = subprocess.run(cmd, stdout=subprocess.PIPE, stderr=subprocess.STDOUT, text=True, env=env)
    return p.returncode, p.stdout, outdir


def read_pending(path):
    try:
        b = open(path, "rb").read()
        n = struct.unpack_from("<I", b, 0)[0]
        b = b[4:n]
        jl = struct.unpack_from("<H", b, 0)[0]
        job = b[2:2 + jl].decode(); b = b[2 + jl:]
        idx = struct.unpack_from("<q", b, 0)[0]; b = b[8:]
        ol = struct.unpack_from("<H", b, 0)[0]
        op = b[2:2 + ol].decode()
        return job, idx, op, b[2 + ol:]
    except Exception:
        return None


def check(prop, tier, seed, nshards):
    t0 = time.time()
    cfg = PROPS[prop]
    race = cfg.get("race", False)
    builds = [("normal", False)] if not race else [("race", True)]
    if tier == "thorough" and cfg.get("race_in_thorough"):
        builds.append(("race", True))
    if cfg.get("virtual_clock_job"):
        # a second worker built with the runtime's virtual clock runs one job (first, so that the
        # distinct-case count below is taken from the main build's output)
        builds.insert(0, ("virtual-clock", False))
    if cfg.get("race_job") and not race and not (tier == "thorough" and cfg.get("race_in_thorough")):
        # the property's own small concurrent job is also run under the race detector (the same
        # worker-race binary C18 uses): a window of a few instructions that result comparison has to
        # hit by luck is a certain report there
        builds.insert(0, ("race-job", True))
    known = load_known()
    evidence_path = os.path.join(EVID, f"{prop}.json")
    os.makedirs(os.path.dirname(evidence_path), exist_ok=True)
    try:
        os.remove(evidence_path)
    except FileNotFoundError:
        pass

    merged = {"evaluations": 0, "nontrivial": 0, "ops": {}, "buckets": {}, "samples": [], "violations": [],
              "violation_count": 0, "panics_outside_c04": 0, "extra": {}, "exhaustive": [], "floors": [], "builds": []}
    distinct = set()
    confirmed_ops = {}
    inconclusive = []
    race_reports = 0

    for bname, brace in builds:
        worker, err = build(race=brace, faketime=(bname == "virtual-clock"))
        if worker is None:
            print(f"INCONCLUSIVE property={prop} reason=build-failed\n{err}")
            write_evidence(prop, tier, seed, merged, 0, time.time() - t0, [], ["build failed"], inconclusive=True)
            return 3
        merged["builds"].append(bname)
        outdir = os.path.join(OUT, f"{prop}-{tier}-{bname}")
        shutil.rmtree(outdir, ignore_errors=True)
        os.makedirs(outdir)
        limit = 7200 if tier == "thorough" else 2400  # safety net only: hangs are decided by the worker watchdog (CPU time), expiry here is inconclusive
        extra_env = {}
        if bname == "virtual-clock":
            extra_env["VERIF_ONLY_JOB"] = cfg["virtual_clock_job"]
        if bname == "race-job":
            extra_env["VERIF_ONLY_JOB"] = cfg["race_job"]
        if brace:
            extra_env["GORACE"] = f"halt_on_error=0 log_path={outdir}/race history_size=5"
        rc = run_shards(worker, prop, tier, seed, nshards, outdir, limit, extra_env)
        for i in range(nshards):
            sp = os.path.join(outdir, f"shard-{i}.json")
            if os.path.exists(sp):
                s = json.load(open(sp))
                merge(merged, s)
                continue
            # shard died: find the culprit
            pend = read_pending(os.path.join(outdir, f"pending-{i}.bin"))
            hang = os.path.exists(os.path.join(outdir, f"hang-{i}.json"))
            full_log = open(os.path.join(outdir, f"shard-{i}.log"), errors="replace").read()
            tail = full_log[-3000:]
            k = full_log.find("fatal error:")
            if k >= 0:
                tail = full_log[k:k + 2500]
            if prop == "C18" and "fatal error: concurrent map" in tail:
                # schedule-dependent: the runtime's own detector of unsynchronised map access fired
                v = {"property": "C18", "site": "runtime", "clause": "concurrent-map-access-fatal", "shape": {"build": bname},
                     "job": "race-log", "index": 0, "seed": seed, "tier": tier, "detail": tail[-2500:]}
                merged["violations"].append(v); merged["violation_count"] += 1
                continue
            if pend is None:
                inconclusive.append(f"shard {i} ({bname}) died (exit {rc[i]}) without a pending call: {tail[-400:]}")
                continue
            job, idx, op, inp = pend
            if op in confirmed_ops:
                # another shard already died in the same operation and the single-case replay
                # confirmed it: recorded once more without spending another replay
                v = dict(confirmed_ops[op]); v.update({"job": job, "index": idx, "input_hex": inp.hex()[:140000]})
                merged["violations"].append(v); merged["violation_count"] += 1
                continue
            if os.path.exists(os.path.join(outdir, f"stall-{i}.json")):
                # the worker's watchdog could not tell a hang from a starved process (long in flight,
                # little CPU time used): the machine is too loaded for a verdict
                inconclusive.append(f"shard {i} ({bname}) stalled in {op} ({job}#{idx}): in flight for a long time with too little CPU time to call it a hang")
                continue
            rrc, rout, rdir = replay_case(worker, prop, tier, seed, job, idx, limit=2400)
            # the single-case replay decides. A hang is confirmed only by the worker's own watchdog,
            # which judges by CPU time consumed (busy) or by none at all (blocked) - never by the
            # wall clock alone; a replay that merely runs out of wall time is inconclusive.
            replay_hang = rrc == 4 and bool(glob.glob(os.path.join(rdir, "hang-*.json")))
            replay_fatal = rrc not in (0, 1, 4, 5, 124) or ("fatal error" in rout or "panic:" in rout)
            if rrc in (5, 124) and not replay_fatal:
                inconclusive.append(f"shard {i} ({bname}) died in {op} ({job}#{idx}) and the single-case replay ran out of time without a verdict (exit {rrc})")
                continue
            confirmed = replay_hang or replay_fatal
            if confirmed:
                v = {"property": prop if prop in ("C18", "C20") else "C04", "site": op.split("#")[0], "clause": "hang" if replay_hang else "process-fatal",
                     "shape": {"op": op}, "job": job, "index": idx, "seed": seed, "tier": tier,
                     "input_hex": inp.hex()[:140000], "detail": (rout or tail)[-1500:]}
                merged["violations"].append(v); merged["violation_count"] += 1
                confirmed_ops[op] = v
            else:
                # not reproduced alone: re-run the shard once
                rc2 = run_shards(worker, prop, tier, seed, nshards, outdir, limit, extra_env, [])
                if os.path.exists(sp):
                    merge(merged, json.load(open(sp)))
                else:
                    inconclusive.append(f"shard {i} ({bname}) died twice (exit {rc[i]}) and the pending case {job}#{idx} does not reproduce alone")
        if brace:
            race_reports += collect_races(outdir, prop, seed, tier, merged)

    merged["distinct"] = count_distinct(worker, outdir)
    merged["extra"]["race_reports"] = race_reports if any(b for _, b in builds) else None

    # floors (evaluated over the merged run)
    floors = list(merged["floors"])
    if merged["evaluations"] == 0:
        floors.append("no evaluations")
    for need in FLOORS.get(prop, []):
        msg = need(merged)
        if msg:
            floors.append(msg)

    # violations: known findings vs. new
    new, matched = [], {}
    for v in merged["violations"]:
        k = match_known(v, known)
        if k is not None:
            matched.setdefault(k["id"], (k, 0))
            matched[k["id"]] = (k, matched[k["id"]][1] + 1)
        else:
            new.append(v)
    # a violation belonging to another property (C04 panics seen by C01, ...) is reported under its own id
    replay_paths = []
    os.makedirs(REPL, exist_ok=True)
    seen = set()
    for v in new:
        key = (v["property"], v["site"], v["clause"], json.dumps(v.get("shape"), sort_keys=True))
        if key in seen:
            continue
        seen.add(key)
        h = hashlib.sha256(json.dumps(v, sort_keys=True).encode()).hexdigest()[:12]
        path = os.path.join(REPL, f"{prop}-{h}.json")
        v2 = dict(v); v2["checked_by"] = prop
        json.dump(v2, open(path, "w"), indent=1)
        replay_paths.append((v, path))
    for kid, (k, n) in sorted(matched.items()):
        print(f"KNOWN-FINDING: property={k['property']} {k['what']} [{kid}; {n} stored witness(es) this run]")
    for v, path in replay_paths[:40]:
        print(f"VIOLATION property={v['property']} replay={path} site={v['site']} clause={v['clause']} shape={json.dumps(v.get('shape'), sort_keys=True)[:300]}")
    wall = time.time() - t0
    write_evidence(prop, tier, seed, merged, len(new), wall, sorted(matched), floors + inconclusive,
                   inconclusive=bool(inconclusive or floors))
    print(f"[{prop} {tier} seed={seed}] evaluations={merged['evaluations']} distinct_nontrivial={merged['distinct']} "
          f"violations={merged['violation_count']} (new={len(new)}, known-matched={sum(n for _, n in matched.values())}) "
          f"panics_outside_c04={merged['panics_outside_c04']} wall={wall:.1f}s")
    if new:
        return 1
    if inconclusive or floors:
        for m in inconclusive + floors:
            print(f"INCONCLUSIVE property={prop} reason={m}")
        return 3
    return 0


def merge(m, s):
    m["evaluations"] += s["evaluations"]
    m["nontrivial"] += s["nontrivial"]
    for k, o in (s.get("ops") or {}).items():
        d = m["ops"].setdefault(k, {"calls": 0, "accepted": 0, "rejected": 0, "panics": 0})
        for f in d:
            d[f] += o.get(f, 0)
    for k, n in (s.get("buckets") or {}).items():
        m["buckets"][k] = m["buckets"].get(k, 0) + n
    for x in (s.get("samples") or []):
        if len(m["samples"]) < 8:
            m["samples"].append(x)
    m["violations"].extend(s.get("violations") or [])
    m["violation_count"] += s.get("violation_count", 0)
    m["panics_outside_c04"] += s.get("panics_outside_c04", 0)
    for k, v in (s.get("extra") or {}).items():
        if isinstance(v, (int, float)) and not isinstance(v, bool):
            m["extra"][k] = m["extra"].get(k, 0) + v
        elif isinstance(v, list):
            m["extra"].setdefault(k, [])
            for x in v:
                if x not in m["extra"][k] and len(m["extra"][k]) < 400:
                    m["extra"][k].append(x)
        elif isinstance(v, dict):
            d = m["extra"].setdefault(k, {})
            for kk, vv in v.items():
                if isinstance(vv, (int, float)) and not isinstance(vv, bool):
                    d[kk] = d.get(kk, 0) + vv
                else:
                    d[kk] = vv
        else:
            m["extra"][k] = v
    for x in (s.get("exhaustive_sweeps") or []):
        if x not in m["exhaustive"]:
            m["exhaustive"].append(x)
    for x in (s.get("floor_failures") or []):
        m["floors"].append(x)


def collect_races(outdir, prop, seed, tier, merged):
    """Count DATA RACE blocks in the race logs; one violation per distinct pair of library frames."""
    n = 0
    seen = set()
    for path in glob.glob(os.path.join(outdir, "race.*")) + glob.glob(os.path.join(outdir, "shard-*.log")):
        txt = open(path, errors="replace").read()
        blocks = txt.split("WARNING: DATA RACE")[1:]
        for blk in blocks:
            blk = blk.split("==================")[0]
            n += 1
            frames = [l.strip() for l in blk.splitlines() if "github.com/go-i2p/" in l and "(" in l]
            lib = [f.split("(")[0] for f in frames if "github.com/go-i2p/common" in f or "github.com/go-i2p/crypto" in f]
            key = tuple(sorted(set(lib[:2]))) if lib else ("harness-only",)
            if key in seen:
                continue
            seen.add(key)
            v = {"property": "C18", "site": " <-> ".join(key)[:300], "clause": "data-race", "shape": {"library_frames": bool(lib)},
                 "job": "race-log", "index": 0, "seed": seed, "tier": tier, "detail": blk[:3000]}
            merged["violations"].append(v); merged["violation_count"] += 1
    return n


def write_evidence(prop, tier, seed, m, nviol, wall, known_matched, notes, inconclusive=False):
    rule = RULES.get(prop, "cases are generated from seeded PRNG streams; a case is non-trivial when it reached the deciding clause of the oracle; distinct by SHA-256 of (operation, arguments, input)")
    samples = m["samples"] or [{"note": "no sample recorded"}]
    cov = {
        "evaluations": int(m["evaluations"]),
        "distinct_nontrivial": int(m.get("distinct", 0)),
        "nontrivial_evaluations": int(m["nontrivial"]),
        "rule": rule,
        "samples": samples,
        "operations": m["ops"],
        "buckets": dict(sorted(m["buckets"].items())[:2500]),
        "bucket_count": len(m["buckets"]),
        "extra": m["extra"],
        "builds": m.get("builds", []),
        "known_findings_matched": known_matched,
        "violations_total_observed": int(m["violation_count"]),
        "panics_outside_c04": int(m["panics_outside_c04"]),
        "verdict": "violated" if nviol else ("inconclusive" if inconclusive else "held on what was observed"),
        "notes": notes,
    }
    if m.get("exhaustive"):
        cov["exhaustive_sweeps"] = m["exhaustive"]
    ev = {"property_id": prop, "tier": tier, "seed": int(seed), "level": "exploration", "coverage": cov,
          "assumptions": ASSUMPTIONS.get(prop, []) + COMMON_ASSUMPTIONS, "wall_s": round(wall, 2), "violations": int(nviol)}
    os.makedirs(EVID, exist_ok=True)
    json.dump(ev, open(os.path.join(EVID, f"{prop}.json"), "w"), indent=1, default=str)


COMMON_ASSUMPTIONS = [
    "the reference model in harness/refmodel transcribes the I2P 0.9.67 common-structures specification correctly",
    "only executions produced by this run are covered: the generated shapes, mutations and interleavings listed under coverage",
]
ASSUMPTIONS = {}
RULES = {}


def floor_ops_accept(minimum=1, skip=()):
    def f(m):
        bad = [k for k, o in m["ops"].items() if o["accepted"] < minimum and not any(s in k for s in skip)]
        if bad:
            return "operations that never accepted an input: " + ", ".join(sorted(bad)[:12])
    return f


def floor_bucket_prefix(prefix, minimum):
    def f(m):
        n = sum(1 for k, v in m["buckets"].items() if k.startswith(prefix) and v > 0)
        if n < minimum:
            return f"only {n} buckets with prefix {prefix!r} were hit (need {minimum})"
    return f


def floor_c18_overlap(m):
    h = (m["extra"].get("goroutine_overlap_histogram") or {})
    tot = sum(h.values())
    alone = h.get("max_in_flight_01", 0)
    if tot == 0 or alone > 0.10 * tot:
        return f"goroutines overlapped too rarely: {alone} of {tot} ran alone"
    if (m["extra"].get("distinct_interleaving_signatures") or 0) < 10:
        return "fewer than 10 distinct interleaving signatures observed"


FLOORS = {
    "C18": [floor_c18_overlap],
    "C05": [floor_bucket_prefix("original-verified-by-both/", 60)],
    "C01": [floor_ops_accept(skip=("ReadSignature#9", "ReadSignature#10"))],
    "C03": [floor_ops_accept()],
}


def cmd_replay(path):
    v = json.load(open(path))
    prop = v.get("checked_by") or v["property"]
    race = PROPS.get(prop, {}).get("race", False)
    vc = PROPS.get(prop, {}).get("virtual_clock_job")
    worker, err = build(race=race, faketime=bool(vc) and v.get("job") == vc)
    if worker is None:
        print("build failed\n" + err); return 3
    if v.get("job") in (None, "", "race-log"):
        print("this witness has no case coordinates (race report or process-level record); see its 'detail'")
        print(v.get("detail", "")); return 0
    rc, out, _ = replay_case(worker, prop, v.get("tier", "quick"), v["seed"], v["job"], v["index"])
    print(out)
    return rc


def main():
    ap = argparse.ArgumentParser()
    sub = ap.add_subparsers(dest="cmd", required=True)
    c = sub.add_parser("check"); c.add_argument("prop"); c.add_argument("--tier", default=os.environ.get("VERIF_TIER", "quick"))
    c.add_argument("--seed", type=int, default=int(os.environ.get("VERIF_SEED", "20261001")))
    c.add_argument("--shards", type=int, default=int(os.environ.get("VERIF_SHARDS", "16")))
    r = sub.add_parser("replay"); r.add_argument("path")
    sub.add_parser("setup")
    a = ap.parse_args()
    if a.cmd == "setup":
        # warm the build cache for all three worker builds (normal, race, virtual clock)
        for kw in ({}, {"race": True}, {"faketime": True}):
            w, err = build(**kw)
            if w is None:
                print(err); return 1
            print("built", w)
        return 0
    if a.cmd == "replay":
        return cmd_replay(a.path)
    if a.prop not in PROPS:
        print("unknown property", a.prop); return 3
    if a.tier not in ("quick", "thorough"):
        a.tier = "quick"
    return check(a.prop, a.tier, a.seed, a.shards)


if __name__ == "__main__":
    sys.exit(main())
