// Package gen holds the seeded generators of well-formed model values and the
// structure-aware mutators. Everything is a function of the PRNG stream it is given.
package gen

import (
	"encoding/binary"
	"fmt"
	"sort"

	"verifharness/core"
	rm "verifharness/refmodel"
)

type Shape = map[string]any

var wellKnownKeys = []string{"host", "port", "caps", "s", "i", "v", "netId", "router.version", "mtu", "ihost0", "iport0", "ikey0", "itag0", "ih0", "iexp0", "hos", "hostx", "por", "portx", "cap", "capsx", "a", "b", "k"}

// CollisionGroups: distinct strings that collide under a common non-cryptographic hash function
// (FNV-1a/32, CRC-32, Java's String.hashCode, DJB2, byte sum / xor). A set or cache keyed by such
// a hash instead of by the string itself confuses the members of a group.
var CollisionGroups = [][]string{
	{"costarring", "liquid"}, {"declinate", "macallums"}, {"altarage", "zinke"}, {"altarages", "zinkes"}, // FNV-1a 32
	{"plumless", "buckeroo"},                                     // CRC-32
	{"Aa", "BB"}, {"AaAa", "BBBB", "AaBB", "BBAa"}, {"Ea", "FB"}, // 31-multiplier polynomial
	{"hetairas", "mentioner"}, {"heliotropes", "neurospora"}, {"depravement", "serafins"}, {"stylist", "subgenera"}, {"joyful", "synaphea"}, {"redescribed", "urites"}, {"dram", "vivency"}, // DJB2
	{"ab", "ba"}, {"abc", "cab", "bca"}, {"ad", "bc"}, {"host", "hots", "shot"}, // byte sum / xor / anagrams
	{"a\x00", "a"}, {"", "\x00"}, {"k", "k\x00\x00"}, // NUL padding / C-string truncation
}

func randKey(r *core.Rand) []byte {
	switch r.Pick(10) {
	case 0:
		return []byte{byte('a' + r.Pick(26))} // one-character key
	case 1, 2, 3:
		return []byte(wellKnownKeys[r.Pick(len(wellKnownKeys))])
	case 4:
		n := 1 + r.Pick(12)
		b := make([]byte, n)
		for i := range b {
			b[i] = byte('a' + r.Pick(26))
		}
		return b
	case 5:
		return r.Bytes(1 + r.Pick(8)) // arbitrary bytes incl. '=' ';' NUL high-bit
	case 6:
		b := []byte("k=;x")
		b[r.Pick(len(b))] = byte(r.Pick(256))
		return b
	case 7:
		if r.Chance(1, 6) {
			return r.Bytes(255)
		}
		return r.Bytes(20 + r.Pick(60))
	default:
		n := 2 + r.Pick(6)
		b := make([]byte, n)
		for i := range b {
			b[i] = "abcdefghijklmnopqrstuvwxyz0123456789._"[r.Pick(38)]
		}
		return b
	}
}

func randVal(r *core.Rand) []byte {
	switch r.Pick(10) {
	case 0, 1:
		return []byte{} // empty value
	case 2:
		return []byte{byte('0' + r.Pick(10))}
	case 3:
		return []byte(fmt.Sprintf("%d.%d.%d.%d", r.Pick(256), r.Pick(256), r.Pick(256), r.Pick(256)))
	case 4:
		return []byte(fmt.Sprintf("%d", r.Pick(70000)))
	case 5:
		return r.Bytes(1 + r.Pick(10))
	case 6:
		if r.Chance(1, 5) {
			return r.Bytes(255)
		}
		return r.Bytes(32)
	case 7:
		return []byte("a=b;c")
	default:
		n := 1 + r.Pick(10)
		b := make([]byte, n)
		for i := range b {
			b[i] = "abcdefghijklmnopqrstuvwxyzABCDEFXYZ0123456789"[r.Pick(45)]
		}
		return b
	}
}

// Mapping generates a well-formed mapping with unique keys. maxPairs bounds the count.
// mappingOfSize builds a sorted mapping whose body is exactly target bytes long (target >= 4).
func mappingOfSize(r *core.Rand, target int) rm.Mapping {
	var m rm.Mapping
	left := target
	for j := 0; left > 0; j++ {
		k := []byte(fmt.Sprintf("k%03d", j))
		// a pair costs len(k)+len(v)+4 bytes; the last pair takes what is left
		vl := r.Pick(200)
		cost := len(k) + vl + 4
		if left-cost < 8 { // finish exactly
			vl = left - len(k) - 4
			for vl > 255 { // too much for one value: pad the key instead
				k = append(k, 'x')
				vl--
			}
			if vl < 0 { // fewer than 8 bytes left: a shorter key
				k = k[:len(k)+vl]
				vl = 0
			}
			cost = len(k) + vl + 4
		}
		v := make([]byte, vl)
		for i := range v {
			v[i] = 'a' + byte(r.Pick(26))
		}
		m.Pairs = append(m.Pairs, rm.Pair{K: k, V: v})
		left -= cost
	}
	return m
}

// sizes of a mapping body whose two size-field bytes are "interesting" together: equal, summing to
// 256, one of them zero or 0xFF
var mappingBodySizes = []int{255, 256, 257, 511, 512, 513, 514, 766, 767, 768, 1021, 1024, 1276, 2041, 4080, 4081, 0x0FF0, 0x1001}

func Mapping(r *core.Rand, maxPairs int) rm.Mapping {
	if maxPairs >= 6 && r.Chance(1, 24) {
		return mappingOfSize(r, mappingBodySizes[r.Pick(len(mappingBodySizes))])
	}
	n := 0
	switch r.Pick(10) {
	case 0, 1, 2:
		n = 0
	case 3, 4:
		n = 1
	case 5, 6, 7:
		n = 2 + r.Pick(3)
	case 8:
		n = 5 + r.Pick(6)
	default:
		n = r.Pick(maxPairs + 1)
	}
	if n > maxPairs {
		n = maxPairs
	}
	seen := map[string]bool{}
	var m rm.Mapping
	total := 0
	for len(m.Pairs) < n {
		k := randKey(r)
		if seen[string(k)] {
			if len(seen) > 200 {
				break
			}
			continue
		}
		v := randVal(r)
		if total+len(k)+len(v)+4 > 60000 {
			break
		}
		seen[string(k)] = true
		total += len(k) + len(v) + 4
		m.Pairs = append(m.Pairs, rm.Pair{K: k, V: v})
	}
	// now and then: all members of a hash-collision group as keys of one mapping; a value that
	// spells the key of an earlier pair
	if maxPairs >= 4 && r.Chance(1, 16) {
		for _, k := range CollisionGroups[r.Pick(len(CollisionGroups))] {
			if !seen[k] && total+len(k)+8 < 60000 {
				seen[k] = true
				m.Pairs = append(m.Pairs, rm.Pair{K: []byte(k), V: randVal(r)})
			}
		}
	}
	if len(m.Pairs) >= 2 && r.Chance(1, 12) {
		j := 1 + r.Pick(len(m.Pairs)-1)
		m.Pairs[j].V = append([]byte(nil), m.Pairs[r.Pick(j)].K...)
	}
	if r.Chance(7, 10) {
		sort.SliceStable(m.Pairs, func(i, j int) bool { return string(m.Pairs[i].K) < string(m.Pairs[j].K) })
	}
	if m.Pairs == nil {
		m.Pairs = []rm.Pair{}
	}
	return m
}

// SmallMapping: the common option shapes, cheap.
func SmallMapping(r *core.Rand) rm.Mapping { return Mapping(r, 6) }

// Cert generates an arbitrary certificate (any type, any payload).
func Cert(r *core.Rand) rm.Cert {
	t := byte(r.Pick(6))
	if r.Chance(1, 8) {
		t = byte(r.Pick(256))
	}
	n := 0
	switch r.Pick(6) {
	case 0, 1:
		n = 0
	case 2:
		n = 4
	case 3:
		n = []int{40, 72}[r.Pick(2)]
	case 4:
		n = 1 + r.Pick(12)
	default:
		n = r.Pick(300)
	}
	if t == rm.CertKey && r.Chance(1, 3) {
		n = r.Pick(9) // around the 4 bytes of the two key-type fields: 0..3 short, 4 exact, 5..8 surplus
	}
	if t == rm.CertMultiple && r.Chance(1, 2) {
		// a MULTIPLE certificate whose payload is itself a sequence of certificates: empty ones
		// (type, zero length), short ones, one cut off, one declaring more than is there
		var p []byte
		for k := 0; k < 1+r.Pick(5); k++ {
			nt := byte(r.Pick(6))
			switch r.Pick(5) {
			case 0:
				p = append(p, nt, 0, 0)
			case 1:
				body := r.Bytes(1 + r.Pick(12))
				p = append(append(p, nt, 0, byte(len(body))), body...)
			case 2:
				p = append(p, nt, 0)
			case 3:
				p = append(p, nt, byte(r.Pick(256)), byte(r.Pick(256)))
			default:
				p = append(p, Cert(r).Encode()...)
			}
			if len(p) > 600 {
				break
			}
		}
		return rm.Cert{Type: t, Payload: p}
	}
	return rm.Cert{Type: t, Payload: r.Bytes(n)}
}

// KeyCert generates a KEY certificate for the given types with optional excess payload.
func KeyCert(r *core.Rand, sig, crypto int) rm.Cert {
	var extra []byte
	if r.Chance(1, 4) {
		extra = r.Bytes(1 + r.Pick(8))
		if r.Chance(1, 6) {
			extra = r.Bytes(9 + r.Pick(56))
		}
	}
	return rm.KeyCert(sig, crypto, extra)
}

// ElgInRange / DSAInRange make a big-endian field acceptable to the crypto library's
// range-checking constructors (2 <= y < p-1 for ElGamal, 1 < y < p for DSA).
func ElgInRange(b []byte) {
	b[0] &= 0x7f
	b[len(b)-1] |= 2
}
func DSAInRange(b []byte) {
	b[0] %= 0x9c
	b[len(b)-1] |= 2
}

// KAC generates keys-and-cert with the signing/crypto types drawn from the lists.
func KAC(r *core.Rand, sigs, cryptos []int) (rm.KAC, Shape) {
	sig := sigs[r.Pick(len(sigs))]
	crypto := cryptos[r.Pick(len(cryptos))]
	return KACOf(r, sig, crypto)
}

func KACOf(r *core.Rand, sig, crypto int) (rm.KAC, Shape) {
	var k rm.KAC
	copy(k.Block[:], r.Bytes(384))
	switch r.Pick(12) {
	case 0:
		for i := range k.Block {
			k.Block[i] = 0
		}
		copy(k.Block[:], r.Bytes(32))
		copy(k.Block[352:], r.Bytes(32))
	case 1:
		for i := range k.Block {
			k.Block[i] = 0xff
		}
	}
	ElgInRange(k.Block[0:256])
	DSAInRange(k.Block[256:384])
	form := "KEY"
	if sig == 0 && crypto == 0 && r.Chance(1, 2) {
		form = "NULL"
		k.Cert = rm.Cert{Type: rm.CertNull, Payload: []byte{}}
		if r.Chance(1, 10) {
			form = "NULL+payload"
			k.Cert.Payload = r.Bytes(1 + r.Pick(6))
		}
	} else {
		k.Cert = KeyCert(r, sig, crypto)
		if len(k.Cert.Payload) > 4 {
			form = "KEY+extra"
		}
	}
	return k, Shape{"sig": sig, "crypto": crypto, "cert": form}
}

func RouterAddress(r *core.Rand) rm.RouterAddress {
	var a rm.RouterAddress
	a.Cost = byte(r.Pick(256))
	if r.Chance(1, 10) {
		copy(a.Expiration[:], r.Bytes(8))
	}
	switch r.Pick(8) {
	case 0:
		a.Style = []byte("NTCP2")
	case 1:
		a.Style = []byte("SSU2")
	case 2:
		a.Style = []byte("SSU")
	case 3:
		a.Style = []byte("ntcp2")
	case 4:
		a.Style = r.Bytes(1 + r.Pick(10))
		if r.Chance(1, 6) { // the longest styles a 1-byte length can frame
			a.Style = r.Bytes([]int{253, 254, 255}[r.Pick(3)])
		}
	case 5:
		a.Style = []byte{}
	default:
		a.Style = []byte("NTCP")
	}
	a.Options = SmallMapping(r)
	if r.Chance(1, 5) {
		// the options routers publish: host / port / static key / IV / capabilities / version / MTU,
		// and SSU introducer slots 0-2 (hash, expiration, tag) - complete and with one part missing
		var ps []rm.Pair
		put := func(k string, v []byte) { ps = append(ps, rm.Pair{K: []byte(k), V: v}) }
		if r.Chance(4, 5) {
			put("host", []byte([]string{"1.2.3.4", "2001:db8::1", "::ffff:10.0.0.1", "192.168.100.200"}[r.Pick(4)]))
		}
		if r.Chance(4, 5) {
			put("port", []byte(fmt.Sprint(1+r.Pick(65535))))
		}
		if r.Chance(1, 2) {
			put("s", r.Bytes(32))
			put("i", r.Bytes(16))
		}
		if r.Chance(1, 2) {
			put("caps", []byte([]string{"BC", "4", "6", "46", "B"}[r.Pick(5)]))
		}
		if r.Chance(1, 2) {
			put("v", []byte("2"))
			put("mtu", []byte(fmt.Sprint(1280+r.Pick(220))))
		}
		for slot := 0; slot < 3; slot++ {
			if !r.Chance(1, 2) {
				continue
			}
			skip := r.Pick(5) // 0-2: leave one part out, else complete
			if skip != 0 {
				put(fmt.Sprintf("ih%d", slot), []byte(b64ish(r, 44)))
			}
			if skip != 1 {
				put(fmt.Sprintf("iexp%d", slot), []byte(fmt.Sprint(1700000000+r.Pick(100000000))))
			}
			if skip != 2 {
				put(fmt.Sprintf("itag%d", slot), []byte(fmt.Sprint(r.Uint32())))
			}
		}
		sort.SliceStable(ps, func(i, j int) bool { return string(ps[i].K) < string(ps[j].K) })
		a.Options = rm.Mapping{Pairs: ps}
	}
	return a
}

// b64ish: n characters of the I2P base64 alphabet (what an introducer hash looks like), or fewer
func b64ish(r *core.Rand, n int) string {
	const alpha = "ABCDEFGHIJKLMNOPQRSTUVWXYZabcdefghijklmnopqrstuvwxyz0123456789-~"
	if r.Chance(1, 4) {
		n = r.Pick(n)
	}
	b := make([]byte, n)
	for i := range b {
		b[i] = alpha[r.Pick(len(alpha))]
	}
	return string(b)
}

func RouterInfo(r *core.Rand) (rm.RouterInfo, Shape) {
	var ri rm.RouterInfo
	var sh Shape
	ri.Ident, sh = KAC(r, rm.RouterSigTypes, rm.IdentCryptoTypes)
	ri.Published = r.Uint64()
	if r.Chance(1, 10) {
		ri.Published = uint64(r.Pick(1 << 31))
	}
	if ri.Published == 0 {
		ri.Published = 1
	}
	n := r.Pick(4)
	if r.Chance(1, 15) {
		n = 4 + r.Pick(20)
	}
	for i := 0; i < n; i++ {
		ri.Addrs = append(ri.Addrs, RouterAddress(r))
	}
	ri.Options = SmallMapping(r)
	if r.Chance(1, 3) {
		// the options a real router publishes (every released version string, capability letters,
		// network id), sorted
		ri.Options = rm.Mapping{Pairs: []rm.Pair{
			{K: []byte("caps"), V: []byte([]string{"LU", "XfR", "PfR", "NU", "OfRD", "KU", "MR", "f"}[r.Pick(8)])},
			{K: []byte("netId"), V: []byte([]string{"2", "2", "2", "3", "17"}[r.Pick(5)])},
			{K: []byte("router.version"), V: []byte([]string{"0.9.9", "0.9.16", "0.9.50", "0.9.57", "0.9.58", "0.9.59", "0.9.62", "0.9.65", "0.9.67", "0.9.99", "0.10.0", "1.0.0", "2.8.1", "0.9.58-rc"}[r.Pick(14)])},
		}}
		if r.Chance(1, 2) {
			ri.Options.Pairs = append([]rm.Pair{{K: []byte("netdb.knownRouters"), V: []byte(fmt.Sprint(r.Pick(9000)))}}, ri.Options.Pairs[1:]...)
			ri.Options.Pairs = append([]rm.Pair{{K: []byte("caps"), V: []byte("LfR")}}, ri.Options.Pairs...)
			sort.SliceStable(ri.Options.Pairs, func(i, j int) bool { return string(ri.Options.Pairs[i].K) < string(ri.Options.Pairs[j].K) })
		}
	}
	sl, _ := rm.SigLen(sh["sig"].(int))
	ri.Sig = r.Bytes(sl)
	sh["addrs"] = n
	sh["opts"] = len(ri.Options.Pairs)
	return ri, sh
}

func Lease(r *core.Rand) rm.Lease {
	var l rm.Lease
	copy(l.GW[:], r.Bytes(32))
	l.TunnelID = r.Uint32()
	l.EndMs = r.Uint64()
	if r.Chance(1, 2) {
		l.EndMs = uint64(r.Int64N(1 << 62))
	}
	return l
}

func Lease2(r *core.Rand) rm.Lease2 {
	var l rm.Lease2
	copy(l.GW[:], r.Bytes(32))
	l.TunnelID = r.Uint32()
	l.EndS = r.Uint32()
	switch r.Pick(8) {
	case 0:
		l.EndS = 0
	case 1:
		l.EndS = 0xffffffff
	case 2:
		l.EndS = 1 << 31
	}
	return l
}

func count16(r *core.Rand) int {
	switch r.Pick(8) {
	case 0:
		return 0
	case 1:
		return 16
	case 2:
		return 1
	case 3, 4:
		return r.Pick(17) // every count 0..16
	default:
		return r.Pick(6)
	}
}

func LeaseSet(r *core.Rand) (rm.LeaseSet, Shape) {
	var l rm.LeaseSet
	var sh Shape
	l.Dest, sh = KAC(r, rm.DestSigTypes, rm.IdentCryptoTypes)
	l.EncKey = r.Bytes(256)
	ElgInRange(l.EncKey)
	pl, _ := rm.SigPubLen(sh["sig"].(int))
	l.SigningKey = r.Bytes(pl)
	if sh["sig"].(int) == 0 {
		DSAInRange(l.SigningKey)
	}
	n := count16(r)
	for i := 0; i < n; i++ {
		l.Leases = append(l.Leases, Lease(r))
	}
	sl, _ := rm.SigLen(sh["sig"].(int))
	l.Sig = r.Bytes(sl)
	sh["leases"] = n
	return l, sh
}

var offlineTransientTypes = []int{7, 7, 7, 11, 0, 1, 2, 8, 3, 4, 5, 6}

func Offline(r *core.Rand, destSig int) rm.Offline {
	t := offlineTransientTypes[r.Pick(len(offlineTransientTypes))]
	return OfflineOf(r, destSig, t)
}

func OfflineOf(r *core.Rand, destSig, transient int) rm.Offline {
	var o rm.Offline
	o.Expires = r.Uint32() | 1
	o.SigType = uint16(transient)
	kl, _ := rm.SigPubLen(transient)
	o.TransientKey = r.Bytes(kl)
	sl, _ := rm.SigLen(destSig)
	o.Sig = r.Bytes(sl)
	return o
}

func flags(r *core.Rand, offline bool, knownMask uint16) uint16 {
	var f uint16
	if offline {
		f |= 1
	}
	f |= uint16(r.Pick(4)<<1) & knownMask
	if r.Chance(1, 20) {
		f |= uint16(r.Pick(1<<13)) << 3 // reserved bits
	}
	return f
}

func published(r *core.Rand) uint32 {
	switch r.Pick(8) {
	case 0:
		return 0
	case 1:
		return 0xffffffff
	case 2:
		return 1 << 31
	case 3:
		return 1<<31 - 1
	case 4:
		return 0xffffffff - uint32(r.Pick(70000))
	default:
		return r.Uint32()
	}
}

func expires16(r *core.Rand) uint16 {
	switch r.Pick(6) {
	case 0:
		return 0
	case 1:
		return 65535
	case 2:
		return 1
	default:
		return uint16(r.Pick(65536))
	}
}

var encKeyTypes = []int{4, 4, 4, 0, 5, 6, 7, 1, 2, 3}

func EncKey(r *core.Rand) rm.EncKey {
	t := encKeyTypes[r.Pick(len(encKeyTypes))]
	n, _ := rm.CryptoLen(t)
	switch r.Pick(12) {
	case 0: // unknown type, arbitrary length
		t := uint16(8 + r.Pick(65528))
		if r.Chance(1, 2) { // first unassigned code, byte boundaries, the experimental range 65280-65534 and both ends of it
			t = []uint16{8, 9, 255, 256, 65279, 65280, 65281, 65300, 65533, 65534, 65535}[r.Pick(11)]
		}
		return rm.EncKey{Type: t, Data: r.Bytes(r.Pick(80))}
	case 1: // known type, length not matching the type (parser-accepted, validator-rejected)
		return rm.EncKey{Type: uint16(t), Data: r.Bytes(r.Pick(70))}
	case 2:
		return rm.EncKey{Type: uint16(t), Data: []byte{}}
	}
	return rm.EncKey{Type: uint16(t), Data: r.Bytes(n)}
}

// LeaseSet2 generates a well-formed LeaseSet2. canonicalKeys forces key lengths to match types.
func LeaseSet2(r *core.Rand) (rm.LeaseSet2, Shape) {
	var l rm.LeaseSet2
	var sh Shape
	l.Dest, sh = KAC(r, rm.DestSigTypes, rm.IdentCryptoTypes)
	l.Published = published(r)
	l.Expires = expires16(r)
	off := r.Chance(3, 10)
	st := sh["sig"].(int)
	if off {
		o := Offline(r, st)
		l.Offline = &o
		st = int(o.SigType)
		sh["transient"] = st
	}
	l.Flags = flags(r, off, 0x6)
	l.Options = SmallMapping(r)
	nk := 1 + r.Pick(3)
	if r.Chance(1, 10) {
		nk = 1 + r.Pick(16)
	}
	for i := 0; i < nk; i++ {
		l.Keys = append(l.Keys, EncKey(r))
	}
	nl := count16(r)
	for i := 0; i < nl; i++ {
		l.Leases = append(l.Leases, Lease2(r))
	}
	sl, _ := rm.SigLen(st)
	l.Sig = r.Bytes(sl)
	sh["offline"] = off
	sh["keys"] = nk
	sh["leases"] = nl
	sh["opts"] = len(l.Options.Pairs)
	sh["flags"] = int(l.Flags)
	return l, sh
}

func MetaLeaseSet(r *core.Rand) (rm.MetaLeaseSet, Shape) {
	var l rm.MetaLeaseSet
	var sh Shape
	l.Dest, sh = KAC(r, rm.DestSigTypes, rm.IdentCryptoTypes)
	l.Published = published(r)
	l.Expires = expires16(r)
	off := r.Chance(3, 10)
	st := sh["sig"].(int)
	if off {
		o := Offline(r, st)
		l.Offline = &o
		st = int(o.SigType)
		sh["transient"] = st
	}
	l.Flags = flags(r, off, 0x2)
	if r.Chance(1, 2) {
		l.Options = rm.Mapping{Pairs: []rm.Pair{}}
	} else {
		l.Options = SmallMapping(r)
	}
	ne := 1 + r.Pick(3)
	if r.Chance(1, 10) {
		ne = 1 + r.Pick(16)
	}
	props := 0
	for i := 0; i < ne; i++ {
		var e rm.MetaEntry
		copy(e.Hash[:], r.Bytes(32))
		e.Type = []byte{1, 3, 5}[r.Pick(3)]
		e.Expires = published(r)
		e.Cost = byte(r.Pick(256))
		if r.Chance(1, 3) {
			e.Props = SmallMapping(r)
		} else {
			e.Props = rm.Mapping{Pairs: []rm.Pair{}}
		}
		props += len(e.Props.Pairs)
		l.Entries = append(l.Entries, e)
	}
	sl, _ := rm.SigLen(st)
	l.Sig = r.Bytes(sl)
	sh["offline"] = off
	sh["entries"] = ne
	sh["opts"] = len(l.Options.Pairs)
	sh["props"] = props
	return l, sh
}

var elsSigTypes = []int{7, 7, 7, 11, 11, 11, 0, 0, 1, 1, 2, 2, 8, 8, 3, 4, 5, 6}

func EncryptedLeaseSet(r *core.Rand) (rm.EncryptedLeaseSet, Shape) {
	var l rm.EncryptedLeaseSet
	st := elsSigTypes[r.Pick(len(elsSigTypes))]
	l.SigType = uint16(st)
	kl, _ := rm.SigPubLen(st)
	l.BlindedKey = r.Bytes(kl)
	l.Published = published(r)
	l.Expires = expires16(r)
	if l.Expires == 0 {
		l.Expires = 1 + uint16(r.Pick(600))
	}
	off := r.Chance(3, 10)
	use := st
	if off {
		o := Offline(r, st)
		l.Offline = &o
		use = int(o.SigType)
	}
	l.Flags = 0
	if off {
		l.Flags |= 1
	}
	if r.Chance(1, 3) {
		l.Flags |= 2
	}
	n := 61 + r.Pick(200)
	if r.Chance(1, 10) {
		n = 61
	}
	l.Inner = r.Bytes(n)
	sl, _ := rm.SigLen(use)
	l.Sig = r.Bytes(sl)
	return l, Shape{"sig": st, "offline": off, "transient": use, "inner": n}
}

// ---------------------------------------------------------------- kind dispatch

// Case is a generated encoding with its description.
type Case struct {
	Bytes []byte
	Shape Shape
	Ctrl  []int // offsets of length / count / type / flag fields
}

func kacCtrl(base int) []int {
	return []int{base + 384, base + 385, base + 386, base + 387, base + 388, base + 389, base + 390}
}

func mappingCtrl(base int, m rm.Mapping) []int {
	c := []int{base, base + 1}
	off := base + 2
	for i, p := range m.Pairs {
		if i > 8 {
			break
		}
		c = append(c, off, off+1+len(p.K), off+1+len(p.K)+1, off+1+len(p.K)+1+1+len(p.V))
		off += 4 + len(p.K) + len(p.V)
	}
	return c
}

// WellFormed generates a well-formed encoding for a parser kind.
func WellFormed(kind string, arg int, r *core.Rand) Case {
	switch kind {
	case "string":
		n := r.Pick(256)
		if r.Chance(1, 2) {
			n = r.Pick(12)
		}
		return Case{Bytes: append([]byte{byte(n)}, r.Bytes(n)...), Shape: Shape{"len": n}, Ctrl: []int{0}}
	case "date":
		return Case{Bytes: r.Bytes(8), Shape: Shape{}}
	case "hash", "fixed32":
		return Case{Bytes: r.Bytes(32), Shape: Shape{}}
	case "fixed8":
		return Case{Bytes: r.Bytes(8), Shape: Shape{}}
	case "integer":
		return Case{Bytes: r.Bytes(arg), Shape: Shape{"size": arg}}
	case "intbytes":
		return Case{Bytes: r.Bytes(1 + r.Pick(8)), Shape: Shape{}}
	case "mapping":
		m := Mapping(r, 40)
		return Case{Bytes: m.Encode(), Shape: Shape{"pairs": len(m.Pairs), "sorted": m.Sorted()}, Ctrl: mappingCtrl(0, m)}
	case "cert":
		c := Cert(r)
		return Case{Bytes: c.Encode(), Shape: Shape{"type": int(c.Type), "plen": len(c.Payload)}, Ctrl: []int{0, 1, 2}}
	case "keycert":
		sig := rm.KACSigTypes[r.Pick(len(rm.KACSigTypes))]
		cr := rm.KACCryptoTypes[r.Pick(len(rm.KACCryptoTypes))]
		if r.Chance(1, 5) {
			sig, cr = r.Pick(65536), r.Pick(65536)
		}
		c := KeyCert(r, sig, cr)
		return Case{Bytes: c.Encode(), Shape: Shape{"sig": sig, "crypto": cr, "plen": len(c.Payload)}, Ctrl: []int{0, 1, 2, 3, 4, 5, 6}}
	case "kac":
		k, sh := KAC(r, rm.KACSigTypes, rm.KACCryptoTypes)
		return Case{Bytes: k.Encode(), Shape: sh, Ctrl: kacCtrl(0)}
	case "kac_elg_ed":
		k, sh := KACOf(r, 7, 0)
		return Case{Bytes: k.Encode(), Shape: sh, Ctrl: kacCtrl(0)}
	case "kac_x_ed":
		k, sh := KACOf(r, 7, 4)
		return Case{Bytes: k.Encode(), Shape: sh, Ctrl: kacCtrl(0)}
	case "dest", "dest_ls":
		k, sh := KAC(r, rm.DestSigTypes, rm.IdentCryptoTypes)
		return Case{Bytes: k.Encode(), Shape: sh, Ctrl: kacCtrl(0)}
	case "rident":
		k, sh := KAC(r, rm.RouterSigTypes, rm.IdentCryptoTypes)
		return Case{Bytes: k.Encode(), Shape: sh, Ctrl: kacCtrl(0)}
	case "lease":
		return Case{Bytes: Lease(r).Encode(), Shape: Shape{}}
	case "lease2":
		return Case{Bytes: Lease2(r).Encode(), Shape: Shape{}}
	case "sig":
		n, ok := rm.SigLen(arg)
		if !ok {
			n = 64
		}
		return Case{Bytes: r.Bytes(n), Shape: Shape{"sigtype": arg}}
	case "offline":
		o := Offline(r, arg)
		return Case{Bytes: o.Encode(), Shape: Shape{"dest_sig": arg, "transient": int(o.SigType)}, Ctrl: []int{4, 5}}
	case "raddr":
		a := RouterAddress(r)
		b := a.Encode()
		return Case{Bytes: b, Shape: Shape{"opts": len(a.Options.Pairs), "style": len(a.Style)}, Ctrl: append([]int{9}, mappingCtrl(10+len(a.Style), a.Options)...)}
	case "rinfo":
		ri, sh := RouterInfo(r)
		b := ri.Encode()
		n0 := len(ri.Ident.Encode())
		ctrl := append(kacCtrl(0), n0+8)
		off := n0 + 9
		for i, a := range ri.Addrs {
			if i < 3 {
				ctrl = append(ctrl, off+9)
				ctrl = append(ctrl, mappingCtrl(off+10+len(a.Style), a.Options)...)
			}
			off += len(a.Encode())
		}
		ctrl = append(ctrl, off)
		ctrl = append(ctrl, mappingCtrl(off+1, ri.Options)...)
		return Case{Bytes: b, Shape: sh, Ctrl: ctrl}
	case "leaseset":
		l, sh := LeaseSet(r)
		n0 := len(l.Dest.Encode())
		return Case{Bytes: l.Encode(), Shape: sh, Ctrl: append(kacCtrl(0), n0+256+len(l.SigningKey))}
	case "leaseset2":
		l, sh := LeaseSet2(r)
		return Case{Bytes: l.Encode(), Shape: sh, Ctrl: ls2Ctrl(l)}
	case "metaleaseset":
		l, sh := MetaLeaseSet(r)
		n0 := len(l.Dest.Encode())
		ctrl := append(kacCtrl(0), n0+4, n0+5, n0+6, n0+7)
		off := n0 + 8
		if l.Offline != nil {
			ctrl = append(ctrl, off+4, off+5)
			off += len(l.Offline.Encode())
		}
		ctrl = append(ctrl, mappingCtrl(off, l.Options)...)
		off += len(l.Options.Encode())
		ctrl = append(ctrl, off)
		off++
		for i, e := range l.Entries {
			if i < 3 {
				ctrl = append(ctrl, off+32, off+38, off+39)
			}
			off += len(e.Encode())
		}
		return Case{Bytes: l.Encode(), Shape: sh, Ctrl: ctrl}
	case "encleaseset":
		l, sh := EncryptedLeaseSet(r)
		off := 2 + len(l.BlindedKey)
		ctrl := []int{0, 1, off + 4, off + 5, off + 6, off + 7}
		off += 8
		if l.Offline != nil {
			ctrl = append(ctrl, off+4, off+5)
			off += len(l.Offline.Encode())
		}
		ctrl = append(ctrl, off, off+1)
		return Case{Bytes: l.Encode(), Shape: sh, Ctrl: ctrl}
	}
	panic("gen: unknown kind " + kind)
}

func ls2Ctrl(l rm.LeaseSet2) []int {
	n0 := len(l.Dest.Encode())
	ctrl := append(kacCtrl(0), n0+4, n0+5, n0+6, n0+7)
	off := n0 + 8
	if l.Offline != nil {
		ctrl = append(ctrl, off+4, off+5)
		off += len(l.Offline.Encode())
	}
	ctrl = append(ctrl, mappingCtrl(off, l.Options)...)
	off += len(l.Options.Encode())
	ctrl = append(ctrl, off)
	off++
	for i, k := range l.Keys {
		if i < 4 {
			ctrl = append(ctrl, off, off+1, off+2, off+3)
		}
		off += 4 + len(k.Data)
	}
	ctrl = append(ctrl, off)
	return ctrl
}

// ---------------------------------------------------------------- mutators

var boundaryBytes = []byte{0, 1, 2, 3, 4, 5, 6, 7, 8, 11, 15, 16, 17, 0x7f, 0x80, 0xfe, 0xff}

// Mutate applies one structure-aware mutation and names it.
func Mutate(r *core.Rand, c Case, other []byte) ([]byte, string) {
	b := append([]byte(nil), c.Bytes...)
	if len(b) == 0 {
		return r.Bytes(1 + r.Pick(8)), "random"
	}
	switch r.Pick(13) {
	case 12: // a whole key-sized field := an extreme value (all zero, one, all ones, top bit only)
		// aligned with the 384-byte key block at the start of every identity-carrying structure
		// (ElGamal / X25519 slot, DSA / ECDSA / Ed25519 slots), else anywhere
		regions := [][2]int{{0, 256}, {0, 32}, {256, 384}, {352, 384}, {320, 384}, {288, 384}}
		rg := regions[r.Pick(len(regions))]
		if len(b) < 384 || r.Chance(1, 5) {
			n := []int{16, 20, 32, 40, 64, 96, 128, 256}[r.Pick(8)]
			if n > len(b) {
				n = len(b)
			}
			st := r.Pick(len(b) - n + 1)
			rg = [2]int{st, st + n}
		}
		pat := r.Pick(5)
		for i := rg[0]; i < rg[1]; i++ {
			switch pat {
			case 0, 1:
				b[i] = 0
			case 2, 3:
				b[i] = 0xff
			default:
				b[i] = 0
			}
		}
		switch pat {
		case 1:
			b[rg[1]-1] = 1
		case 3:
			b[rg[1]-1] = 0xfe
		case 4:
			b[rg[0]] = 0x80
		}
		return b, "key-field-extreme"
	case 0, 1, 2: // control field := boundary value
		if len(c.Ctrl) > 0 {
			p := c.Ctrl[r.Pick(len(c.Ctrl))]
			if p < len(b) {
				b[p] = boundaryBytes[r.Pick(len(boundaryBytes))]
				if r.Chance(1, 4) {
					b[p] = byte(r.Pick(256)) // any value, not only the boundary ones
				}
				return b, "ctrl-boundary"
			}
		}
		fallthrough
	case 3: // control field +-1
		if len(c.Ctrl) > 0 {
			p := c.Ctrl[r.Pick(len(c.Ctrl))]
			if p < len(b) {
				if r.Chance(1, 2) {
					b[p]++
				} else {
					b[p]--
				}
				return b, "ctrl-pm1"
			}
		}
		fallthrough
	case 4: // bit flip anywhere
		p := r.Pick(len(b))
		b[p] ^= 1 << r.Pick(8)
		return b, "bitflip"
	case 5: // truncate
		return b[:r.Pick(len(b))], "truncate"
	case 6: // extend
		return append(b, r.Bytes(1+r.Pick(64))...), "extend"
	case 7: // insert bytes
		p := r.Pick(len(b) + 1)
		ins := r.Bytes(1 + r.Pick(6))
		out := append(append(append([]byte{}, b[:p]...), ins...), b[p:]...)
		return out, "insert"
	case 8: // delete bytes
		p := r.Pick(len(b))
		n := 1 + r.Pick(6)
		if p+n > len(b) {
			n = len(b) - p
		}
		return append(b[:p:p], b[p+n:]...), "delete"
	case 9: // splice with another encoding
		if len(other) > 0 {
			p := r.Pick(len(b))
			q := r.Pick(len(other))
			return append(b[:p:p], other[q:]...), "splice"
		}
		fallthrough
	case 10: // 16-bit field := boundary
		if len(b) >= 2 {
			p := r.Pick(len(b) - 1)
			if len(c.Ctrl) > 0 && r.Chance(2, 3) {
				p = c.Ctrl[r.Pick(len(c.Ctrl))]
				if p >= len(b)-1 {
					p = len(b) - 2
				}
			}
			v := []uint16{0, 1, 0x00ff, 0x0100, 0x7fff, 0x8000, 0xfffe, 0xffff, uint16(len(b)), uint16(len(b) - p)}[r.Pick(10)]
			binary.BigEndian.PutUint16(b[p:], v)
			return b, "u16-boundary"
		}
		fallthrough
	default: // overwrite a run with random bytes
		p := r.Pick(len(b))
		n := 1 + r.Pick(8)
		for i := p; i < p+n && i < len(b); i++ {
			b[i] = byte(r.Pick(256))
		}
		return b, "overwrite"
	}
}

// MappingWithJunk builds a mapping whose declared extent holds well-formed pairs followed by
// junk bytes (or a final short pair), the shape the library historically mishandles.
func MappingWithJunk(r *core.Rand) ([]byte, Shape) {
	m := Mapping(r, 4)
	body := m.Body()
	junk := r.Bytes(1 + r.Pick(7))
	body = append(body, junk...)
	out := append([]byte{byte(len(body) >> 8), byte(len(body))}, body...)
	return out, Shape{"pairs": len(m.Pairs), "junk": len(junk)}
}

// ---------------------------------------------------------------- lattice corners

// CornerModels returns extreme-but-legal model values (maximal counts, longest strings,
// largest keys) keyed by structure kind; encodings of these are fed to every parser sweep.
type Corner struct {
	Kind  string
	Name  string
	Model any
	Bytes []byte
}

func bigMapping(r *core.Rand, pairs int, keyLen, valLen int) rm.Mapping {
	var m rm.Mapping
	for i := 0; i < pairs; i++ {
		k := append([]byte(fmt.Sprintf("%04d", i)), r.Bytes(keyLen-4)...)
		m.Pairs = append(m.Pairs, rm.Pair{K: k, V: r.Bytes(valLen)})
	}
	return m
}

func Corners(r *core.Rand) []Corner {
	var out []Corner
	add := func(kind, name string, model any, b []byte) { out = append(out, Corner{kind, name, model, b}) }

	// mappings
	m1 := bigMapping(r, 127, 255, 255) // 127*(4+510) = 65278 bytes
	add("mapping", "127 pairs of 255-byte strings", m1, m1.Encode())
	m2 := bigMapping(r, 1000, 4, 0)
	add("mapping", "1000 minimal pairs", m2, m2.Encode())
	m3 := rm.Mapping{Pairs: []rm.Pair{{K: []byte{}, V: []byte{}}}}
	add("mapping", "single empty key and value", m3, m3.Encode())

	// router address / info
	a := RouterAddress(r)
	a.Style = r.Bytes(255)
	a.Options = bigMapping(r, 60, 255, 255)
	add("raddr", "255-byte style, 60 maximal pairs", a, a.Encode())
	ri, _ := RouterInfo(r)
	ri.Addrs = nil
	for i := 0; i < 255; i++ {
		x := RouterAddress(r)
		x.Options = rm.Mapping{Pairs: []rm.Pair{{K: []byte("host"), V: []byte(fmt.Sprintf("10.0.%d.%d", i/256, i%256))}}}
		ri.Addrs = append(ri.Addrs, x)
	}
	add("rinfo", "255 addresses", ri, ri.Encode())
	ri0, _ := RouterInfo(r)
	ri0.Addrs = nil
	ri0.Options = bigMapping(r, 100, 200, 200)
	add("rinfo", "no address, 100 large options", ri0, ri0.Encode())

	// leasesets
	ls, _ := LeaseSet(r)
	ls.Leases = nil
	for i := 0; i < 16; i++ {
		ls.Leases = append(ls.Leases, Lease(r))
	}
	add("leaseset", "16 leases", ls, ls.Encode())
	for _, tt := range []int{6, 5, 3, 0} {
		l2, sh := LeaseSet2(r)
		st := sh["sig"].(int)
		o := OfflineOf(r, st, tt)
		l2.Offline, l2.Flags = &o, 1
		l2.Keys, l2.Leases = nil, nil
		for i := 0; i < 16; i++ {
			t := []int{0, 4, 5, 6, 7, 1, 2, 3}[i%8]
			n, _ := rm.CryptoLen(t)
			l2.Keys = append(l2.Keys, rm.EncKey{Type: uint16(t), Data: r.Bytes(n)})
			l2.Leases = append(l2.Leases, Lease2(r))
		}
		l2.Options = bigMapping(r, 40, 100, 100)
		sl, _ := rm.SigLen(tt)
		l2.Sig = r.Bytes(sl)
		add("leaseset2", fmt.Sprintf("16 keys, 16 leases, 40 options, offline transient type %d", tt), l2, l2.Encode())
	}
	ml, _ := MetaLeaseSet(r)
	ml.Entries = nil
	for i := 0; i < 16; i++ {
		var e rm.MetaEntry
		copy(e.Hash[:], r.Bytes(32))
		e.Type = []byte{1, 3, 5}[i%3]
		e.Expires, e.Cost = r.Uint32(), byte(i)
		e.Props = bigMapping(r, 3, 50, 50)
		ml.Entries = append(ml.Entries, e)
	}
	add("metaleaseset", "16 entries with properties", ml, ml.Encode())
	el, _ := EncryptedLeaseSet(r)
	el.Inner = r.Bytes(65535)
	add("encleaseset", "65,535 bytes of inner data", el, el.Encode())

	// certificates / identities
	c := rm.Cert{Type: rm.CertHashcash, Payload: r.Bytes(65535)}
	add("cert", "65,535-byte payload", c, c.Encode())
	k, _ := KACOf(r, 7, 4)
	k.Cert = rm.KeyCert(7, 4, r.Bytes(4000))
	add("kac", "key certificate with 4000 excess bytes", k, k.Encode())
	add("dest", "key certificate with 4000 excess bytes", k, k.Encode())
	add("rident", "key certificate with 4000 excess bytes", k, k.Encode())

	// length and count fields at the values where their two bytes are special together, or where a
	// byte-wide computation wraps: 0x00FF, 0x0100, 0x0101, 0x01FF, 0x0200, 0x7FFF, 0x8000, 0xFF00, 0xFFFE
	for _, n := range []int{255, 256, 257, 511, 512, 0x7fff, 0x8000, 0xff00, 0xfffe} {
		cn := rm.Cert{Type: rm.CertHashcash, Payload: r.Bytes(n)}
		add("cert", fmt.Sprintf("%d-byte payload", n), cn, cn.Encode())
		if n >= 61 {
			e2, _ := EncryptedLeaseSet(r)
			e2.Inner = r.Bytes(n)
			add("encleaseset", fmt.Sprintf("%d bytes of inner data", n), e2, e2.Encode())
		}
		if n <= 0x8000 {
			kk, _ := KACOf(r, []int{7, 1, 2, 0, 11}[n%5], []int{4, 0}[n%2])
			kk.Cert.Payload = append(append([]byte{}, kk.Cert.Payload[:4]...), r.Bytes(n-4)...)
			add("kac", fmt.Sprintf("key certificate payload of %d bytes", n), kk, kk.Encode())
			add("dest", fmt.Sprintf("key certificate payload of %d bytes", n), kk, kk.Encode())
		}
	}
	for _, n := range []int{128, 254} {
		rn, _ := RouterInfo(r)
		rn.Addrs = nil
		for i := 0; i < n; i++ {
			ra := RouterAddress(r)
			ra.Options = SmallMapping(r)
			rn.Addrs = append(rn.Addrs, ra)
		}
		add("rinfo", fmt.Sprintf("%d addresses", n), rn, rn.Encode())
	}
	// dates and tunnel ids with the top bit set, all ones, all zero
	for _, v := range []uint64{1 << 63, 1<<64 - 1, 0, 1<<63 - 1} {
		lv := Lease(r)
		lv.EndMs, lv.TunnelID = v, uint32(v>>32)
		add("lease", fmt.Sprintf("end date %#x", v), lv, lv.Encode())
		l2v := Lease2(r)
		l2v.EndS, l2v.TunnelID = uint32(v>>32), uint32(v)
		add("lease2", fmt.Sprintf("end date %#x", uint32(v>>32)), l2v, l2v.Encode())
		lsv, _ := LeaseSet(r)
		for len(lsv.Leases) < 3 {
			lsv.Leases = append(lsv.Leases, Lease(r))
		}
		lsv.Leases[len(lsv.Leases)-1].EndMs = v
		lsv.Leases[0].EndMs = v ^ 1
		add("leaseset", fmt.Sprintf("first and last lease end dates around %#x", v), lsv, lsv.Encode())
		rv, _ := RouterInfo(r)
		rv.Published = v
		add("rinfo", fmt.Sprintf("published %#x", v), rv, rv.Encode())
	}
	return out
}

// SizeLadder: lengths of the variable part of a structure between the few hundred bytes the
// ordinary generators produce and the 65,535 maximum - powers of two and their neighbours, where
// code that treats "large" inputs differently (pooled or chunked buffers, copy-or-alias
// thresholds, two-byte length arithmetic) changes path.
var SizeLadder = []int{255, 256, 257, 511, 512, 513, 1023, 1024, 1025, 2047, 2048, 2049, 4095, 4096, 4097, 8191, 8192, 8193, 16383, 16384, 16385, 32767, 32768, 32769, 49152, 65534, 65535}

// Sized returns a well-formed encoding of the kind whose variable-length part (certificate
// payload, excess key-certificate payload, options / properties mapping, encrypted inner data)
// has a size from the ladder. ok is false for kinds without such a part.
func Sized(kind string, arg int, r *core.Rand) (Case, bool) {
	n := SizeLadder[r.Pick(len(SizeLadder))]
	fit := func(fixed int) int { // the part must fit a two-byte length together with `fixed` other bytes
		if n+fixed > 65535 {
			return 65535 - fixed
		}
		return n
	}
	switch kind {
	case "cert":
		t := []byte{rm.CertHashcash, rm.CertHidden, rm.CertSigned, rm.CertMultiple, byte(6 + r.Pick(200))}[r.Pick(5)]
		c := rm.Cert{Type: t, Payload: r.Bytes(n)}
		return Case{Bytes: c.Encode(), Shape: Shape{"type": int(t), "plen": n, "sized": n}, Ctrl: []int{0, 1, 2}}, true
	case "keycert":
		sig := rm.KACSigTypes[r.Pick(len(rm.KACSigTypes))]
		cr := rm.KACCryptoTypes[r.Pick(len(rm.KACCryptoTypes))]
		c := rm.KeyCert(sig, cr, r.Bytes(fit(4)))
		return Case{Bytes: c.Encode(), Shape: Shape{"sig": sig, "crypto": cr, "plen": len(c.Payload), "sized": n}, Ctrl: []int{0, 1, 2, 3, 4, 5, 6}}, true
	case "kac", "dest", "dest_ls", "rident", "kac_elg_ed", "kac_x_ed":
		var k rm.KAC
		var sh Shape
		switch kind {
		case "kac":
			k, sh = KAC(r, rm.KACSigTypes, rm.KACCryptoTypes)
		case "dest", "dest_ls":
			k, sh = KAC(r, rm.DestSigTypes, rm.IdentCryptoTypes)
		case "rident":
			k, sh = KAC(r, rm.RouterSigTypes, rm.IdentCryptoTypes)
		case "kac_elg_ed":
			k, sh = KACOf(r, 7, 0)
		default:
			k, sh = KACOf(r, 7, 4)
		}
		s, c, isKey, ok := k.Cert.KeyTypes()
		if !isKey || !ok {
			s, c = sh["sig"].(int), sh["crypto"].(int)
			if s != 0 || c != 0 {
				return Case{}, false
			}
		}
		k.Cert = rm.KeyCert(s, c, r.Bytes(fit(4)))
		sh["cert"], sh["sized"] = "KEY+extra", n
		return Case{Bytes: k.Encode(), Shape: sh, Ctrl: kacCtrl(0)}, true
	case "mapping":
		m := mappingOfSize(r, n)
		return Case{Bytes: m.Encode(), Shape: Shape{"pairs": len(m.Pairs), "sorted": m.Sorted(), "sized": n}, Ctrl: mappingCtrl(0, m)}, true
	case "raddr":
		a := RouterAddress(r)
		a.Options = mappingOfSize(r, n)
		return Case{Bytes: a.Encode(), Shape: Shape{"opts": len(a.Options.Pairs), "sized": n}}, true
	case "rinfo":
		ri, sh := RouterInfo(r)
		if r.Chance(1, 2) || len(ri.Addrs) == 0 {
			ri.Options = mappingOfSize(r, n)
		} else {
			ri.Addrs[r.Pick(len(ri.Addrs))].Options = mappingOfSize(r, n)
		}
		sh["sized"] = n
		return Case{Bytes: ri.Encode(), Shape: sh}, true
	case "leaseset2":
		l, sh := LeaseSet2(r)
		if r.Chance(1, 3) {
			// a key of a type the library does not know, as long as the two-byte key length allows
			l.Keys = append([]rm.EncKey{}, l.Keys...)
			k := r.Pick(len(l.Keys) + 1)
			long := rm.EncKey{Type: []uint16{8, 255, 65280, 65534, 65535}[r.Pick(5)], Data: r.Bytes(n)}
			if k == len(l.Keys) && len(l.Keys) < 16 {
				l.Keys = append(l.Keys, long)
			} else {
				l.Keys[k%len(l.Keys)] = long
			}
			sh["keys"] = len(l.Keys)
			sh["long_key"] = n
		} else {
			l.Options = mappingOfSize(r, n)
		}
		sh["sized"] = n
		return Case{Bytes: l.Encode(), Shape: sh}, true
	case "metaleaseset":
		l, sh := MetaLeaseSet(r)
		if r.Chance(1, 2) || len(l.Entries) == 0 {
			l.Options = mappingOfSize(r, n)
		} else {
			l.Entries = append([]rm.MetaEntry{}, l.Entries...)
			l.Entries[r.Pick(len(l.Entries))].Props = mappingOfSize(r, n)
		}
		sh["sized"] = n
		return Case{Bytes: l.Encode(), Shape: sh}, true
	case "encleaseset":
		l, sh := EncryptedLeaseSet(r)
		l.Inner = r.Bytes(n)
		sh["inner"], sh["sized"] = n, n
		return Case{Bytes: l.Encode(), Shape: sh}, true
	}
	return Case{}, false
}
