package lib

import (
	"encoding/hex"
	"fmt"
	"reflect"
	"runtime/debug"
	"sort"
	"strings"
)

const libPrefix = "github.com/go-i2p/common"

// Obs is the rendered result of one accessor call.
type Obs struct {
	Name      string // Type.Method (with path for nested values)
	Result    string // deterministic deep rendering of the results
	Panicked  bool
	Panic     string
	PanicAddr uintptr // faulting address when the panic was a memory fault (debug.SetPanicOnFault)
	Stack     string
	TimeDep   bool // result depends on the wall clock: called, but not compared
	Verify    bool // method is a verification predicate
	VerifyOK  bool // ... and it reported success
}

// Methods whose result legitimately depends on the wall clock.
var timeDependent = map[string]bool{
	"IsExpired": true,
}
var timeDependentByType = map[string]map[string]bool{
	"Lease":            {"Validate": true},
	"Lease2":           {"Validate": true},
	"OfflineSignature": {"Validate": true, "IsValid": true, "String": true},
}

// Methods never invoked by the sweep: they mutate, allocate keys from crypto/rand or are
// not argument-free accessors in spirit.
var skipMethods = map[string]bool{
	"Generate": true, // key generation on embedded public-key types
	"Zero":     true,
}

// mutators: one-argument methods that change the receiver; never invoked by the sweep.
var mutators = map[string]bool{"SetBytes": true, "AddAddress": true, "Add": true, "WithPayload": true, "WithType": true}

type poolArg struct {
	label string
	v     reflect.Value
}

// argPool returns boundary arguments for a parameter type (nil for unsupported types).
func argPool(pt reflect.Type, recv reflect.Value) []poolArg {
	var out []poolArg
	switch pt.Kind() {
	case reflect.Int, reflect.Int64, reflect.Int32:
		for _, x := range []int64{-1, 0, 1, 2, 3, 15, 16, 17, 255, 1 << 31} {
			v := reflect.New(pt).Elem()
			v.SetInt(x)
			out = append(out, poolArg{fmt.Sprint(x), v})
		}
	case reflect.Uint8, reflect.Uint16, reflect.Uint32:
		for _, x := range []uint64{0, 1, 3, 5, 7, 255} {
			v := reflect.New(pt).Elem()
			v.SetUint(x)
			out = append(out, poolArg{fmt.Sprint(x), v})
		}
	case reflect.String:
		for _, x := range []string{"", "host", "caps", "port", "\x00", "s"} {
			v := reflect.New(pt).Elem()
			v.SetString(x)
			out = append(out, poolArg{fmt.Sprintf("%q", x), v})
		}
	case reflect.Slice:
		if pt.Elem().Kind() == reflect.Uint8 {
			for _, x := range [][]byte{nil, {}, {4, 'h', 'o', 's', 't'}, {4, 'c', 'a', 'p', 's'}, {9, 'x'}, {0}, make([]byte, 32), make([]byte, 31)} {
				v := reflect.New(pt).Elem()
				if x != nil {
					v.SetBytes(append([]byte{}, x...))
				}
				out = append(out, poolArg{fmt.Sprintf("%x", x), v})
			}
		}
	case reflect.Ptr:
		out = append(out, poolArg{"nil", reflect.Zero(pt)})
		if recv.Type() == pt {
			out = append(out, poolArg{"self", recv})
		} else if recv.Kind() == reflect.Ptr && recv.Type().Elem() == pt.Elem() {
			out = append(out, poolArg{"self", recv})
		}
	case reflect.Struct, reflect.Array:
		if recv.Kind() == reflect.Ptr && recv.Type().Elem() == pt && !recv.IsNil() {
			out = append(out, poolArg{"self", recv.Elem()})
			out = append(out, poolArg{"zero", reflect.Zero(pt)})
		}
	}
	return out
}

func isLibType(t reflect.Type) bool {
	for t.Kind() == reflect.Ptr || t.Kind() == reflect.Slice || t.Kind() == reflect.Array {
		t = t.Elem()
	}
	return strings.HasPrefix(t.PkgPath(), libPrefix)
}

func baseName(t reflect.Type) string {
	for t.Kind() == reflect.Ptr {
		t = t.Elem()
	}
	return t.Name()
}

// Render renders any value deterministically and deeply (pointers followed, byte slices
// as hex, unexported fields included, maps sorted). It calls no methods.
func Render(v any) string {
	var sb strings.Builder
	render(&sb, reflect.ValueOf(v), 0, false)
	return sb.String()
}

// RenderCaps is Render plus slice capacities (used for the C18 mutation snapshot).
func RenderCaps(v any) string {
	var sb strings.Builder
	render(&sb, reflect.ValueOf(v), 0, true)
	return sb.String()
}

func render(sb *strings.Builder, v reflect.Value, depth int, caps bool) {
	if depth > 12 {
		sb.WriteString("<deep>")
		return
	}
	if !v.IsValid() {
		sb.WriteString("<nil>")
		return
	}
	switch v.Kind() {
	case reflect.Ptr, reflect.Interface:
		if v.IsNil() {
			sb.WriteString("nil")
			return
		}
		if v.Kind() == reflect.Interface {
			e := v.Elem()
			// errors render as their message only
			if e.CanInterface() {
				if err, ok := e.Interface().(error); ok {
					sb.WriteString("error(" + firstLine(err.Error()) + ")")
					return
				}
			} else if e.Type().Implements(errType) {
				sb.WriteString("error(?)")
				return
			}
			sb.WriteString(e.Type().String() + ":")
			render(sb, e, depth+1, caps)
			return
		}
		if v.Type().Implements(errType) && v.CanInterface() {
			sb.WriteString("error(" + firstLine(v.Interface().(error).Error()) + ")")
			return
		}
		sb.WriteString("&")
		render(sb, v.Elem(), depth+1, caps)
	case reflect.Slice:
		if v.IsNil() {
			sb.WriteString("nil[]")
			return
		}
		if caps {
			fmt.Fprintf(sb, "cap%d", v.Cap())
		}
		fallthrough
	case reflect.Array:
		if v.Type().Elem().Kind() == reflect.Uint8 {
			b := make([]byte, v.Len())
			for i := range b {
				b[i] = byte(v.Index(i).Uint())
			}
			sb.WriteString("x'" + hex.EncodeToString(b) + "'")
			return
		}
		sb.WriteString("[")
		for i := 0; i < v.Len(); i++ {
			if i > 0 {
				sb.WriteString(",")
			}
			render(sb, v.Index(i), depth+1, caps)
		}
		sb.WriteString("]")
	case reflect.Struct:
		if v.Type().String() == "time.Time" && v.CanInterface() {
			sb.WriteString(fmt.Sprintf("time(%v)", v.Interface()))
			return
		}
		if v.Type().String() == "time.Time" {
			sb.WriteString("time(?)")
			return
		}
		sb.WriteString(v.Type().Name() + "{")
		for i := 0; i < v.NumField(); i++ {
			if i > 0 {
				sb.WriteString(",")
			}
			sb.WriteString(v.Type().Field(i).Name + ":")
			render(sb, v.Field(i), depth+1, caps)
		}
		sb.WriteString("}")
	case reflect.Map:
		if v.IsNil() {
			sb.WriteString("nilmap")
			return
		}
		keys := v.MapKeys()
		strs := make([]string, len(keys))
		for i, k := range keys {
			var kb, vb strings.Builder
			render(&kb, k, depth+1, caps)
			render(&vb, v.MapIndex(k), depth+1, caps)
			strs[i] = kb.String() + "=>" + vb.String()
		}
		sort.Strings(strs)
		sb.WriteString("map{" + strings.Join(strs, ",") + "}")
	case reflect.String:
		s := v.String()
		sb.WriteString("s'" + hex.EncodeToString([]byte(s)) + "'")
	case reflect.Bool:
		fmt.Fprintf(sb, "%v", v.Bool())
	case reflect.Int, reflect.Int8, reflect.Int16, reflect.Int32, reflect.Int64:
		fmt.Fprintf(sb, "%d", v.Int())
	case reflect.Uint, reflect.Uint8, reflect.Uint16, reflect.Uint32, reflect.Uint64, reflect.Uintptr:
		fmt.Fprintf(sb, "%d", v.Uint())
	case reflect.Func, reflect.Chan, reflect.UnsafePointer:
		sb.WriteString("<" + v.Kind().String() + ">")
	default:
		fmt.Fprintf(sb, "%v", v)
	}
}

var errType = reflect.TypeOf((*error)(nil)).Elem()

func firstLine(s string) string {
	if i := strings.IndexByte(s, '\n'); i >= 0 {
		s = s[:i]
	}
	if len(s) > 160 {
		s = s[:160]
	}
	return s
}

// ObserveOpts controls the sweep.
type ObserveOpts struct {
	Depth int // how many levels of library-typed results to sweep as well (0 = only v)
	// WithArgs also invokes exported methods that take exactly one argument of a simple type
	// (int, uint8/16/32, string, I2PString, a pointer or value of the receiver's own type) with a
	// small pool of boundary arguments.
	WithArgs bool
	// Before is called before each method invocation (event discipline); may be nil.
	Before func(name string)
	// UnaryFuncs also calls the exported package-level functions that take exactly one parameter of
	// the value's type (see UnaryFuncSweep), on the value and on every nested value that is swept.
	UnaryFuncs bool
}

// Observe invokes every exported method that takes no argument besides the receiver on v
// (v should be a pointer so both method sets are reachable) and renders the results.
// Panics are recovered per method.
func Observe(v any, opt ObserveOpts) []Obs {
	var out []Obs
	observe(reflect.ValueOf(v), "", opt, opt.Depth, &out)
	return out
}

func observe(rv reflect.Value, path string, opt ObserveOpts, depth int, out *[]Obs) {
	if !rv.IsValid() {
		return
	}
	t := rv.Type()
	tn := baseName(t)
	if opt.UnaryFuncs && rv.CanInterface() {
		for _, o := range UnaryFuncSweep(rv.Interface(), opt.Before) {
			o.Name = path + o.Name
			*out = append(*out, o)
		}
	}
	for i := 0; i < t.NumMethod(); i++ {
		m := t.Method(i)
		if opt.WithArgs && m.Type.NumIn() == 2 && !m.Type.IsVariadic() && !skipMethods[m.Name] && !mutators[m.Name] {
			for _, arg := range argPool(m.Type.In(1), rv) {
				name := fmt.Sprintf("%s%s.%s(%s)", path, tn, m.Name, arg.label)
				o := Obs{Name: name}
				if opt.Before != nil {
					opt.Before(name)
				}
				var results []reflect.Value
				func() {
					defer func() {
						if r := recover(); r != nil {
							o.Panicked, o.Panic, o.Stack = true, fmt.Sprint(r), string(debug.Stack())
						}
					}()
					results = rv.Method(i).Call([]reflect.Value{arg.v})
				}()
				if !o.Panicked {
					var sb strings.Builder
					func() {
						defer func() { recover() }()
						for j, r := range results {
							if j > 0 {
								sb.WriteString(" | ")
							}
							render(&sb, r, 0, false)
						}
					}()
					o.Result = sb.String()
				}
				*out = append(*out, o)
			}
			continue
		}
		if m.Type.NumIn() != 1 || m.Type.IsVariadic() {
			continue
		}
		if skipMethods[m.Name] {
			continue
		}
		name := path + tn + "." + m.Name
		o := Obs{Name: name}
		o.TimeDep = timeDependent[m.Name] || timeDependentByType[tn][m.Name]
		o.Verify = strings.HasPrefix(m.Name, "Verify")
		if opt.Before != nil {
			opt.Before(name)
		}
		var results []reflect.Value
		func() {
			defer func() {
				if r := recover(); r != nil {
					o.Panicked, o.Panic, o.Stack = true, fmt.Sprint(r), string(debug.Stack())
					if a, ok := r.(interface{ Addr() uintptr }); ok {
						o.PanicAddr = a.Addr()
					}
				}
			}()
			results = rv.Method(i).Call(nil)
		}()
		if !o.Panicked {
			var sb strings.Builder
			func() {
				// reading the results can itself fault when they point into memory the caller has
				// protected (guard-page monitor): that is recorded on the observation
				defer func() {
					if r := recover(); r != nil {
						o.Panicked, o.Panic, o.Stack = true, "while reading the result: "+fmt.Sprint(r), string(debug.Stack())
						if a, ok := r.(interface{ Addr() uintptr }); ok {
							o.PanicAddr = a.Addr()
						}
					}
				}()
				for j, r := range results {
					if j > 0 {
						sb.WriteString(" | ")
					}
					render(&sb, r, 0, false)
				}
			}()
			if o.Panicked {
				*out = append(*out, o)
				continue
			}
			o.Result = sb.String()
			if o.Verify {
				o.VerifyOK = verifySucceeded(results)
			}
			if depth > 0 {
				for _, r := range results {
					nestedObserve(r, name+"()/", opt, depth-1, out)
				}
			}
		}
		*out = append(*out, o)
	}
}

// verifySucceeded interprets the results of a Verify*-named method: (bool, error),
// error, or bool.
func verifySucceeded(res []reflect.Value) bool {
	ok := true
	sawSomething := false
	for _, r := range res {
		switch {
		case r.Kind() == reflect.Bool:
			sawSomething = true
			ok = ok && r.Bool()
		case r.Type().Implements(errType) || r.Type() == errType:
			sawSomething = true
			ok = ok && r.IsNil()
		}
	}
	return sawSomething && ok
}

func nestedObserve(r reflect.Value, path string, opt ObserveOpts, depth int, out *[]Obs) {
	if !r.IsValid() || !isLibType(r.Type()) {
		return
	}
	switch r.Kind() {
	case reflect.Ptr:
		if r.IsNil() {
			return
		}
		observe(r, path, opt, depth, out)
	case reflect.Struct, reflect.Array:
		if r.Kind() == reflect.Array && r.Type().Elem().Kind() == reflect.Uint8 && r.Type().NumMethod() == 0 {
			return
		}
		p := reflect.New(r.Type())
		p.Elem().Set(r)
		observe(p, path, opt, depth, out)
	case reflect.Slice:
		if r.Type().Elem().Kind() == reflect.Uint8 {
			if r.Type().NumMethod() > 0 {
				observe(r, path, opt, depth, out)
			}
			return
		}
		n := r.Len()
		if n > 3 {
			n = 3
		}
		for i := 0; i < n; i++ {
			nestedObserve(r.Index(i), fmt.Sprintf("%s[%d]", path, i), opt, depth, out)
		}
	}
}

// Digest joins the comparable part of an observation list.
func Digest(obs []Obs) string {
	var sb strings.Builder
	for _, o := range obs {
		if o.TimeDep {
			continue
		}
		sb.WriteString(o.Name)
		sb.WriteString("=")
		if o.Panicked {
			sb.WriteString("PANIC")
		} else {
			sb.WriteString(o.Result)
		}
		sb.WriteString("\n")
	}
	return sb.String()
}

// Diff returns the names whose rendering differs between two sweeps of the same value.
func Diff(a, b []Obs) []string {
	var out []string
	m := map[string]Obs{}
	for _, o := range a {
		m[o.Name] = o
	}
	for _, o := range b {
		p, ok := m[o.Name]
		if !ok || o.TimeDep {
			continue
		}
		if p.Panicked != o.Panicked || p.Result != o.Result {
			out = append(out, o.Name)
		}
	}
	return out
}

// unaryFuncSkip: package-level functions that are documented to modify their argument.
var unaryFuncSkip = map[string]bool{"data.ValuesToMapping": true}

// UnaryFuncSweep calls every exported package-level function of the library (taken from the census
// of the working tree) that takes exactly one parameter of v's type — by value or by pointer —
// with v, recovering panics: GetCryptoTypeFromCertificate(cert), KeyCertificateFromCertificate(&cert),
// NewDestination(kac), … These are accessors in everything but syntax, and no method sweep sees them.
func UnaryFuncSweep(v any, before func(name string)) []Obs {
	rv := reflect.ValueOf(v)
	if !rv.IsValid() {
		return nil
	}
	var out []Obs
	names := make([]string, 0, len(CensusFuncValues))
	for n := range CensusFuncValues {
		names = append(names, n)
	}
	sort.Strings(names)
	for _, name := range names {
		fn := CensusFuncValues[name]
		ft := fn.Type()
		if ft.NumIn() != 1 || ft.IsVariadic() || unaryFuncSkip[name] {
			continue
		}
		var arg reflect.Value
		switch in := ft.In(0); {
		case in == rv.Type():
			arg = rv
		case rv.Kind() == reflect.Ptr && !rv.IsNil() && in == rv.Type().Elem():
			arg = rv.Elem()
		case rv.Kind() != reflect.Ptr && in.Kind() == reflect.Ptr && in.Elem() == rv.Type():
			p := reflect.New(rv.Type())
			p.Elem().Set(rv)
			arg = p
		default:
			continue
		}
		o := Obs{Name: name + "(" + baseName(rv.Type()) + ")"}
		if before != nil {
			before(o.Name)
		}
		func() {
			defer func() {
				if r := recover(); r != nil {
					o.Panicked, o.Panic, o.Stack = true, fmt.Sprint(r), string(debug.Stack())
				}
			}()
			res := fn.Call([]reflect.Value{arg})
			var sb strings.Builder
			for _, x := range res {
				render(&sb, x, 0, false)
				sb.WriteString(";")
			}
			o.Result = sb.String()
		}()
		out = append(out, o)
	}
	return out
}

// ScribbleExported inverts every byte a caller can reach and write through the PUBLIC surface of
// the value behind ptr: exported struct fields, the elements of slices and arrays found there and
// whatever exported pointers lead to. It returns the number of bytes changed. (What a caller does
// when it edits a value it owns; other values must not notice.)
func ScribbleExported(ptr any) int {
	seen := map[uintptr]bool{}
	n := 0
	var walk func(v reflect.Value, depth int)
	walk = func(v reflect.Value, depth int) {
		if depth > 8 || !v.IsValid() {
			return
		}
		switch v.Kind() {
		case reflect.Ptr:
			if v.IsNil() || seen[v.Pointer()] {
				return
			}
			seen[v.Pointer()] = true
			walk(v.Elem(), depth+1)
		case reflect.Interface:
			if v.IsNil() {
				return
			}
			e := v.Elem()
			if e.Kind() == reflect.Ptr || e.Kind() == reflect.Slice {
				walk(e, depth+1)
			}
		case reflect.Struct:
			t := v.Type()
			for i := 0; i < v.NumField(); i++ {
				if t.Field(i).PkgPath != "" {
					continue // unexported: out of a caller's reach
				}
				walk(v.Field(i), depth+1)
			}
		case reflect.Slice:
			if v.IsNil() || v.Len() == 0 {
				return
			}
			if seen[v.Pointer()] {
				return
			}
			seen[v.Pointer()] = true
			fallthrough
		case reflect.Array:
			if v.Type().Elem().Kind() == reflect.Uint8 {
				for i := 0; i < v.Len(); i++ {
					e := v.Index(i)
					if e.CanSet() {
						e.SetUint(e.Uint() ^ 0xFF)
						n++
					}
				}
				return
			}
			for i := 0; i < v.Len(); i++ {
				walk(v.Index(i), depth+1)
			}
		}
	}
	walk(reflect.ValueOf(ptr), 0)
	return n
}

// ScribbleViaAccessors does the same through what the argument-free exported methods of the value
// hand out (pointers, slices, structs holding them): a caller that edits the RouterAddress it got
// from RouterInfo.RouterAddresses() owns that RouterInfo, nothing else.
func ScribbleViaAccessors(ptr any) (n int) {
	v := reflect.ValueOf(ptr)
	if !v.IsValid() {
		return 0
	}
	t := v.Type()
	for i := 0; i < t.NumMethod(); i++ {
		m := t.Method(i)
		if m.Type.NumIn() != 1 || m.Type.NumOut() == 0 {
			continue
		}
		switch m.Name {
		case "String", "GoString", "Error":
			continue
		}
		func() {
			defer func() { _ = recover() }()
			for _, res := range v.Method(i).Call(nil) {
				switch res.Kind() {
				case reflect.Ptr, reflect.Slice, reflect.Interface:
					if res.Kind() == reflect.Interface && !res.IsNil() {
						if _, isErr := res.Interface().(error); isErr {
							continue
						}
					}
					n += ScribbleExported(res.Interface())
				case reflect.Struct:
					p := reflect.New(res.Type())
					p.Elem().Set(res)
					n += ScribbleExported(p.Interface())
				}
			}
		}()
	}
	return n
}
