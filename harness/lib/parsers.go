// Package lib adapts the entry points of go-i2p/common to uniform interfaces the monitors
// consume. It contains no oracle logic.
package lib

import (
	"strings"

	"github.com/go-i2p/common/certificate"
	"github.com/go-i2p/common/data"
	"github.com/go-i2p/common/destination"
	"github.com/go-i2p/common/encrypted_leaseset"
	"github.com/go-i2p/common/key_certificate"
	"github.com/go-i2p/common/keys_and_cert"
	"github.com/go-i2p/common/lease"
	"github.com/go-i2p/common/lease_set"
	"github.com/go-i2p/common/lease_set2"
	"github.com/go-i2p/common/meta_leaseset"
	"github.com/go-i2p/common/offline_signature"
	"github.com/go-i2p/common/router_address"
	"github.com/go-i2p/common/router_identity"
	"github.com/go-i2p/common/router_info"
	"github.com/go-i2p/common/session_key"
	"github.com/go-i2p/common/session_tag"
	"github.com/go-i2p/common/signature"
)

// Out is what one parser call produced.
type Out struct {
	Accepted bool
	Err      error
	Val      any    // returned value (addressable pointer where possible); may be set with Err
	Ser      []byte // serialisation of the value (nil when Accepted is false or serialisation failed)
	SerErr   error
	Rem      []byte
}

// Parser is one byte-consuming entry point.
type Parser struct {
	Name    string
	Kind    string // generator kind
	Arg     int    // type / size parameter where the entry point has one
	HasRem  bool   // returns a remainder
	Whole   bool   // requires the input to be exactly one structure (no remainder concept)
	Prefix  bool   // tolerates trailing bytes without returning a remainder (ReadLeaseSet)
	Scope08 bool   // listed in C08's statement
	Fn      func(in []byte) Out
}

const embeddedWarning = "data exists beyond length of mapping"

// MappingAccepted: no error other than the documented embedded-context warning.
func MappingAccepted(errs []error) bool {
	for _, e := range errs {
		if e == nil {
			continue
		}
		if !strings.Contains(e.Error(), embeddedWarning) {
			return false
		}
	}
	return true
}

func firstErr(errs []error) error {
	for _, e := range errs {
		if e != nil && !strings.Contains(e.Error(), embeddedWarning) {
			return e
		}
	}
	return nil
}

func kacOut(k *keys_and_cert.KeysAndCert, rem []byte, err error) Out {
	o := Out{Err: err, Rem: rem}
	if k != nil {
		o.Val = k
	}
	if err == nil && k != nil {
		o.Accepted = true
		o.Ser, o.SerErr = k.Bytes()
	}
	return o
}

// Parsers returns the registry. sigTypes parameterise the signature readers.
func Parsers() []Parser {
	ps := []Parser{
		{Name: "data.ReadI2PString", Kind: "string", HasRem: true, Fn: func(in []byte) Out {
			s, rem, err := data.ReadI2PString(in)
			o := Out{Err: err, Rem: rem, Val: s}
			if err == nil {
				o.Accepted, o.Ser = true, []byte(s)
			}
			return o
		}},
		{Name: "data.NewI2PStringFromBytes", Kind: "string", Whole: true, Fn: func(in []byte) Out {
			s, err := data.NewI2PStringFromBytes(in)
			o := Out{Err: err, Val: s}
			if err == nil {
				o.Accepted, o.Ser = true, []byte(s)
			}
			return o
		}},
		{Name: "data.ReadDate", Kind: "date", HasRem: true, Fn: func(in []byte) Out {
			d, rem, err := data.ReadDate(in)
			o := Out{Err: err, Rem: rem, Val: &d}
			if err == nil {
				o.Accepted, o.Ser = true, d.Bytes()
			}
			return o
		}},
		{Name: "data.NewDate", Kind: "date", HasRem: true, Fn: func(in []byte) Out {
			d, rem, err := data.NewDate(in)
			o := Out{Err: err, Rem: rem}
			if d != nil {
				o.Val = d
			}
			if err == nil && d != nil {
				o.Accepted, o.Ser = true, d.Bytes()
			}
			return o
		}},
		{Name: "data.ReadHash", Kind: "hash", HasRem: true, Fn: func(in []byte) Out {
			h, rem, err := data.ReadHash(in)
			o := Out{Err: err, Rem: rem, Val: &h}
			if err == nil {
				b := h.Bytes()
				o.Accepted, o.Ser = true, b[:]
			}
			return o
		}},
		{Name: "data.NewHashFromSlice", Kind: "hash", Whole: true, Fn: func(in []byte) Out {
			h, err := data.NewHashFromSlice(in)
			o := Out{Err: err, Val: &h}
			if err == nil {
				b := h.Bytes()
				o.Accepted, o.Ser = true, b[:]
			}
			return o
		}},
		{Name: "data.ReadMapping", Kind: "mapping", HasRem: true, Fn: func(in []byte) Out {
			m, rem, errs := data.ReadMapping(in)
			o := Out{Err: firstErr(errs), Rem: rem, Val: &m}
			if MappingAccepted(errs) {
				o.Accepted, o.Ser = true, m.Data()
			}
			return o
		}},
		{Name: "data.NewMapping", Kind: "mapping", HasRem: true, Fn: func(in []byte) Out {
			m, rem, errs := data.NewMapping(in)
			o := Out{Err: firstErr(errs), Rem: rem}
			if m != nil {
				o.Val = m
			}
			if MappingAccepted(errs) && m != nil {
				o.Accepted, o.Ser = true, m.Data()
			}
			return o
		}},
		{Name: "data.NewIntegerFromBytes", Kind: "intbytes", Whole: true, Fn: func(in []byte) Out {
			i, err := data.NewIntegerFromBytes(in)
			o := Out{Err: err, Val: i}
			if err == nil {
				o.Accepted, o.Ser = true, i.Bytes()
			}
			return o
		}},
		{Name: "certificate.ReadCertificate", Kind: "cert", HasRem: true, Scope08: true, Fn: func(in []byte) Out {
			c, rem, err := certificate.ReadCertificate(in)
			o := Out{Err: err, Rem: rem}
			if c != nil {
				o.Val = c
			}
			if err == nil && c != nil {
				o.Accepted, o.Ser = true, c.Bytes()
			}
			return o
		}},
		{Name: "key_certificate.NewKeyCertificate", Kind: "keycert", HasRem: true, Scope08: true, Fn: func(in []byte) Out {
			c, rem, err := key_certificate.NewKeyCertificate(in)
			o := Out{Err: err, Rem: rem}
			if c != nil {
				o.Val = c
			}
			if err == nil && c != nil {
				o.Accepted, o.Ser = true, c.Bytes()
			}
			return o
		}},
		{Name: "key_certificate.KeyCertificateFromCertificate(ReadCertificate)", Kind: "keycert", HasRem: true, Scope08: true, Fn: func(in []byte) Out {
			c, rem, err := certificate.ReadCertificate(in)
			if err != nil || c == nil {
				return Out{Err: err, Rem: rem}
			}
			kc, err := key_certificate.KeyCertificateFromCertificate(c)
			o := Out{Err: err, Rem: rem}
			if kc != nil {
				o.Val = kc
			}
			if err == nil && kc != nil {
				o.Accepted, o.Ser = true, kc.Bytes()
			}
			return o
		}},
		{Name: "keys_and_cert.ReadKeysAndCert", Kind: "kac", HasRem: true, Scope08: true, Fn: func(in []byte) Out {
			return kacOut(keys_and_cert.ReadKeysAndCert(in))
		}},
		{Name: "keys_and_cert.ReadKeysAndCertElgAndEd25519", Kind: "kac_elg_ed", HasRem: true, Scope08: true, Fn: func(in []byte) Out {
			return kacOut(keys_and_cert.ReadKeysAndCertElgAndEd25519(in))
		}},
		{Name: "keys_and_cert.ReadKeysAndCertX25519AndEd25519", Kind: "kac_x_ed", HasRem: true, Scope08: true, Fn: func(in []byte) Out {
			return kacOut(keys_and_cert.ReadKeysAndCertX25519AndEd25519(in))
		}},
		{Name: "destination.ReadDestination", Kind: "dest", HasRem: true, Scope08: true, Fn: func(in []byte) Out {
			d, rem, err := destination.ReadDestination(in)
			o := Out{Err: err, Rem: rem, Val: &d}
			if err == nil {
				o.Accepted = true
				o.Ser, o.SerErr = d.Bytes()
			}
			return o
		}},
		{Name: "destination.NewDestinationFromBytes", Kind: "dest", HasRem: true, Scope08: true, Fn: func(in []byte) Out {
			d, rem, err := destination.NewDestinationFromBytes(in)
			o := Out{Err: err, Rem: rem}
			if d != nil {
				o.Val = d
			}
			if err == nil && d != nil {
				o.Accepted = true
				o.Ser, o.SerErr = d.Bytes()
			}
			return o
		}},
		{Name: "router_identity.ReadRouterIdentity", Kind: "rident", HasRem: true, Scope08: true, Fn: func(in []byte) Out {
			d, rem, err := router_identity.ReadRouterIdentity(in)
			o := Out{Err: err, Rem: rem}
			if d != nil {
				o.Val = d
			}
			if err == nil && d != nil {
				o.Accepted = true
				o.Ser, o.SerErr = d.Bytes()
			}
			return o
		}},
		{Name: "router_identity.NewRouterIdentityFromBytes", Kind: "rident", HasRem: true, Scope08: true, Fn: func(in []byte) Out {
			d, rem, err := router_identity.NewRouterIdentityFromBytes(in)
			o := Out{Err: err, Rem: rem}
			if d != nil {
				o.Val = d
			}
			if err == nil && d != nil {
				o.Accepted = true
				o.Ser, o.SerErr = d.Bytes()
			}
			return o
		}},
		{Name: "lease.ReadLease", Kind: "lease", HasRem: true, Scope08: true, Fn: func(in []byte) Out {
			l, rem, err := lease.ReadLease(in)
			o := Out{Err: err, Rem: rem, Val: &l}
			if err == nil {
				o.Accepted, o.Ser = true, append([]byte(nil), l.Bytes()...)
			}
			return o
		}},
		{Name: "lease.NewLeaseFromBytes", Kind: "lease", HasRem: true, Scope08: true, Fn: func(in []byte) Out {
			l, rem, err := lease.NewLeaseFromBytes(in)
			o := Out{Err: err, Rem: rem}
			if l != nil {
				o.Val = l
			}
			if err == nil && l != nil {
				o.Accepted, o.Ser = true, append([]byte(nil), l.Bytes()...)
			}
			return o
		}},
		{Name: "lease.ReadLease2", Kind: "lease2", HasRem: true, Scope08: true, Fn: func(in []byte) Out {
			l, rem, err := lease.ReadLease2(in)
			o := Out{Err: err, Rem: rem, Val: &l}
			if err == nil {
				o.Accepted, o.Ser = true, append([]byte(nil), l.Bytes()...)
			}
			return o
		}},
		{Name: "lease.NewLease2FromBytes", Kind: "lease2", HasRem: true, Scope08: true, Fn: func(in []byte) Out {
			l, rem, err := lease.NewLease2FromBytes(in)
			o := Out{Err: err, Rem: rem}
			if l != nil {
				o.Val = l
			}
			if err == nil && l != nil {
				o.Accepted, o.Ser = true, append([]byte(nil), l.Bytes()...)
			}
			return o
		}},
		{Name: "router_address.ReadRouterAddress", Kind: "raddr", HasRem: true, Fn: func(in []byte) Out {
			a, rem, err := router_address.ReadRouterAddress(in)
			o := Out{Err: err, Rem: rem, Val: &a}
			if err == nil {
				o.Accepted, o.Ser = true, a.Bytes()
			}
			return o
		}},
		{Name: "router_info.ReadRouterInfo", Kind: "rinfo", HasRem: true, Fn: func(in []byte) Out {
			a, rem, err := router_info.ReadRouterInfo(in)
			o := Out{Err: err, Rem: rem, Val: &a}
			if err == nil {
				o.Accepted = true
				o.Ser, o.SerErr = a.Bytes()
			}
			return o
		}},
		{Name: "lease_set.ReadLeaseSet", Kind: "leaseset", Prefix: true, Scope08: true, Fn: func(in []byte) Out {
			a, err := lease_set.ReadLeaseSet(in)
			o := Out{Err: err, Val: &a}
			if err == nil {
				o.Accepted = true
				o.Ser, o.SerErr = a.Bytes()
			}
			return o
		}},
		{Name: "lease_set.ReadDestinationFromLeaseSet", Kind: "dest_ls", HasRem: true, Scope08: true, Fn: func(in []byte) Out {
			d, rem, err := lease_set.ReadDestinationFromLeaseSet(in)
			o := Out{Err: err, Rem: rem, Val: &d}
			if err == nil {
				o.Accepted = true
				o.Ser, o.SerErr = d.Bytes()
			}
			return o
		}},
		{Name: "lease_set2.ReadLeaseSet2", Kind: "leaseset2", HasRem: true, Scope08: true, Fn: func(in []byte) Out {
			a, rem, err := lease_set2.ReadLeaseSet2(in)
			o := Out{Err: err, Rem: rem, Val: &a}
			if err == nil {
				o.Accepted = true
				o.Ser, o.SerErr = a.Bytes()
			}
			return o
		}},
		{Name: "meta_leaseset.ReadMetaLeaseSet", Kind: "metaleaseset", HasRem: true, Scope08: true, Fn: func(in []byte) Out {
			a, rem, err := meta_leaseset.ReadMetaLeaseSet(in)
			o := Out{Err: err, Rem: rem, Val: &a}
			if err == nil {
				o.Accepted = true
				o.Ser, o.SerErr = a.Bytes()
			}
			return o
		}},
		{Name: "encrypted_leaseset.ReadEncryptedLeaseSet", Kind: "encleaseset", HasRem: true, Scope08: true, Fn: func(in []byte) Out {
			a, rem, err := encrypted_leaseset.ReadEncryptedLeaseSet(in)
			o := Out{Err: err, Rem: rem, Val: &a}
			if err == nil {
				o.Accepted = true
				o.Ser, o.SerErr = a.Bytes()
			}
			return o
		}},
		{Name: "session_key.ReadSessionKey", Kind: "fixed32", HasRem: true, Fn: func(in []byte) Out {
			k, rem, err := session_key.ReadSessionKey(in)
			o := Out{Err: err, Rem: rem, Val: &k}
			if err == nil {
				o.Accepted, o.Ser = true, append([]byte(nil), k.Bytes()...)
			}
			return o
		}},
		{Name: "session_key.NewSessionKey", Kind: "fixed32", HasRem: true, Fn: func(in []byte) Out {
			k, rem, err := session_key.NewSessionKey(in)
			o := Out{Err: err, Rem: rem}
			if k != nil {
				o.Val = k
			}
			if err == nil && k != nil {
				o.Accepted, o.Ser = true, append([]byte(nil), k.Bytes()...)
			}
			return o
		}},
		{Name: "session_tag.ReadSessionTag", Kind: "fixed32", HasRem: true, Fn: func(in []byte) Out {
			k, rem, err := session_tag.ReadSessionTag(in)
			o := Out{Err: err, Rem: rem, Val: &k}
			if err == nil {
				o.Accepted, o.Ser = true, append([]byte(nil), k.Bytes()...)
			}
			return o
		}},
		{Name: "session_tag.NewSessionTag", Kind: "fixed32", HasRem: true, Fn: func(in []byte) Out {
			k, rem, err := session_tag.NewSessionTag(in)
			o := Out{Err: err, Rem: rem}
			if k != nil {
				o.Val = k
			}
			if err == nil && k != nil {
				o.Accepted, o.Ser = true, append([]byte(nil), k.Bytes()...)
			}
			return o
		}},
		{Name: "session_tag.NewSessionTagFromBytes", Kind: "fixed32", Whole: true, Fn: func(in []byte) Out {
			k, err := session_tag.NewSessionTagFromBytes(in)
			o := Out{Err: err, Val: &k}
			if err == nil {
				o.Accepted, o.Ser = true, append([]byte(nil), k.Bytes()...)
			}
			return o
		}},
		{Name: "session_tag.ReadECIESSessionTag", Kind: "fixed8", HasRem: true, Fn: func(in []byte) Out {
			k, rem, err := session_tag.ReadECIESSessionTag(in)
			o := Out{Err: err, Rem: rem, Val: &k}
			if err == nil {
				o.Accepted, o.Ser = true, append([]byte(nil), k.Bytes()...)
			}
			return o
		}},
		{Name: "session_tag.NewECIESSessionTag", Kind: "fixed8", HasRem: true, Fn: func(in []byte) Out {
			k, rem, err := session_tag.NewECIESSessionTag(in)
			o := Out{Err: err, Rem: rem}
			if k != nil {
				o.Val = k
			}
			if err == nil && k != nil {
				o.Accepted, o.Ser = true, append([]byte(nil), k.Bytes()...)
			}
			return o
		}},
		{Name: "session_tag.NewECIESSessionTagFromBytes", Kind: "fixed8", Whole: true, Fn: func(in []byte) Out {
			k, err := session_tag.NewECIESSessionTagFromBytes(in)
			o := Out{Err: err, Val: &k}
			if err == nil {
				o.Accepted, o.Ser = true, append([]byte(nil), k.Bytes()...)
			}
			return o
		}},
	}
	for size := 1; size <= 8; size++ {
		size := size
		ps = append(ps, Parser{Name: "data.ReadInteger", Kind: "integer", Arg: size, HasRem: true, Fn: func(in []byte) Out {
			i, rem := data.ReadInteger(in, size)
			o := Out{Rem: rem, Val: i}
			if len(i) == size {
				o.Accepted, o.Ser = true, i.Bytes()
			}
			return o
		}})
	}
	ps = append(ps, Parser{Name: "data.NewInteger", Kind: "integer", Arg: 4, HasRem: true, Fn: func(in []byte) Out {
		i, rem, err := data.NewInteger(in, 4)
		o := Out{Rem: rem, Err: err}
		if i != nil {
			o.Val = i
			if err == nil && len(*i) == 4 {
				o.Accepted, o.Ser = true, i.Bytes()
			}
		}
		return o
	}})
	for _, st := range []int{0, 1, 2, 3, 4, 5, 6, 7, 8, 11} {
		st := st
		ps = append(ps,
			Parser{Name: "signature.ReadSignature", Kind: "sig", Arg: st, HasRem: true, Scope08: true, Fn: func(in []byte) Out {
				s, rem, err := signature.ReadSignature(in, st)
				o := Out{Err: err, Rem: rem, Val: &s}
				if err == nil {
					o.Accepted, o.Ser = true, s.Bytes()
				}
				return o
			}},
			Parser{Name: "signature.NewSignature", Kind: "sig", Arg: st, HasRem: true, Scope08: true, Fn: func(in []byte) Out {
				s, rem, err := signature.NewSignature(in, st)
				o := Out{Err: err, Rem: rem}
				if s != nil {
					o.Val = s
				}
				if err == nil && s != nil {
					o.Accepted, o.Ser = true, s.Bytes()
				}
				return o
			}},
			Parser{Name: "signature.NewSignatureFromBytes", Kind: "sig", Arg: st, Whole: true, Scope08: true, Fn: func(in []byte) Out {
				s, err := signature.NewSignatureFromBytes(in, st)
				o := Out{Err: err, Val: &s}
				if err == nil {
					o.Accepted, o.Ser = true, s.Bytes()
				}
				return o
			}},
		)
	}
	for _, st := range []int{0, 1, 2, 7, 8, 11} {
		st := st
		ps = append(ps, Parser{Name: "offline_signature.ReadOfflineSignature", Kind: "offline", Arg: st, HasRem: true, Scope08: true, Fn: func(in []byte) Out {
			s, rem, err := offline_signature.ReadOfflineSignature(in, uint16(st))
			o := Out{Err: err, Rem: rem, Val: &s}
			if err == nil {
				o.Accepted, o.Ser = true, s.Bytes()
			}
			return o
		}})
	}
	return ps
}

// ByName returns the first parser with the name (and Arg, when arg >= 0).
func ByName(name string, arg int) *Parser {
	for _, p := range Parsers() {
		if p.Name == name && (arg < 0 || p.Arg == arg) {
			pp := p
			return &pp
		}
	}
	return nil
}

func (p Parser) ID() string {
	if p.Arg != 0 || p.Kind == "sig" || p.Kind == "offline" || p.Kind == "integer" {
		return p.Name + "#" + itoa(p.Arg)
	}
	return p.Name
}

func itoa(i int) string {
	if i == 0 {
		return "0"
	}
	neg := i < 0
	if neg {
		i = -i
	}
	var b []byte
	for i > 0 {
		b = append([]byte{byte('0' + i%10)}, b...)
		i /= 10
	}
	if neg {
		b = append([]byte{'-'}, b...)
	}
	return string(b)
}

var parserCache map[string]*Parser

// ByNameCached is ByName(name, -1) with a cache (hot loops).
func ByNameCached(name string) *Parser {
	if parserCache == nil {
		parserCache = map[string]*Parser{}
		for _, p := range Parsers() {
			if _, ok := parserCache[p.Name]; !ok {
				pp := p
				parserCache[p.Name] = &pp
			}
		}
	}
	return parserCache[name]
}

var parserIDCache map[string]*Parser

// ByID returns the parser with the given ID() (name plus "#arg" where the entry point takes one).
func ByID(id string) *Parser {
	if parserIDCache == nil {
		parserIDCache = map[string]*Parser{}
		for _, p := range Parsers() {
			if _, ok := parserIDCache[p.ID()]; !ok {
				pp := p
				parserIDCache[p.ID()] = &pp
			}
		}
	}
	return parserIDCache[id]
}
