package lib

import (
	"fmt"
	"github.com/go-i2p/crypto/rsa"
	"time"

	"github.com/go-i2p/common/certificate"
	"github.com/go-i2p/common/data"
	"github.com/go-i2p/common/destination"
	"github.com/go-i2p/common/encrypted_leaseset"
	"github.com/go-i2p/common/key_certificate"
	"github.com/go-i2p/common/keys_and_cert"
	"github.com/go-i2p/common/lease"
	"github.com/go-i2p/common/lease_set"
	"github.com/go-i2p/common/lease_set2"
	"github.com/go-i2p/common/offline_signature"
	"github.com/go-i2p/common/router_address"
	"github.com/go-i2p/common/router_identity"
	"github.com/go-i2p/common/router_info"
	"github.com/go-i2p/crypto/curve25519"
	"github.com/go-i2p/crypto/dsa"
	"github.com/go-i2p/crypto/ecdsa"
	"github.com/go-i2p/crypto/ed25519"
	elgamal "github.com/go-i2p/crypto/elg"
	"github.com/go-i2p/crypto/types"

	rm "verifharness/refmodel"
)

// This file builds library values from model values through the library's CONSTRUCTORS
// (never through its parsers).

func BuildCert(c rm.Cert) (*certificate.Certificate, error) {
	return certificate.NewCertificateWithType(c.Type, c.Payload)
}

// BuildCertViaBuilder uses the CertificateBuilder path.
func BuildCertViaBuilder(c rm.Cert) (*certificate.Certificate, error) {
	b := certificate.NewCertificateBuilder()
	if _, err := b.WithType(c.Type); err != nil {
		return nil, err
	}
	b.WithPayload(c.Payload)
	return b.Build()
}

// CryptoKeyOf makes the library's public-key object for a crypto type.
func CryptoKeyOf(cryptoType int, keyBytes []byte) (types.ReceivingPublicKey, error) {
	switch cryptoType {
	case 0:
		if len(keyBytes) != 256 {
			return nil, fmt.Errorf("elgamal key must be 256 bytes")
		}
		var k elgamal.ElgPublicKey
		copy(k[:], keyBytes)
		return k, nil
	case 4, 5, 6, 7:
		k := make(curve25519.Curve25519PublicKey, len(keyBytes))
		copy(k, keyBytes)
		return k, nil
	}
	return nil, fmt.Errorf("no library key type for crypto type %d", cryptoType)
}

// SigningKeyOf makes the library's signing-public-key object for a signing type.
func SigningKeyOf(sigType int, keyBytes []byte) (types.SigningPublicKey, error) {
	switch sigType {
	case 0:
		if len(keyBytes) != 128 {
			return nil, fmt.Errorf("dsa key must be 128 bytes")
		}
		var k dsa.DSAPublicKey
		copy(k[:], keyBytes)
		return k, nil
	case 1:
		if len(keyBytes) != 64 {
			return nil, fmt.Errorf("p256 key must be 64 bytes")
		}
		var k ecdsa.ECP256PublicKey
		copy(k[:], keyBytes)
		return k, nil
	case 2:
		if len(keyBytes) != 96 {
			return nil, fmt.Errorf("p384 key must be 96 bytes")
		}
		var k ecdsa.ECP384PublicKey
		copy(k[:], keyBytes)
		return k, nil
	case 7, 8, 11:
		k := make(ed25519.Ed25519PublicKey, len(keyBytes))
		copy(k, keyBytes)
		return k, nil
	case 3:
		if len(keyBytes) != 132 {
			return nil, fmt.Errorf("p521 key must be 132 bytes")
		}
		var k ecdsa.ECP521PublicKey
		copy(k[:], keyBytes)
		return k, nil
	case 4:
		k, err := rsa.NewRSA2048PublicKey(keyBytes)
		if err != nil {
			return nil, err
		}
		return *k, nil
	case 5:
		k, err := rsa.NewRSA3072PublicKey(keyBytes)
		if err != nil {
			return nil, err
		}
		return *k, nil
	case 6:
		k, err := rsa.NewRSA4096PublicKey(keyBytes)
		if err != nil {
			return nil, err
		}
		return *k, nil
	}
	return nil, fmt.Errorf("no library key type for signing type %d", sigType)
}

// BuildKeyCert builds the key certificate of a model KAC: NewKeyCertificateWithTypes when
// the certificate is a plain KEY certificate, otherwise certificate constructor +
// KeyCertificateFromCertificate. NULL certificates have no constructor path that yields a
// KeyCertificate; ok=false then.
func BuildKeyCert(c rm.Cert) (*key_certificate.KeyCertificate, bool, error) {
	sig, crypto, isKey, ok := c.KeyTypes()
	if !isKey || !ok {
		return nil, false, nil
	}
	if len(c.Payload) == 4 {
		kc, err := key_certificate.NewKeyCertificateWithTypes(sig, crypto)
		return kc, true, err
	}
	cert, err := certificate.NewCertificateWithType(c.Type, c.Payload)
	if err != nil {
		return nil, true, err
	}
	kc, err := key_certificate.KeyCertificateFromCertificate(cert)
	return kc, true, err
}

// BuildKAC builds a KeysAndCert through NewKeysAndCert. ok=false when no constructor path
// exists for the shape (NULL certificate).
func BuildKAC(k rm.KAC) (*keys_and_cert.KeysAndCert, bool, error) {
	return BuildKACPad(k, int(k.Block[0]%3))
}

// BuildKACPad is BuildKAC with the form of the padding argument chosen by the caller (see PaddingForm).
func BuildKACPad(k rm.KAC, form int) (*keys_and_cert.KeysAndCert, bool, error) {
	kc, ok, err := BuildKeyCert(k.Cert)
	if !ok || err != nil {
		return nil, ok, err
	}
	sig, crypto := k.Types()
	pk, err := CryptoKeyOf(crypto, k.CryptoKey())
	if err != nil {
		return nil, false, nil
	}
	spk, err := SigningKeyOf(sig, k.SigningKey())
	if err != nil {
		return nil, false, nil
	}
	kac, err := keys_and_cert.NewKeysAndCert(kc, pk, PaddingForm(k, form), spk)
	return kac, true, err
}

// PaddingArg is the padding a caller would hand to a constructor, in one of the forms a caller may
// legitimately use (chosen by the block's content, so that a case replays identically): exactly
// the bytes (nil when there are none), an empty but non-nil slice when there are none, or a slice
// with spare capacity.
func PaddingArg(k rm.KAC) []byte { return PaddingForm(k, int(k.Block[0]%3)) }

// PaddingForm: 0 exactly the bytes (nil when there are none), 1 empty but non-nil when there are
// none, 2 a slice with spare capacity.
func PaddingForm(k rm.KAC, form int) []byte {
	p := k.Padding()
	switch form {
	case 1:
		if len(p) == 0 {
			return []byte{}
		}
	case 2:
		q := make([]byte, len(p), len(p)+16)
		copy(q, p)
		return q
	}
	return p
}

func BuildDestination(k rm.KAC) (*destination.Destination, bool, error) {
	kac, ok, err := BuildKAC(k)
	if !ok || err != nil {
		return nil, ok, err
	}
	d, err := destination.NewDestination(kac)
	return d, true, err
}

// BuildRouterIdentity uses NewRouterIdentity (variant 0), NewRouterIdentityFromKeysAndCert
// (variant 1).
func BuildRouterIdentity(k rm.KAC, variant int) (*router_identity.RouterIdentity, bool, error) {
	if variant == 1 {
		kac, ok, err := BuildKAC(k)
		if !ok || err != nil {
			return nil, ok, err
		}
		ri, err := router_identity.NewRouterIdentityFromKeysAndCert(kac)
		return ri, true, err
	}
	sig, crypto, isKey, ok := k.Cert.KeyTypes()
	if !isKey || !ok {
		return nil, false, nil
	}
	cert, err := certificate.NewCertificateWithType(k.Cert.Type, k.Cert.Payload)
	if err != nil {
		return nil, true, err
	}
	pk, err := CryptoKeyOf(crypto, k.CryptoKey())
	if err != nil {
		return nil, false, nil
	}
	spk, err := SigningKeyOf(sig, k.SigningKey())
	if err != nil {
		return nil, false, nil
	}
	ri, err := router_identity.NewRouterIdentity(pk, spk, cert, PaddingArg(k))
	return ri, true, err
}

// MappingToGo converts model pairs to a Go map (only meaningful for unique keys).
func MappingToGo(m rm.Mapping) map[string]string {
	g := map[string]string{}
	for _, p := range m.Pairs {
		g[string(p.K)] = string(p.V)
	}
	return g
}

// BuildMappingValues builds a data.Mapping via ValuesToMapping in the model's order
// (the constructor sorts).
func BuildMappingValues(m rm.Mapping) (*data.Mapping, error) {
	vals := data.MappingValues{}
	for _, p := range m.Pairs {
		k, err := data.NewI2PString(string(p.K))
		if err != nil {
			return nil, err
		}
		v, err := data.NewI2PString(string(p.V))
		if err != nil {
			return nil, err
		}
		vals = append(vals, [2]data.I2PString{k, v})
	}
	return data.ValuesToMapping(vals)
}

// HandsOverUnsorted: a caller can hold a Mapping whose pairs are NOT in key order (the parser keeps
// wire order). Model mappings that are unsorted and free of duplicate keys are handed to the
// LeaseSet2 constructor that way, so that it also sees option mappings no sorting converter
// would give it.
func HandsOverUnsorted(m rm.Mapping) bool {
	return m.Raw == nil && len(m.Pairs) > 1 && !m.Sorted() && !m.HasDuplicateKeys()
}

// OptionsArg builds the options argument of a constructor that takes a data.Mapping.
func OptionsArg(m rm.Mapping) (*data.Mapping, error) {
	if HandsOverUnsorted(m) {
		if pm, rem, errs := data.ReadMapping(m.Encode()); len(errs) == 0 && len(rem) == 0 {
			return &pm, nil
		}
	}
	return BuildMappingValues(m)
}

func BuildRouterAddress(a rm.RouterAddress) (*router_address.RouterAddress, error) {
	opts := MappingToGo(a.Options)
	if len(opts) == 0 && a.Cost%2 == 1 {
		opts = nil // "no options" as a caller may also say it (chosen by the cost byte, so a case replays identically)
	}
	return router_address.NewRouterAddress(a.Cost, time.Time{}, string(a.Style), opts)
}

func BuildLease(l rm.Lease) (*lease.Lease, error) {
	return lease.NewLease(data.Hash(l.GW), l.TunnelID, time.UnixMilli(int64(l.EndMs)))
}

func BuildLease2(l rm.Lease2) (*lease.Lease2, error) {
	return lease.NewLease2(data.Hash(l.GW), l.TunnelID, time.Unix(int64(l.EndS), 0))
}

func BuildOffline(o rm.Offline, destSigType int) (offline_signature.OfflineSignature, error) {
	return offline_signature.NewOfflineSignature(o.Expires, o.SigType, o.TransientKey, o.Sig, uint16(destSigType))
}

// LibSigningPrivateKey converts a reference key pair into the library's private key type.
func LibSigningPrivateKey(k *rm.SigKey) (types.SigningPrivateKey, error) {
	switch k.Type {
	case 7, 8, 11:
		pk, err := ed25519.NewEd25519PrivateKey(k.Ed25519Private())
		if err != nil {
			return nil, err
		}
		return &pk, nil
	case 0:
		pk, err := dsa.NewDSAPrivateKey(k.DSAPrivate())
		if err != nil {
			return nil, err
		}
		return pk, nil
	case 1:
		var pk ecdsa.ECP256PrivateKey
		if len(k.ECPrivate()) != len(pk) {
			return nil, fmt.Errorf("p256 private key length")
		}
		copy(pk[:], k.ECPrivate())
		return &pk, nil
	}
	return nil, fmt.Errorf("no library private key for type %d", k.Type)
}

// BuildLeaseSet builds and signs through NewLeaseSet.
func BuildLeaseSet(l rm.LeaseSet, priv types.SigningPrivateKey) (*lease_set.LeaseSet, bool, error) {
	d, ok, err := BuildDestination(l.Dest)
	if !ok || err != nil {
		return nil, ok, err
	}
	var ek elgamal.ElgPublicKey
	copy(ek[:], l.EncKey)
	st, _ := l.Dest.Types()
	sk, err := SigningKeyOf(st, l.SigningKey)
	if err != nil {
		return nil, false, nil
	}
	var leases []lease.Lease
	for _, x := range l.Leases {
		ll, err := BuildLease(x)
		if err != nil {
			return nil, true, err
		}
		leases = append(leases, *ll)
	}
	ls, err := lease_set.NewLeaseSet(*d, ek, sk, leases, priv)
	return ls, true, err
}

func buildEncKeys(keys []rm.EncKey) []lease_set2.EncryptionKey {
	var out []lease_set2.EncryptionKey
	for _, k := range keys {
		out = append(out, lease_set2.EncryptionKey{KeyType: k.Type, KeyLen: uint16(len(k.Data)), KeyData: append([]byte{}, k.Data...)})
	}
	return out
}

// BuildLeaseSet2 builds through NewLeaseSet2. signingKey is passed through unchanged.
func BuildLeaseSet2(l rm.LeaseSet2, signingKey any) (*lease_set2.LeaseSet2, bool, error) {
	d, ok, err := BuildDestination(l.Dest)
	if !ok || err != nil {
		return nil, ok, err
	}
	var off *offline_signature.OfflineSignature
	if l.Offline != nil {
		st, _ := l.Dest.Types()
		o, err := BuildOffline(*l.Offline, st)
		if err != nil {
			return nil, true, err
		}
		off = &o
	}
	opts, err := OptionsArg(l.Options)
	if err != nil {
		return nil, true, err
	}
	var leases []lease.Lease2
	for _, x := range l.Leases {
		ll, err := BuildLease2(x)
		if err != nil {
			return nil, true, err
		}
		leases = append(leases, *ll)
	}
	ls2, err := lease_set2.NewLeaseSet2(*d, l.Published, l.Expires, l.Flags, off, *opts, buildEncKeys(l.Keys), leases, signingKey)
	if err != nil {
		return nil, true, err
	}
	return &ls2, true, nil
}

func BuildEncryptedLeaseSet(l rm.EncryptedLeaseSet, signingKey any) (*encrypted_leaseset.EncryptedLeaseSet, error) {
	var off *offline_signature.OfflineSignature
	if l.Offline != nil {
		o, err := BuildOffline(*l.Offline, int(l.SigType))
		if err != nil {
			return nil, err
		}
		off = &o
	}
	return encrypted_leaseset.NewEncryptedLeaseSet(l.SigType, l.BlindedKey, l.Published, l.Expires, l.Flags, off, l.Inner, signingKey)
}

// BuildRouterInfo builds and signs through NewRouterInfo (Ed25519 only in the library).
func BuildRouterInfo(r rm.RouterInfo, priv types.SigningPrivateKey, identVariant int) (*router_info.RouterInfo, bool, error) {
	id, ok, err := BuildRouterIdentity(r.Ident, identVariant)
	if !ok || err != nil {
		return nil, ok, err
	}
	var addrs []*router_address.RouterAddress
	for _, a := range r.Addrs {
		ra, err := BuildRouterAddress(a)
		if err != nil {
			return nil, true, err
		}
		addrs = append(addrs, ra)
	}
	st, _ := r.Ident.Types()
	ri, err := router_info.NewRouterInfo(id, time.UnixMilli(int64(r.Published)), addrs, MappingToGo(r.Options), priv, st)
	return ri, true, err
}
