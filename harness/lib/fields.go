package lib

import (
	"encoding/binary"
	"fmt"

	"github.com/go-i2p/common/certificate"
	"github.com/go-i2p/common/data"
	"github.com/go-i2p/common/encrypted_leaseset"
	"github.com/go-i2p/common/keys_and_cert"
	"github.com/go-i2p/common/lease"
	"github.com/go-i2p/common/lease_set"
	"github.com/go-i2p/common/lease_set2"
	"github.com/go-i2p/common/meta_leaseset"
	"github.com/go-i2p/common/offline_signature"
	"github.com/go-i2p/common/router_address"
	"github.com/go-i2p/common/router_info"
	"github.com/go-i2p/common/signature"
)

// Field is one named field value as exposed by the library's PUBLIC accessors.
type Field struct {
	Name string
	Val  []byte
}

type Fields []Field

func (f *Fields) add(name string, v []byte) { *f = append(*f, Field{name, append([]byte{}, v...)}) }
func (f *Fields) u(name string, v uint64, n int) {
	b := make([]byte, 8)
	binary.BigEndian.PutUint64(b, v)
	f.add(name, b[8-n:])
}
func (f *Fields) err(name string, e error) { f.add(name+"!error", []byte(fmt.Sprint(e))) }

func CertFields(f *Fields, pre string, c *certificate.Certificate) {
	if c == nil {
		f.add(pre+"cert!nil", nil)
		return
	}
	t, err := c.Type()
	if err != nil {
		f.err(pre+"cert.type", err)
	}
	f.u(pre+"cert.type", uint64(t), 1)
	p, err := c.Data()
	if err != nil {
		f.err(pre+"cert.payload", err)
	}
	f.add(pre+"cert.payload", p)
	l, err := c.Length()
	if err != nil {
		f.err(pre+"cert.length", err)
	}
	f.u(pre+"cert.length", uint64(l), 2)
}

func KACFields(f *Fields, pre string, k *keys_and_cert.KeysAndCert) {
	if k == nil {
		f.add(pre+"kac!nil", nil)
		return
	}
	pk, err := k.PublicKey()
	if err != nil {
		f.err(pre+"crypto_key", err)
	} else {
		f.add(pre+"crypto_key", pk.Bytes())
		f.u(pre+"crypto_key.len", uint64(pk.Len()), 2)
	}
	spk, err := k.SigningPublicKey()
	if err != nil {
		f.err(pre+"signing_key", err)
	} else {
		f.add(pre+"signing_key", spk.Bytes())
		f.u(pre+"signing_key.len", uint64(spk.Len()), 2)
	}
	f.add(pre+"padding", k.Padding)
	if k.KeyCertificate != nil {
		f.u(pre+"sig_type", uint64(k.KeyCertificate.SigningPublicKeyType()), 2)
		f.u(pre+"crypto_type", uint64(k.KeyCertificate.PublicKeyType()), 2)
		f.u(pre+"declared_crypto_size", uint64(k.KeyCertificate.CryptoSize()), 2)
		f.u(pre+"declared_signing_size", uint64(k.KeyCertificate.SigningPublicKeySize()), 2)
		f.u(pre+"declared_signature_size", uint64(k.KeyCertificate.SignatureSize()), 2)
	}
	CertFields(f, pre, k.Certificate())
}

func MappingFields(f *Fields, pre string, m data.Mapping) {
	vals := m.Values()
	f.u(pre+"pairs", uint64(len(vals)), 2)
	for i, p := range vals {
		k, err := p[0].Data()
		if err != nil {
			f.err(fmt.Sprintf("%spair[%d].key", pre, i), err)
		}
		v, err := p[1].Data()
		if err != nil {
			f.err(fmt.Sprintf("%spair[%d].val", pre, i), err)
		}
		f.add(fmt.Sprintf("%spair[%d].key", pre, i), []byte(k))
		f.add(fmt.Sprintf("%spair[%d].val", pre, i), []byte(v))
	}
}

func RouterAddressFields(f *Fields, pre string, a *router_address.RouterAddress) {
	f.u(pre+"cost", uint64(a.Cost()), 1)
	e := a.Expiration()
	f.add(pre+"expiration", e[:])
	st := a.TransportStyle()
	s, err := st.Data()
	if err != nil && len(st) != 1 {
		f.err(pre+"style", err)
	}
	f.add(pre+"style", []byte(s))
	MappingFields(f, pre+"options.", a.Options())
}

func SigFields(f *Fields, pre string, s signature.Signature) {
	f.add(pre+"signature", s.Bytes())
	f.u(pre+"signature.type", uint64(s.Type()), 2)
	f.u(pre+"signature.len", uint64(s.Len()), 2)
}

func RouterInfoFields(f *Fields, r *router_info.RouterInfo) {
	if id := r.RouterIdentity(); id != nil {
		KACFields(f, "ident.", id.KeysAndCert)
	} else {
		f.add("ident!nil", nil)
	}
	if p := r.Published(); p != nil {
		f.add("published", p.Bytes())
	}
	f.u("addr_count", uint64(r.RouterAddressCount()), 1)
	addrs := r.RouterAddresses()
	f.u("addrs", uint64(len(addrs)), 2)
	for i, a := range addrs {
		RouterAddressFields(f, fmt.Sprintf("addr[%d].", i), a)
	}
	f.u("peer_size", uint64(r.PeerSize()), 1)
	MappingFields(f, "options.", r.Options())
	SigFields(f, "", r.Signature())
}

func LeaseFields(f *Fields, pre string, l lease.Lease) {
	gw := l.TunnelGateway()
	f.add(pre+"gw", gw[:])
	f.u(pre+"tunnel", uint64(l.TunnelID()), 4)
	d := l.Date()
	f.add(pre+"end", d[:])
}

func Lease2Fields(f *Fields, pre string, l lease.Lease2) {
	gw := l.TunnelGateway()
	f.add(pre+"gw", gw[:])
	f.u(pre+"tunnel", uint64(l.TunnelID()), 4)
	f.u(pre+"end", uint64(l.EndDate()), 4)
}

func LeaseSetFields(f *Fields, l *lease_set.LeaseSet) {
	d := l.Destination()
	KACFields(f, "dest.", d.KeysAndCert)
	pk, err := l.PublicKey()
	if err != nil {
		f.err("enc_key", err)
	}
	f.add("enc_key", pk[:])
	sk, err := l.SigningKey()
	if err != nil || sk == nil {
		f.err("signing_key", err)
	} else {
		f.add("signing_key", sk.Bytes())
	}
	f.u("lease_count", uint64(l.LeaseCount()), 1)
	for i, x := range l.Leases() {
		LeaseFields(f, fmt.Sprintf("lease[%d].", i), x)
	}
	SigFields(f, "", l.Signature())
}

func OfflineFields(f *Fields, pre string, o *offline_signature.OfflineSignature) {
	if o == nil {
		f.add(pre+"offline", []byte("absent"))
		return
	}
	f.add(pre+"offline", []byte("present"))
	f.u(pre+"offline.expires", uint64(o.Expires()), 4)
	f.u(pre+"offline.sigtype", uint64(o.TransientSigType()), 2)
	f.add(pre+"offline.key", o.TransientPublicKey())
	f.add(pre+"offline.sig", o.Signature())
}

func LeaseSet2Fields(f *Fields, l *lease_set2.LeaseSet2) {
	d := l.Destination()
	KACFields(f, "dest.", d.KeysAndCert)
	f.u("published", uint64(l.Published()), 4)
	f.u("expires", uint64(l.Expires()), 2)
	f.u("flags", uint64(l.Flags()), 2)
	OfflineFields(f, "", l.OfflineSignature())
	MappingFields(f, "options.", l.Options())
	f.u("key_count", uint64(l.EncryptionKeyCount()), 1)
	for i, k := range l.EncryptionKeys() {
		f.u(fmt.Sprintf("key[%d].type", i), uint64(k.KeyType), 2)
		f.u(fmt.Sprintf("key[%d].len", i), uint64(k.KeyLen), 2)
		f.add(fmt.Sprintf("key[%d].data", i), k.KeyData)
	}
	f.u("lease_count", uint64(l.LeaseCount()), 1)
	for i, x := range l.Leases() {
		Lease2Fields(f, fmt.Sprintf("lease[%d].", i), x)
	}
	SigFields(f, "", l.Signature())
}

func MetaLeaseSetFields(f *Fields, l *meta_leaseset.MetaLeaseSet) {
	d := l.Destination()
	KACFields(f, "dest.", d.KeysAndCert)
	f.u("published", uint64(l.Published()), 4)
	f.u("expires", uint64(l.Expires()), 2)
	f.u("flags", uint64(l.Flags()), 2)
	OfflineFields(f, "", l.OfflineSignature())
	MappingFields(f, "options.", l.Options())
	f.u("entry_count", uint64(l.NumEntries()), 1)
	for i, e := range l.Entries() {
		h := e.Hash()
		pre := fmt.Sprintf("entry[%d].", i)
		f.add(pre+"hash", h[:])
		f.u(pre+"type", uint64(e.Type()), 1)
		f.u(pre+"expires", uint64(e.Expires()), 4)
		f.u(pre+"cost", uint64(e.Cost()), 1)
		MappingFields(f, pre+"props.", e.Properties())
	}
	SigFields(f, "", l.Signature())
}

func EncryptedLeaseSetFields(f *Fields, l *encrypted_leaseset.EncryptedLeaseSet) {
	f.u("sigtype", uint64(l.SigType()), 2)
	f.add("blinded_key", l.BlindedPublicKey())
	f.u("published", uint64(l.Published()), 4)
	f.u("expires", uint64(l.Expires()), 2)
	f.u("flags", uint64(l.Flags()), 2)
	OfflineFields(f, "", l.OfflineSignature())
	f.u("inner_len", uint64(l.InnerLength()), 2)
	f.add("inner", l.EncryptedInnerData())
	SigFields(f, "", l.Signature())
}
