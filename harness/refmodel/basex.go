package refmodel

import (
	"math/big"
	"strings"
)

const B32Alphabet = "abcdefghijklmnopqrstuvwxyz234567"
const B64Alphabet = "ABCDEFGHIJKLMNOPQRSTUVWXYZabcdefghijklmnopqrstuvwxyz0123456789-~"

// encodeBits is a bit-level encoder: take the input as a bit string, cut it into groups of
// `width` bits (last group zero-padded on the right), map each group through the alphabet.
func encodeBits(data []byte, alphabet string, width int) string {
	var sb strings.Builder
	acc, nbits := 0, 0
	for _, b := range data {
		acc = acc<<8 | int(b)
		nbits += 8
		for nbits >= width {
			nbits -= width
			sb.WriteByte(alphabet[(acc>>nbits)&(1<<width-1)])
		}
		acc &= 1<<nbits - 1
	}
	if nbits > 0 {
		sb.WriteByte(alphabet[(acc<<(width-nbits))&(1<<width-1)])
	}
	return sb.String()
}

func B32EncodeNoPad(data []byte) string { return encodeBits(data, B32Alphabet, 5) }
func B32Encode(data []byte) string {
	s := encodeBits(data, B32Alphabet, 5)
	for len(s)%8 != 0 {
		s += "="
	}
	return s
}
func B64Encode(data []byte) string {
	s := encodeBits(data, B64Alphabet, 6)
	for len(s)%4 != 0 {
		s += "="
	}
	return s
}

// decodeBits: strict inverse for symbol strings without padding. ok=false when a symbol is
// outside the alphabet or the symbol count is impossible. trailingZero reports whether the
// unused low bits of the last symbol were zero (canonical).
func decodeBits(s string, alphabet string, width int) (out []byte, ok bool, trailingZero bool) {
	acc, nbits := 0, 0
	for i := 0; i < len(s); i++ {
		v := strings.IndexByte(alphabet, s[i])
		if v < 0 {
			return nil, false, false
		}
		acc = acc<<width | v
		nbits += width
		if nbits >= 8 {
			nbits -= 8
			out = append(out, byte(acc>>nbits))
			acc &= 1<<nbits - 1
		}
	}
	if nbits >= width { // a whole symbol carried no new byte: impossible length
		return nil, false, false
	}
	return out, true, acc == 0
}

func B32DecodeNoPad(s string) ([]byte, bool, bool) { return decodeBits(s, B32Alphabet, 5) }
func B64DecodeNoPad(s string) ([]byte, bool, bool) { return decodeBits(s, B64Alphabet, 6) }

// StripCRLF removes the characters the decoders are documented to skip.
func StripCRLF(s string) string {
	return strings.Map(func(r rune) rune {
		if r == '\r' || r == '\n' {
			return -1
		}
		return r
	}, s)
}

// PaddedShape classifies a padded encoding: symbols, number of '=' and whether the padding
// is well-formed for a block size (8 for base32, 4 for base64).
func PaddedShape(s string, block int, validTail map[int]bool) (symbols string, wellFormed bool) {
	s = StripCRLF(s)
	i := strings.IndexByte(s, '=')
	if i < 0 {
		return s, len(s)%block == 0
	}
	sym, padStr := s[:i], s[i:]
	for j := 0; j < len(padStr); j++ {
		if padStr[j] != '=' {
			return sym, false
		}
	}
	if (len(sym)+len(padStr))%block != 0 || len(padStr) >= block {
		return sym, false
	}
	return sym, validTail[len(sym)%block]
}

var B32ValidTail = map[int]bool{2: true, 4: true, 5: true, 7: true}
var B64ValidTail = map[int]bool{2: true, 3: true}

// BigFromBytes is a helper for exact time arithmetic.
func BigFromBytes(b []byte) *big.Int { return new(big.Int).SetBytes(b) }
