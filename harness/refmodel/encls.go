package refmodel

import (
	"crypto/sha256"
	"errors"
	"io"

	"golang.org/x/crypto/chacha20poly1305"
	"golang.org/x/crypto/curve25519"
	"golang.org/x/crypto/hkdf"
)

// Reference implementation of the encrypted-leaseset inner layer as this library documents
// it: eph(32) | nonce(12) | ChaCha20-Poly1305(ct | tag16), key = HKDF-SHA256(ikm = X25519
// shared secret, no salt, info "i2p-encrypted-leaseset-encryption", 32 bytes), no AAD.
const encLSInfo = "i2p-encrypted-leaseset-encryption"

func encLSKey(shared []byte) ([]byte, error) {
	k := make([]byte, 32)
	_, err := io.ReadFull(hkdf.New(sha256.New, shared, nil, []byte(encLSInfo)), k)
	return k, err
}

// X25519KeyPair derives a key pair from 32 bytes of entropy.
func X25519KeyPair(seed []byte) (priv, pub []byte, err error) {
	priv = append([]byte{}, seed[:32]...)
	pub, err = curve25519.X25519(priv, curve25519.Basepoint)
	return
}

// EncryptInner encrypts plaintext to recipientPub with the given ephemeral secret and nonce.
func EncryptInner(plaintext, recipientPub, ephPriv, nonce []byte) ([]byte, error) {
	ephPub, err := curve25519.X25519(ephPriv, curve25519.Basepoint)
	if err != nil {
		return nil, err
	}
	shared, err := curve25519.X25519(ephPriv, recipientPub)
	if err != nil {
		return nil, err
	}
	key, err := encLSKey(shared)
	if err != nil {
		return nil, err
	}
	aead, err := chacha20poly1305.New(key)
	if err != nil {
		return nil, err
	}
	out := append(append([]byte{}, ephPub...), nonce...)
	return aead.Seal(out, nonce, plaintext, nil), nil
}

// DecryptInner is the reference decryption.
func DecryptInner(blob, recipientPriv []byte) ([]byte, error) {
	if len(blob) < 32+12+16 {
		return nil, errors.New("refmodel: blob too short")
	}
	shared, err := curve25519.X25519(recipientPriv, blob[:32])
	if err != nil {
		return nil, err
	}
	key, err := encLSKey(shared)
	if err != nil {
		return nil, err
	}
	aead, err := chacha20poly1305.New(key)
	if err != nil {
		return nil, err
	}
	return aead.Open(nil, blob[32:44], blob[44:], nil)
}
