package refmodel

import "strings"

// ParseIPv4 accepts exactly dotted-quad decimal, each part 0..255, no leading zeros.
func ParseIPv4(s string) ([4]byte, bool) {
	var out [4]byte
	parts := strings.Split(s, ".")
	if len(parts) != 4 {
		return out, false
	}
	for i, p := range parts {
		if len(p) == 0 || len(p) > 3 {
			return out, false
		}
		if len(p) > 1 && p[0] == '0' {
			return out, false
		}
		v := 0
		for j := 0; j < len(p); j++ {
			if p[j] < '0' || p[j] > '9' {
				return out, false
			}
			v = v*10 + int(p[j]-'0')
		}
		if v > 255 {
			return out, false
		}
		out[i] = byte(v)
	}
	return out, true
}

// ParseIPv6 accepts RFC 4291 textual forms: up to 8 hex groups of 1..4 digits, one "::",
// optional trailing dotted-quad. No zone, no brackets.
func ParseIPv6(s string) ([16]byte, bool) {
	var out [16]byte
	if strings.ContainsAny(s, "%[] \t\r\n") || len(s) < 2 {
		return out, false
	}
	if strings.Count(s, "::") > 1 {
		return out, false
	}
	var head, tail []string
	dbl := strings.Index(s, "::")
	split := func(x string) ([]string, bool) {
		if x == "" {
			return nil, true
		}
		p := strings.Split(x, ":")
		for _, e := range p {
			if e == "" {
				return nil, false
			}
		}
		return p, true
	}
	var ok bool
	if dbl >= 0 {
		if head, ok = split(s[:dbl]); !ok {
			return out, false
		}
		if tail, ok = split(s[dbl+2:]); !ok {
			return out, false
		}
	} else {
		if head, ok = split(s); !ok {
			return out, false
		}
	}
	toBytes := func(groups []string, allowV4 bool) ([]byte, bool) {
		var b []byte
		for i, g := range groups {
			if strings.Contains(g, ".") {
				if !allowV4 || i != len(groups)-1 {
					return nil, false
				}
				v4, ok := ParseIPv4(g)
				if !ok {
					return nil, false
				}
				b = append(b, v4[:]...)
				continue
			}
			if len(g) == 0 || len(g) > 4 {
				return nil, false
			}
			v := 0
			for j := 0; j < len(g); j++ {
				c := g[j]
				switch {
				case c >= '0' && c <= '9':
					v = v*16 + int(c-'0')
				case c >= 'a' && c <= 'f':
					v = v*16 + int(c-'a') + 10
				case c >= 'A' && c <= 'F':
					v = v*16 + int(c-'A') + 10
				default:
					return nil, false
				}
			}
			b = append(b, byte(v>>8), byte(v))
		}
		return b, true
	}
	if dbl >= 0 {
		hb, ok := toBytes(head, false)
		if !ok {
			return out, false
		}
		tb, ok := toBytes(tail, true)
		if !ok {
			return out, false
		}
		if len(hb)+len(tb) > 14 {
			return out, false
		}
		copy(out[:], hb)
		copy(out[16-len(tb):], tb)
		return out, true
	}
	hb, ok := toBytes(head, true)
	if !ok || len(hb) != 16 {
		return out, false
	}
	copy(out[:], hb)
	return out, true
}

// IPLiteral classifies a host string: 4, 6 or 0 (not an IP literal), with the address
// as 16 bytes (IPv4 in the mapped form ::ffff:a.b.c.d).
func IPLiteral(s string) (family int, addr [16]byte) {
	if v4, ok := ParseIPv4(s); ok {
		addr[10], addr[11] = 0xff, 0xff
		copy(addr[12:], v4[:])
		return 4, addr
	}
	if v6, ok := ParseIPv6(s); ok {
		// an IPv4-mapped IPv6 literal denotes an IPv4 address
		mapped := true
		for i := 0; i < 10; i++ {
			if v6[i] != 0 {
				mapped = false
			}
		}
		if mapped && v6[10] == 0xff && v6[11] == 0xff {
			return 4, v6
		}
		return 6, v6
	}
	return 0, addr
}

// PortClass classifies a port string.
//
//	strict: unsigned decimal without leading zeros in 1..65535 -> value
//	lenient: optional single sign and leading zeros removed gives a strict port
//	neither: anything else
func PortClass(s string) (strict bool, lenient bool, value int) {
	dec := func(x string) (int, bool) {
		if len(x) == 0 {
			return 0, false
		}
		v := 0
		for i := 0; i < len(x); i++ {
			if x[i] < '0' || x[i] > '9' {
				return 0, false
			}
			if v < 1<<40 {
				v = v*10 + int(x[i]-'0')
			}
		}
		return v, true
	}
	if v, ok := dec(s); ok && v >= 1 && v <= 65535 && s[0] != '0' {
		return true, true, v
	}
	t := s
	if len(t) > 0 && (t[0] == '+' || t[0] == '-') {
		if t[0] == '-' {
			return false, false, 0
		}
		t = t[1:]
	}
	if v, ok := dec(t); ok && v >= 1 && v <= 65535 {
		return false, true, v
	}
	return false, false, 0
}
