// Package refmodel is the independent oracle: a codec for the I2P 0.9.67 common structures,
// the specification's size tables, signature checks with the Go standard library only,
// bit-level base32/base64 and small grammars. It never imports go-i2p/common.
package refmodel

// Signing types (specification table "SigningPublicKey" / "Signature").
type SigInfo struct {
	Name    string
	PubLen  int
	SigLen  int
	PrivLen int
}

var SigTypes = map[int]SigInfo{
	0:  {"DSA_SHA1", 128, 40, 20},
	1:  {"ECDSA_SHA256_P256", 64, 64, 32},
	2:  {"ECDSA_SHA384_P384", 96, 96, 48},
	3:  {"ECDSA_SHA512_P521", 132, 132, 66},
	4:  {"RSA_SHA256_2048", 256, 256, 512},
	5:  {"RSA_SHA384_3072", 384, 384, 768},
	6:  {"RSA_SHA512_4096", 512, 512, 1024},
	7:  {"EdDSA_SHA512_Ed25519", 32, 64, 32},
	8:  {"EdDSA_SHA512_Ed25519ph", 32, 64, 32},
	11: {"RedDSA_SHA512_Ed25519", 32, 64, 32},
}

// Crypto (encryption) public key types (specification table "PublicKey").
var CryptoTypes = map[int]int{
	0: 256, // ElGamal
	1: 64,  // P256 (reserved)
	2: 96,  // P384 (reserved)
	3: 132, // P521 (reserved)
	4: 32,  // X25519
	5: 32,  // MLKEM512_X25519
	6: 32,  // MLKEM768_X25519
	7: 32,  // MLKEM1024_X25519
}

func SigPubLen(t int) (int, bool) { i, ok := SigTypes[t]; return i.PubLen, ok }
func SigLen(t int) (int, bool)    { i, ok := SigTypes[t]; return i.SigLen, ok }
func CryptoLen(t int) (int, bool) { n, ok := CryptoTypes[t]; return n, ok }

// Key types that must never appear in a Destination / RouterIdentity.
func ProhibitedInDestination(sig, crypto int) bool {
	switch crypto {
	case 5, 6, 7:
		return true
	}
	switch sig {
	case 4, 5, 6, 8:
		return true
	}
	return false
}

func ProhibitedInRouterIdentity(sig, crypto int) bool {
	return ProhibitedInDestination(sig, crypto) || sig == 11
}

// SupportedSig / SupportedCrypto: the types for which a key fits the 384-byte block and
// the library documents an implementation (P521/RSA do not fit the 128-byte signing field;
// P256/P384/P521 encryption keys are reserved and unimplemented).
func SupportedSig(t int) bool {
	switch t {
	case 0, 1, 2, 7, 8, 11:
		return true
	}
	return false
}

func SupportedCrypto(t int) bool {
	switch t {
	case 0, 4, 5, 6, 7:
		return true
	}
	return false
}

var DestSigTypes = []int{0, 1, 2, 7, 11}
var RouterSigTypes = []int{0, 1, 2, 7}
var IdentCryptoTypes = []int{0, 4}
var KACSigTypes = []int{0, 1, 2, 7, 8, 11}
var KACCryptoTypes = []int{0, 4, 5, 6, 7}

const (
	CertNull     = 0
	CertHashcash = 1
	CertHidden   = 2
	CertSigned   = 3
	CertMultiple = 4
	CertKey      = 5
)

const (
	StoreLeaseSet2    = 3
	StoreEncryptedLS  = 5
	StoreMetaLeaseSet = 7
)
