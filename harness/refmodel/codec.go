package refmodel

import (
	"encoding/binary"
	"errors"
	"fmt"
)

var ErrShort = errors.New("refmodel: input shorter than the structure's declared extent")

func u16(v int) []byte    { return []byte{byte(v >> 8), byte(v)} }
func u32(v uint32) []byte { b := make([]byte, 4); binary.BigEndian.PutUint32(b, v); return b }
func u64(v uint64) []byte { b := make([]byte, 8); binary.BigEndian.PutUint64(b, v); return b }

// ---------------------------------------------------------------- Certificate

type Cert struct {
	Type    byte   `json:"type"`
	Payload []byte `json:"payload"`
}

func (c Cert) Encode() []byte {
	b := []byte{c.Type}
	b = append(b, u16(len(c.Payload))...)
	return append(b, c.Payload...)
}

func DecodeCert(b []byte) (Cert, int, error) {
	if len(b) < 3 {
		return Cert{}, 0, ErrShort
	}
	n := int(binary.BigEndian.Uint16(b[1:3]))
	if len(b) < 3+n {
		return Cert{}, 0, ErrShort
	}
	return Cert{Type: b[0], Payload: append([]byte(nil), b[3:3+n]...)}, 3 + n, nil
}

// KeyTypes returns the (signing, crypto) types a certificate declares: the KEY
// certificate's first four payload bytes, (0,0) for every other certificate type.
func (c Cert) KeyTypes() (sig, crypto int, isKey bool, ok bool) {
	if c.Type != CertKey {
		return 0, 0, false, true
	}
	if len(c.Payload) < 4 {
		return 0, 0, true, false
	}
	return int(binary.BigEndian.Uint16(c.Payload[0:2])), int(binary.BigEndian.Uint16(c.Payload[2:4])), true, true
}

func KeyCert(sig, crypto int, extra []byte) Cert {
	p := append(u16(sig), u16(crypto)...)
	return Cert{Type: CertKey, Payload: append(p, extra...)}
}

// ---------------------------------------------------------------- KeysAndCert

type KAC struct {
	Block [384]byte `json:"-"`
	Cert  Cert      `json:"cert"`
}

func (k KAC) Encode() []byte {
	return append(append([]byte(nil), k.Block[:]...), k.Cert.Encode()...)
}

func DecodeKAC(b []byte) (KAC, int, error) {
	if len(b) < 387 {
		return KAC{}, 0, ErrShort
	}
	var k KAC
	copy(k.Block[:], b[:384])
	c, n, err := DecodeCert(b[384:])
	if err != nil {
		return KAC{}, 0, err
	}
	k.Cert = c
	return k, 384 + n, nil
}

func (k KAC) Types() (sig, crypto int) {
	s, c, _, _ := k.Cert.KeyTypes()
	return s, c
}

// Layout per specification: crypto key at the start of the 256-byte field, signing key
// right-aligned at the end of the 384-byte block, padding between.
func (k KAC) CryptoKey() []byte {
	_, c := k.Types()
	n, ok := CryptoLen(c)
	if !ok || n > 256 {
		return nil
	}
	return append([]byte(nil), k.Block[:n]...)
}

func (k KAC) SigningKey() []byte {
	s, _ := k.Types()
	n, ok := SigPubLen(s)
	if !ok || n > 128 {
		return nil
	}
	return append([]byte(nil), k.Block[384-n:]...)
}

func (k KAC) Padding() []byte {
	s, c := k.Types()
	cn, ok1 := CryptoLen(c)
	sn, ok2 := SigPubLen(s)
	if !ok1 || !ok2 || cn > 256 || sn > 128 {
		return nil
	}
	return append([]byte(nil), k.Block[cn:384-sn]...)
}

// ---------------------------------------------------------------- Mapping

type Pair struct {
	K []byte `json:"k"`
	V []byte `json:"v"`
}

// Mapping is the ordered list of pairs. Raw, when non-nil, is a body that does not
// parse as a sequence of pairs (only produced by DecodeMapping for malformed bodies).
type Mapping struct {
	Pairs []Pair `json:"pairs"`
	Raw   []byte `json:"raw,omitempty"`
}

func (m Mapping) Body() []byte {
	if m.Raw != nil {
		return m.Raw
	}
	var b []byte
	for _, p := range m.Pairs {
		b = append(b, byte(len(p.K)))
		b = append(b, p.K...)
		b = append(b, '=')
		b = append(b, byte(len(p.V)))
		b = append(b, p.V...)
		b = append(b, ';')
	}
	return b
}

func (m Mapping) Encode() []byte {
	body := m.Body()
	return append(u16(len(body)), body...)
}

// DecodeMapping is framing-exact: extent = 2 + declared size. WellFormed reports whether
// the body is exactly a sequence of key=value; pairs.
func DecodeMapping(b []byte) (m Mapping, n int, wellFormed bool, err error) {
	if len(b) < 2 {
		return Mapping{}, 0, false, ErrShort
	}
	size := int(binary.BigEndian.Uint16(b))
	if len(b) < 2+size {
		return Mapping{}, 0, false, ErrShort
	}
	body := b[2 : 2+size]
	pairs, ok := parsePairs(body)
	if !ok {
		return Mapping{Raw: append([]byte{}, body...)}, 2 + size, false, nil
	}
	return Mapping{Pairs: pairs}, 2 + size, true, nil
}

func parsePairs(body []byte) ([]Pair, bool) {
	var out []Pair
	for len(body) > 0 {
		kl := int(body[0])
		if len(body) < 1+kl+1 {
			return nil, false
		}
		k := body[1 : 1+kl]
		if body[1+kl] != '=' {
			return nil, false
		}
		body = body[1+kl+1:]
		if len(body) < 1 {
			return nil, false
		}
		vl := int(body[0])
		if len(body) < 1+vl+1 {
			return nil, false
		}
		v := body[1 : 1+vl]
		if body[1+vl] != ';' {
			return nil, false
		}
		body = body[1+vl+1:]
		out = append(out, Pair{append([]byte{}, k...), append([]byte{}, v...)})
	}
	return out, true
}

func (m Mapping) HasDuplicateKeys() bool {
	seen := map[string]bool{}
	for _, p := range m.Pairs {
		if seen[string(p.K)] {
			return true
		}
		seen[string(p.K)] = true
	}
	return false
}

func (m Mapping) Sorted() bool {
	for i := 1; i < len(m.Pairs); i++ {
		if string(m.Pairs[i-1].K) > string(m.Pairs[i].K) {
			return false
		}
	}
	return true
}

// ---------------------------------------------------------------- RouterAddress

type RouterAddress struct {
	Cost       byte    `json:"cost"`
	Expiration [8]byte `json:"expiration"`
	Style      []byte  `json:"style"`
	Options    Mapping `json:"options"`
}

func (a RouterAddress) Encode() []byte {
	b := []byte{a.Cost}
	b = append(b, a.Expiration[:]...)
	b = append(b, byte(len(a.Style)))
	b = append(b, a.Style...)
	return append(b, a.Options.Encode()...)
}

func DecodeRouterAddress(b []byte) (RouterAddress, int, bool, error) {
	var a RouterAddress
	if len(b) < 10 {
		return a, 0, false, ErrShort
	}
	a.Cost = b[0]
	copy(a.Expiration[:], b[1:9])
	sl := int(b[9])
	if len(b) < 10+sl {
		return a, 0, false, ErrShort
	}
	a.Style = append([]byte{}, b[10:10+sl]...)
	m, n, wf, err := DecodeMapping(b[10+sl:])
	if err != nil {
		return a, 0, false, err
	}
	a.Options = m
	return a, 10 + sl + n, wf, nil
}

// ---------------------------------------------------------------- RouterInfo

type RouterInfo struct {
	Ident     KAC             `json:"ident"`
	Published uint64          `json:"published"`
	Addrs     []RouterAddress `json:"addrs"`
	PeerSize  byte            `json:"peer_size"`
	// PeerHashes is emitted verbatim after peer_size. The specification calls the field "unused,
	// always zero", so generated well-formed values leave this empty; hostile inputs set it.
	PeerHashes []byte  `json:"peer_hashes,omitempty"`
	Options    Mapping `json:"options"`
	Sig        []byte  `json:"sig"`
}

func (r RouterInfo) EncodeUnsigned() []byte {
	b := r.Ident.Encode()
	b = append(b, u64(r.Published)...)
	b = append(b, byte(len(r.Addrs)))
	for _, a := range r.Addrs {
		b = append(b, a.Encode()...)
	}
	b = append(b, r.PeerSize)
	b = append(b, r.PeerHashes...)
	return append(b, r.Options.Encode()...)
}

func (r RouterInfo) Encode() []byte { return append(r.EncodeUnsigned(), r.Sig...) }

// identSigLen: signature length implied by an identity (40 for non-KEY certificates).
func identSigType(k KAC) int {
	s, _, isKey, ok := k.Cert.KeyTypes()
	if !isKey || !ok {
		return 0
	}
	return s
}

func DecodeRouterInfo(b []byte) (r RouterInfo, n int, wellFormed bool, err error) {
	k, off, err := DecodeKAC(b)
	if err != nil {
		return r, 0, false, err
	}
	r.Ident = k
	if len(b) < off+9 {
		return r, 0, false, ErrShort
	}
	r.Published = binary.BigEndian.Uint64(b[off:])
	cnt := int(b[off+8])
	off += 9
	wellFormed = true
	for i := 0; i < cnt; i++ {
		a, an, wf, err := DecodeRouterAddress(b[off:])
		if err != nil {
			return r, 0, false, err
		}
		wellFormed = wellFormed && wf
		r.Addrs = append(r.Addrs, a)
		off += an
	}
	if len(b) < off+1 {
		return r, 0, false, ErrShort
	}
	r.PeerSize = b[off]
	off++
	if r.PeerSize != 0 {
		// The specification says peer_size is "unused, always zero". What follows a non-zero
		// count is not judged: the model, like the library, does not skip peer hashes, and
		// marks the encoding as not well-formed.
		wellFormed = false
	}
	m, mn, wf, err := DecodeMapping(b[off:])
	if err != nil {
		return r, 0, false, err
	}
	wellFormed = wellFormed && wf
	r.Options = m
	off += mn
	sl, ok := SigLen(identSigType(k))
	if !ok {
		return r, 0, false, fmt.Errorf("refmodel: unknown signature type %d", identSigType(k))
	}
	if len(b) < off+sl {
		return r, 0, false, ErrShort
	}
	r.Sig = append([]byte{}, b[off:off+sl]...)
	return r, off + sl, wellFormed, nil
}

// ---------------------------------------------------------------- Lease / Lease2

type Lease struct {
	GW       [32]byte `json:"gw"`
	TunnelID uint32   `json:"tunnel"`
	EndMs    uint64   `json:"end_ms"`
}

func (l Lease) Encode() []byte {
	b := append([]byte{}, l.GW[:]...)
	b = append(b, u32(l.TunnelID)...)
	return append(b, u64(l.EndMs)...)
}

func DecodeLease(b []byte) (Lease, int, error) {
	var l Lease
	if len(b) < 44 {
		return l, 0, ErrShort
	}
	copy(l.GW[:], b)
	l.TunnelID = binary.BigEndian.Uint32(b[32:])
	l.EndMs = binary.BigEndian.Uint64(b[36:])
	return l, 44, nil
}

type Lease2 struct {
	GW       [32]byte `json:"gw"`
	TunnelID uint32   `json:"tunnel"`
	EndS     uint32   `json:"end_s"`
}

func (l Lease2) Encode() []byte {
	b := append([]byte{}, l.GW[:]...)
	b = append(b, u32(l.TunnelID)...)
	return append(b, u32(l.EndS)...)
}

func DecodeLease2(b []byte) (Lease2, int, error) {
	var l Lease2
	if len(b) < 40 {
		return l, 0, ErrShort
	}
	copy(l.GW[:], b)
	l.TunnelID = binary.BigEndian.Uint32(b[32:])
	l.EndS = binary.BigEndian.Uint32(b[36:])
	return l, 40, nil
}

// ---------------------------------------------------------------- LeaseSet

type LeaseSet struct {
	Dest       KAC     `json:"dest"`
	EncKey     []byte  `json:"enc_key"`     // 256
	SigningKey []byte  `json:"signing_key"` // per destination sig type
	Leases     []Lease `json:"leases"`
	Sig        []byte  `json:"sig"`
}

func (l LeaseSet) EncodeUnsigned() []byte {
	b := l.Dest.Encode()
	b = append(b, l.EncKey...)
	b = append(b, l.SigningKey...)
	b = append(b, byte(len(l.Leases)))
	for _, x := range l.Leases {
		b = append(b, x.Encode()...)
	}
	return b
}
func (l LeaseSet) Encode() []byte { return append(l.EncodeUnsigned(), l.Sig...) }

func DecodeLeaseSet(b []byte) (l LeaseSet, n int, err error) {
	k, off, err := DecodeKAC(b)
	if err != nil {
		return l, 0, err
	}
	l.Dest = k
	st := identSigType(k)
	pl, ok := SigPubLen(st)
	sl, ok2 := SigLen(st)
	if !ok || !ok2 {
		return l, 0, fmt.Errorf("refmodel: unknown signature type %d", st)
	}
	if len(b) < off+256+pl+1 {
		return l, 0, ErrShort
	}
	l.EncKey = append([]byte{}, b[off:off+256]...)
	off += 256
	l.SigningKey = append([]byte{}, b[off:off+pl]...)
	off += pl
	cnt := int(b[off])
	off++
	for i := 0; i < cnt; i++ {
		x, xn, err := DecodeLease(b[off:])
		if err != nil {
			return l, 0, err
		}
		l.Leases = append(l.Leases, x)
		off += xn
	}
	if len(b) < off+sl {
		return l, 0, ErrShort
	}
	l.Sig = append([]byte{}, b[off:off+sl]...)
	return l, off + sl, nil
}

// ---------------------------------------------------------------- OfflineSignature

type Offline struct {
	Expires      uint32 `json:"expires"`
	SigType      uint16 `json:"sigtype"`
	TransientKey []byte `json:"transient_key"`
	Sig          []byte `json:"sig"`
}

func (o Offline) SignedPart() []byte {
	b := u32(o.Expires)
	b = append(b, u16(int(o.SigType))...)
	return append(b, o.TransientKey...)
}
func (o Offline) Encode() []byte { return append(o.SignedPart(), o.Sig...) }

// DecodeOffline needs the signature type of the key that signed the block.
func DecodeOffline(b []byte, destSigType int) (Offline, int, error) {
	var o Offline
	if len(b) < 6 {
		return o, 0, ErrShort
	}
	o.Expires = binary.BigEndian.Uint32(b)
	o.SigType = binary.BigEndian.Uint16(b[4:])
	kl, ok := SigPubLen(int(o.SigType))
	if !ok {
		return o, 0, fmt.Errorf("refmodel: unknown transient key type %d", o.SigType)
	}
	sl, ok := SigLen(destSigType)
	if !ok {
		return o, 0, fmt.Errorf("refmodel: unknown destination signature type %d", destSigType)
	}
	if len(b) < 6+kl+sl {
		return o, 0, ErrShort
	}
	o.TransientKey = append([]byte{}, b[6:6+kl]...)
	o.Sig = append([]byte{}, b[6+kl:6+kl+sl]...)
	return o, 6 + kl + sl, nil
}

// ---------------------------------------------------------------- LeaseSet2

type EncKey struct {
	Type uint16 `json:"type"`
	Data []byte `json:"data"`
}

type LeaseSet2 struct {
	Dest      KAC      `json:"dest"`
	Published uint32   `json:"published"`
	Expires   uint16   `json:"expires"`
	Flags     uint16   `json:"flags"`
	Offline   *Offline `json:"offline,omitempty"`
	Options   Mapping  `json:"options"`
	Keys      []EncKey `json:"keys"`
	Leases    []Lease2 `json:"leases"`
	Sig       []byte   `json:"sig"`
}

func header(dest KAC, published uint32, expires, flags uint16, off *Offline) []byte {
	b := dest.Encode()
	b = append(b, u32(published)...)
	b = append(b, u16(int(expires))...)
	b = append(b, u16(int(flags))...)
	if off != nil {
		b = append(b, off.Encode()...)
	}
	return b
}

func (l LeaseSet2) EncodeUnsigned() []byte {
	b := header(l.Dest, l.Published, l.Expires, l.Flags, l.Offline)
	b = append(b, l.Options.Encode()...)
	b = append(b, byte(len(l.Keys)))
	for _, k := range l.Keys {
		b = append(b, u16(int(k.Type))...)
		b = append(b, u16(len(k.Data))...)
		b = append(b, k.Data...)
	}
	b = append(b, byte(len(l.Leases)))
	for _, x := range l.Leases {
		b = append(b, x.Encode()...)
	}
	return b
}
func (l LeaseSet2) Encode() []byte { return append(l.EncodeUnsigned(), l.Sig...) }

// SigTypeInUse: the transient key's type when an offline block is present.
func sigTypeInUse(destSig int, off *Offline) int {
	if off != nil {
		return int(off.SigType)
	}
	return destSig
}

func decodeHeader(b []byte) (dest KAC, published uint32, expires, flags uint16, off *Offline, n int, err error) {
	dest, n, err = DecodeKAC(b)
	if err != nil {
		return
	}
	if len(b) < n+8 {
		err = ErrShort
		return
	}
	published = binary.BigEndian.Uint32(b[n:])
	expires = binary.BigEndian.Uint16(b[n+4:])
	flags = binary.BigEndian.Uint16(b[n+6:])
	n += 8
	if flags&1 != 0 {
		o, on, e := DecodeOffline(b[n:], identSigType(dest))
		if e != nil {
			err = e
			return
		}
		off = &o
		n += on
	}
	return
}

func DecodeLeaseSet2(b []byte) (l LeaseSet2, n int, wellFormed bool, err error) {
	l.Dest, l.Published, l.Expires, l.Flags, l.Offline, n, err = decodeHeader(b)
	if err != nil {
		return l, 0, false, err
	}
	m, mn, wf, err := DecodeMapping(b[n:])
	if err != nil {
		return l, 0, false, err
	}
	l.Options, wellFormed = m, wf
	n += mn
	if len(b) < n+1 {
		return l, 0, false, ErrShort
	}
	nk := int(b[n])
	n++
	for i := 0; i < nk; i++ {
		if len(b) < n+4 {
			return l, 0, false, ErrShort
		}
		t := binary.BigEndian.Uint16(b[n:])
		kl := int(binary.BigEndian.Uint16(b[n+2:]))
		n += 4
		if len(b) < n+kl {
			return l, 0, false, ErrShort
		}
		l.Keys = append(l.Keys, EncKey{t, append([]byte{}, b[n:n+kl]...)})
		n += kl
	}
	if len(b) < n+1 {
		return l, 0, false, ErrShort
	}
	nl := int(b[n])
	n++
	for i := 0; i < nl; i++ {
		x, xn, err := DecodeLease2(b[n:])
		if err != nil {
			return l, 0, false, err
		}
		l.Leases = append(l.Leases, x)
		n += xn
	}
	sl, ok := SigLen(sigTypeInUse(identSigType(l.Dest), l.Offline))
	if !ok {
		return l, 0, false, fmt.Errorf("refmodel: unknown signature type")
	}
	if len(b) < n+sl {
		return l, 0, false, ErrShort
	}
	l.Sig = append([]byte{}, b[n:n+sl]...)
	return l, n + sl, wellFormed, nil
}

// ---------------------------------------------------------------- MetaLeaseSet

type MetaEntry struct {
	Hash    [32]byte `json:"hash"`
	Type    byte     `json:"type"`
	Expires uint32   `json:"expires"`
	Cost    byte     `json:"cost"`
	Props   Mapping  `json:"props"`
}

func (e MetaEntry) Encode() []byte {
	b := append([]byte{}, e.Hash[:]...)
	b = append(b, e.Type)
	b = append(b, u32(e.Expires)...)
	b = append(b, e.Cost)
	return append(b, e.Props.Encode()...)
}

type MetaLeaseSet struct {
	Dest      KAC         `json:"dest"`
	Published uint32      `json:"published"`
	Expires   uint16      `json:"expires"`
	Flags     uint16      `json:"flags"`
	Offline   *Offline    `json:"offline,omitempty"`
	Options   Mapping     `json:"options"`
	Entries   []MetaEntry `json:"entries"`
	Sig       []byte      `json:"sig"`
}

func (l MetaLeaseSet) EncodeUnsigned() []byte {
	b := header(l.Dest, l.Published, l.Expires, l.Flags, l.Offline)
	b = append(b, l.Options.Encode()...)
	b = append(b, byte(len(l.Entries)))
	for _, e := range l.Entries {
		b = append(b, e.Encode()...)
	}
	return b
}
func (l MetaLeaseSet) Encode() []byte { return append(l.EncodeUnsigned(), l.Sig...) }

func DecodeMetaLeaseSet(b []byte) (l MetaLeaseSet, n int, wellFormed bool, err error) {
	l.Dest, l.Published, l.Expires, l.Flags, l.Offline, n, err = decodeHeader(b)
	if err != nil {
		return l, 0, false, err
	}
	m, mn, wf, err := DecodeMapping(b[n:])
	if err != nil {
		return l, 0, false, err
	}
	l.Options, wellFormed = m, wf
	n += mn
	if len(b) < n+1 {
		return l, 0, false, ErrShort
	}
	ne := int(b[n])
	n++
	for i := 0; i < ne; i++ {
		if len(b) < n+38 {
			return l, 0, false, ErrShort
		}
		var e MetaEntry
		copy(e.Hash[:], b[n:])
		e.Type = b[n+32]
		e.Expires = binary.BigEndian.Uint32(b[n+33:])
		e.Cost = b[n+37]
		n += 38
		pm, pn, pwf, err := DecodeMapping(b[n:])
		if err != nil {
			return l, 0, false, err
		}
		e.Props = pm
		wellFormed = wellFormed && pwf
		n += pn
		l.Entries = append(l.Entries, e)
	}
	sl, ok := SigLen(sigTypeInUse(identSigType(l.Dest), l.Offline))
	if !ok {
		return l, 0, false, fmt.Errorf("refmodel: unknown signature type")
	}
	if len(b) < n+sl {
		return l, 0, false, ErrShort
	}
	l.Sig = append([]byte{}, b[n:n+sl]...)
	return l, n + sl, wellFormed, nil
}

// ---------------------------------------------------------------- EncryptedLeaseSet

type EncryptedLeaseSet struct {
	SigType    uint16   `json:"sigtype"`
	BlindedKey []byte   `json:"blinded_key"`
	Published  uint32   `json:"published"`
	Expires    uint16   `json:"expires"`
	Flags      uint16   `json:"flags"`
	Offline    *Offline `json:"offline,omitempty"`
	Inner      []byte   `json:"inner"`
	Sig        []byte   `json:"sig"`
}

func (l EncryptedLeaseSet) EncodeUnsigned() []byte {
	b := u16(int(l.SigType))
	b = append(b, l.BlindedKey...)
	b = append(b, u32(l.Published)...)
	b = append(b, u16(int(l.Expires))...)
	b = append(b, u16(int(l.Flags))...)
	if l.Offline != nil {
		b = append(b, l.Offline.Encode()...)
	}
	b = append(b, u16(len(l.Inner))...)
	return append(b, l.Inner...)
}
func (l EncryptedLeaseSet) Encode() []byte { return append(l.EncodeUnsigned(), l.Sig...) }

func DecodeEncryptedLeaseSet(b []byte) (l EncryptedLeaseSet, n int, err error) {
	if len(b) < 2 {
		return l, 0, ErrShort
	}
	l.SigType = binary.BigEndian.Uint16(b)
	kl, ok := SigPubLen(int(l.SigType))
	if !ok {
		return l, 0, fmt.Errorf("refmodel: unknown signature type %d", l.SigType)
	}
	n = 2
	if len(b) < n+kl+8 {
		return l, 0, ErrShort
	}
	l.BlindedKey = append([]byte{}, b[n:n+kl]...)
	n += kl
	l.Published = binary.BigEndian.Uint32(b[n:])
	l.Expires = binary.BigEndian.Uint16(b[n+4:])
	l.Flags = binary.BigEndian.Uint16(b[n+6:])
	n += 8
	if l.Flags&1 != 0 {
		o, on, e := DecodeOffline(b[n:], int(l.SigType))
		if e != nil {
			return l, 0, e
		}
		l.Offline = &o
		n += on
	}
	if len(b) < n+2 {
		return l, 0, ErrShort
	}
	il := int(binary.BigEndian.Uint16(b[n:]))
	n += 2
	if len(b) < n+il {
		return l, 0, ErrShort
	}
	l.Inner = append([]byte{}, b[n:n+il]...)
	n += il
	sl, ok := SigLen(sigTypeInUse(int(l.SigType), l.Offline))
	if !ok {
		return l, 0, fmt.Errorf("refmodel: unknown signature type")
	}
	if len(b) < n+sl {
		return l, 0, ErrShort
	}
	l.Sig = append([]byte{}, b[n:n+sl]...)
	return l, n + sl, nil
}
