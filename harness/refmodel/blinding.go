package refmodel

import (
	"crypto/sha256"
	"errors"
	"io"
	"time"

	"filippo.io/edwards25519"
	"golang.org/x/crypto/hkdf"
)

// Reference blinding as this library documents it: alpha = reduce(HKDF-SHA256(ikm = secret,
// salt = "YYYY-MM-DD" (UTC), info = "i2p-blinding-factor", 64 bytes)); blinded = P + alpha*B.

func BlindingDate(t time.Time) string { return t.UTC().Format("2006-01-02") }

func BlindingFactor(secret []byte, date string) ([32]byte, error) {
	var out [32]byte
	if len(secret) < 32 {
		return out, errors.New("refmodel: secret shorter than 32 bytes")
	}
	buf := make([]byte, 64)
	if _, err := io.ReadFull(hkdf.New(sha256.New, secret, []byte(date), []byte("i2p-blinding-factor")), buf); err != nil {
		return out, err
	}
	s, err := (&edwards25519.Scalar{}).SetUniformBytes(buf)
	if err != nil {
		return out, err
	}
	copy(out[:], s.Bytes())
	return out, nil
}

func BlindKey(pub []byte, alpha [32]byte) ([]byte, error) {
	p, err := (&edwards25519.Point{}).SetBytes(pub)
	if err != nil {
		return nil, err
	}
	a, err := (&edwards25519.Scalar{}).SetCanonicalBytes(alpha[:])
	if err != nil {
		return nil, err
	}
	ab := (&edwards25519.Point{}).ScalarBaseMult(a)
	return (&edwards25519.Point{}).Add(p, ab).Bytes(), nil
}
