package refmodel

import (
	"crypto"
	"crypto/dsa"
	"crypto/ecdsa"
	"crypto/ed25519"
	"crypto/elliptic"
	"crypto/sha1"
	"crypto/sha256"
	"crypto/sha512"
	"fmt"
	"io"
	"math/big"
)

// I2P DSA group (specification, "DSA_SHA1" / cryptography page).
var dsaP, _ = new(big.Int).SetString("9c05b2aa960d9b97b8931963c9cc9e8c3026e9b8ed92fad0a69cc886d5bf8015fcadae31a0ad18fab3f01b00a358de237655c4964afaa2b337e96ad316b9fb1cc564b5aec5b69a9ff6c3e4548707fef8503d91dd8602e867e6d35d2235c1869ce2479c3b9d5401de04e0727fb33d6511285d4cf29538d9e3b6051f5b22cc1c93", 16)
var dsaQ, _ = new(big.Int).SetString("a5dfc28fef4ca1e286744cd8eed9d29d684046b7", 16)
var dsaG, _ = new(big.Int).SetString("0c1f4d27d40093b429e962d7223824e0bbc47e7c832a39236fc683af84889581075ff9082ed32353d4374d7301cda1d23c431f4698599dda02451824ff369752593647cc3ddc197de985e43d136cdcfc6bd5409cd2f450821142a5e6f8eb1c3ab5d0484b8129fcf17bce4f7f33321c3cb3dbb14a905e7b2b3e93be4708cbcc82", 16)

func DSAParams() dsa.Parameters { return dsa.Parameters{P: dsaP, Q: dsaQ, G: dsaG} }

// SigKey is a signing key pair for one of the verifiable signature types.
type SigKey struct {
	Type int
	Pub  []byte // wire format public key
	ed   ed25519.PrivateKey
	ec   *ecdsa.PrivateKey
	ds   *dsa.PrivateKey
}

func pad(b []byte, n int) []byte {
	if len(b) >= n {
		return b[len(b)-n:]
	}
	out := make([]byte, n)
	copy(out[n-len(b):], b)
	return out
}

// NewSigKey derives a key pair deterministically from the reader.
func NewSigKey(t int, r io.Reader) (*SigKey, error) {
	switch t {
	case 7, 8, 11:
		seed := make([]byte, 32)
		io.ReadFull(r, seed)
		k := ed25519.NewKeyFromSeed(seed)
		return &SigKey{Type: t, Pub: append([]byte{}, k[32:]...), ed: k}, nil
	case 0:
		for {
			xb := make([]byte, 20)
			io.ReadFull(r, xb)
			x := new(big.Int).SetBytes(xb)
			if x.Sign() == 0 || x.Cmp(dsaQ) >= 0 {
				continue
			}
			y := new(big.Int).Exp(dsaG, x, dsaP)
			if y.Cmp(big.NewInt(1)) <= 0 {
				continue
			}
			k := &dsa.PrivateKey{PublicKey: dsa.PublicKey{Parameters: DSAParams(), Y: y}, X: x}
			return &SigKey{Type: 0, Pub: pad(y.Bytes(), 128), ds: k}, nil
		}
	case 1, 2:
		c := elliptic.P256()
		n := 32
		if t == 2 {
			c, n = elliptic.P384(), 48
		}
		for {
			db := make([]byte, n)
			io.ReadFull(r, db)
			d := new(big.Int).SetBytes(db)
			if d.Sign() == 0 || d.Cmp(c.Params().N) >= 0 {
				continue
			}
			x, y := c.ScalarBaseMult(db)
			k := &ecdsa.PrivateKey{PublicKey: ecdsa.PublicKey{Curve: c, X: x, Y: y}, D: d}
			return &SigKey{Type: t, Pub: append(pad(x.Bytes(), n), pad(y.Bytes(), n)...), ec: k}, nil
		}
	}
	return nil, fmt.Errorf("refmodel: cannot generate key of type %d", t)
}

func (k *SigKey) Ed25519Private() ed25519.PrivateKey { return k.ed }
func (k *SigKey) DSAPrivate() []byte {
	if k.ds == nil {
		return nil
	}
	return pad(k.ds.X.Bytes(), 20)
}
func (k *SigKey) ECPrivate() []byte {
	if k.ec == nil {
		return nil
	}
	return pad(k.ec.D.Bytes(), (k.ec.Curve.Params().BitSize+7)/8)
}

// Sign produces a wire-format signature. r supplies nonces for DSA / ECDSA.
func (k *SigKey) Sign(msg []byte, r io.Reader) ([]byte, error) {
	switch k.Type {
	case 7, 11:
		return ed25519.Sign(k.ed, msg), nil
	case 8:
		h := sha512.Sum512(msg)
		return k.ed.Sign(nil, h[:], &ed25519.Options{Hash: crypto.SHA512})
	case 0:
		h := sha1.Sum(msg)
		rr, ss, err := dsa.Sign(r, k.ds, h[:])
		if err != nil {
			return nil, err
		}
		return append(pad(rr.Bytes(), 20), pad(ss.Bytes(), 20)...), nil
	case 1:
		h := sha256.Sum256(msg)
		rr, ss, err := ecdsa.Sign(r, k.ec, h[:])
		if err != nil {
			return nil, err
		}
		return append(pad(rr.Bytes(), 32), pad(ss.Bytes(), 32)...), nil
	case 2:
		h := sha512.Sum384(msg)
		rr, ss, err := ecdsa.Sign(r, k.ec, h[:])
		if err != nil {
			return nil, err
		}
		return append(pad(rr.Bytes(), 48), pad(ss.Bytes(), 48)...), nil
	}
	return nil, fmt.Errorf("refmodel: cannot sign with type %d", k.Type)
}

// Verify checks a wire-format signature of the given type with the standard library.
// ok=false means "not valid"; supported=false means the reference has no verifier for the type.
func Verify(sigType int, pub, msg, sig []byte) (ok bool, supported bool) {
	info, known := SigTypes[sigType]
	if !known || len(pub) != info.PubLen || len(sig) != info.SigLen {
		return false, known && (sigType == 0 || sigType == 1 || sigType == 2 || sigType == 7 || sigType == 8 || sigType == 11)
	}
	switch sigType {
	case 7, 11:
		return ed25519.Verify(ed25519.PublicKey(pub), msg, sig), true
	case 8:
		h := sha512.Sum512(msg)
		return ed25519.VerifyWithOptions(ed25519.PublicKey(pub), h[:], sig, &ed25519.Options{Hash: crypto.SHA512}) == nil, true
	case 0:
		y := new(big.Int).SetBytes(pub)
		if y.Sign() <= 0 || y.Cmp(dsaP) >= 0 {
			return false, true
		}
		h := sha1.Sum(msg)
		return dsa.Verify(&dsa.PublicKey{Parameters: DSAParams(), Y: y}, h[:], new(big.Int).SetBytes(sig[:20]), new(big.Int).SetBytes(sig[20:])), true
	case 1, 2:
		c, n := elliptic.P256(), 32
		var h []byte
		if sigType == 2 {
			c, n = elliptic.P384(), 48
			s := sha512.Sum384(msg)
			h = s[:]
		} else {
			s := sha256.Sum256(msg)
			h = s[:]
		}
		x, y := new(big.Int).SetBytes(pub[:n]), new(big.Int).SetBytes(pub[n:])
		if !c.IsOnCurve(x, y) {
			return false, true
		}
		return ecdsa.Verify(&ecdsa.PublicKey{Curve: c, X: x, Y: y}, h, new(big.Int).SetBytes(sig[:n]), new(big.Int).SetBytes(sig[n:])), true
	}
	return false, false
}

// ------------------------------------------------------------------ structure-level verification

type VerifyResult struct {
	Valid     bool   // the reference considers the structure authentic
	Supported bool   // the reference can decide (false: signature type it cannot check)
	Reason    string // why not valid
}

func verifyWithOffline(destSigType int, destKey []byte, off *Offline, prefix []byte, unsigned, sig []byte) VerifyResult {
	msg := append(append([]byte{}, prefix...), unsigned...)
	if off == nil {
		ok, sup := Verify(destSigType, destKey, msg, sig)
		if !ok {
			return VerifyResult{false, sup, "signature invalid under identity key"}
		}
		return VerifyResult{true, true, ""}
	}
	ok, sup := Verify(destSigType, destKey, off.SignedPart(), off.Sig)
	if !ok {
		return VerifyResult{false, sup, "offline block not signed by identity key"}
	}
	ok, sup = Verify(int(off.SigType), off.TransientKey, msg, sig)
	if !ok {
		return VerifyResult{false, sup, "signature invalid under transient key"}
	}
	return VerifyResult{true, true, ""}
}

// VerifyRouterInfoBytes: signature over everything before it, under the identity's key, no prefix.
func VerifyRouterInfoBytes(b []byte) (VerifyResult, error) {
	r, n, _, err := DecodeRouterInfo(b)
	if err != nil {
		return VerifyResult{}, err
	}
	st := identSigType(r.Ident)
	sl, _ := SigLen(st)
	return verifyWithOffline(st, r.Ident.SigningKey(), nil, nil, b[:n-sl], r.Sig), nil
}

func VerifyLeaseSetBytes(b []byte) (VerifyResult, error) {
	l, n, err := DecodeLeaseSet(b)
	if err != nil {
		return VerifyResult{}, err
	}
	st := identSigType(l.Dest)
	sl, _ := SigLen(st)
	return verifyWithOffline(st, l.Dest.SigningKey(), nil, nil, b[:n-sl], l.Sig), nil
}

func VerifyLeaseSet2Bytes(b []byte) (VerifyResult, error) {
	l, n, _, err := DecodeLeaseSet2(b)
	if err != nil {
		return VerifyResult{}, err
	}
	st := identSigType(l.Dest)
	return verifyWithOffline(st, l.Dest.SigningKey(), l.Offline, []byte{StoreLeaseSet2}, b[:n-len(l.Sig)], l.Sig), nil
}

func VerifyMetaLeaseSetBytes(b []byte) (VerifyResult, error) {
	l, n, _, err := DecodeMetaLeaseSet(b)
	if err != nil {
		return VerifyResult{}, err
	}
	st := identSigType(l.Dest)
	return verifyWithOffline(st, l.Dest.SigningKey(), l.Offline, []byte{StoreMetaLeaseSet}, b[:n-len(l.Sig)], l.Sig), nil
}

func VerifyEncryptedLeaseSetBytes(b []byte) (VerifyResult, error) {
	l, n, err := DecodeEncryptedLeaseSet(b)
	if err != nil {
		return VerifyResult{}, err
	}
	return verifyWithOffline(int(l.SigType), l.BlindedKey, l.Offline, []byte{StoreEncryptedLS}, b[:n-len(l.Sig)], l.Sig), nil
}

// VerifyOffline: the offline block alone, under the given identity key.
func VerifyOffline(o Offline, destSigType int, destKey []byte) VerifyResult {
	ok, sup := Verify(destSigType, destKey, o.SignedPart(), o.Sig)
	if !ok {
		return VerifyResult{false, sup, "offline block not signed by identity key"}
	}
	return VerifyResult{true, true, ""}
}
