// worker runs one shard of one property's monitor.
package main

import (
	"encoding/json"
	"flag"
	"fmt"
	"os"
	"runtime"
	"runtime/debug"

	"verifharness/core"
	"verifharness/mon"
)

func main() {
	prop := flag.String("prop", "", "property id")
	tier := flag.String("tier", "quick", "quick|thorough")
	seed := flag.Int64("seed", 1, "seed")
	shard := flag.Int("shard", 0, "shard index")
	nshards := flag.Int("nshards", 1, "number of shards")
	out := flag.String("out", "", "output directory")
	replayJob := flag.String("replay-job", "", "replay: job name")
	replayIdx := flag.Int64("replay-index", -1, "replay: case index")
	procs := flag.Int("procs", 0, "GOMAXPROCS (0 = default)")
	list := flag.Bool("list", false, "list monitors")
	countDistinct := flag.String("count-distinct", "", "count the distinct 8-byte hashes in the distinct-*.bin files of a directory and exit")
	flag.Parse()
	if *countDistinct != "" {
		n, err := core.CountDistinct(*countDistinct)
		if err != nil {
			fmt.Fprintln(os.Stderr, err)
			os.Exit(3)
		}
		fmt.Println(n)
		return
	}
	if *list {
		for k := range mon.Monitors {
			fmt.Println(k)
		}
		return
	}
	if *procs > 0 {
		runtime.GOMAXPROCS(*procs)
	}
	f, ok := mon.Monitors[*prop]
	if !ok {
		fmt.Fprintf(os.Stderr, "unknown property %q\n", *prop)
		os.Exit(3)
	}
	debug.SetMaxStack(256 << 20)
	if core.FakeTime {
		// the collector's pacing reads the clock, which stands still while code runs under the virtual
		// clock: a collection cycle never finishes. The virtual-clock build runs one small job only.
		debug.SetGCPercent(-1)
	}
	c := core.NewCtx(*prop, *tier, *seed, *shard, *nshards, *out)
	if kp := os.Getenv("VERIF_KNOWN"); kp != "" {
		c.LoadKnown(kp)
	}
	if *prop != "C18" && os.Getenv("VERIF_NOLOCK") == "" {
		// one monitor goroutine, pinned to its thread: per-call CPU accounting (see core.Call)
		runtime.LockOSThread()
		c.CPUGuard = true
	}
	if *replayIdx >= 0 {
		c.Replaying, c.ReplayJob, c.ReplayIndex = true, *replayJob, *replayIdx
	}
	func() {
		// A panic that escapes a monitor (a library call the monitor made outside core.Call) must not
		// turn the shard into an unexplained death: when the panicking frame belongs to the library it
		// is a C04 witness like any other, recorded with its stack; the rest of this shard's cases are
		// not run. A panic raised by the harness itself makes the run inconclusive.
		defer func() {
			if r := recover(); r != nil {
				c.EscapedPanic(r, string(debug.Stack()))
			}
		}()
		f(c)
	}()
	if err := c.Finish(); err != nil {
		fmt.Fprintf(os.Stderr, "finish: %v\n", err)
		os.Exit(3)
	}
	if c.Replaying {
		b, _ := json.MarshalIndent(c.Summary().Violations, "", " ")
		fmt.Println(string(b))
		if c.Summary().ViolCount > 0 {
			os.Exit(1)
		}
	}
}
