// Package core is the shared monitor runtime: deterministic PRNG streams, sharding,
// the crash-surviving pending-call file, panic recovery, per-call watchdog, counters,
// distinct-case accounting, violation records and the shard summary.
package core

import (
	"crypto/sha256"
	"encoding/binary"
	"encoding/hex"
	"encoding/json"
	"fmt"
	"math/rand/v2"
	"os"
	"path/filepath"
	"runtime/debug"
	"sort"
	"strconv"
	"strings"
	"sync"
	"sync/atomic"
	"syscall"
	"time"
	"unsafe"
)

// Rand is a deterministic PRNG stream.
type Rand struct{ *rand.Rand }

// NewRand derives an independent stream from the labels.
func NewRand(seed int64, labels ...any) *Rand {
	h := sha256.New()
	fmt.Fprintf(h, "%d", seed)
	for _, l := range labels {
		fmt.Fprintf(h, "|%v", l)
	}
	var k [32]byte
	copy(k[:], h.Sum(nil))
	return &Rand{rand.New(rand.NewChaCha8(k))}
}

func (r *Rand) Bytes(n int) []byte {
	b := make([]byte, n)
	i := 0
	for ; i+8 <= n; i += 8 {
		binary.LittleEndian.PutUint64(b[i:], r.Uint64())
	}
	if i < n {
		v := r.Uint64()
		for ; i < n; i++ {
			b[i] = byte(v)
			v >>= 8
		}
	}
	return b
}

// Read implements io.Reader so the stream can feed key generation.
func (r *Rand) Read(p []byte) (int, error) {
	copy(p, r.Bytes(len(p)))
	return len(p), nil
}

func (r *Rand) Pick(n int) int {
	if n <= 0 {
		return 0
	}
	return r.IntN(n)
}
func (r *Rand) Chance(num, den int) bool { return r.IntN(den) < num }

// Violation is one refutation of a property.
type Violation struct {
	Property string         `json:"property"`
	Site     string         `json:"site"`   // entry point(s) observed
	Clause   string         `json:"clause"` // which part of the oracle failed
	Shape    map[string]any `json:"shape,omitempty"`
	Job      string         `json:"job"`   // case coordinates for replay
	Index    int64          `json:"index"` //
	Seed     int64          `json:"seed"`
	Tier     string         `json:"tier"`
	Input    string         `json:"input_hex,omitempty"`
	Detail   string         `json:"detail,omitempty"`
	Stack    string         `json:"stack,omitempty"`
}

type OpStat struct {
	Calls    int64 `json:"calls"`
	Accepted int64 `json:"accepted"`
	Rejected int64 `json:"rejected"`
	Panics   int64 `json:"panics"`
}

// Summary is what a shard writes when it finishes.
type Summary struct {
	Property    string             `json:"property"`
	Tier        string             `json:"tier"`
	Seed        int64              `json:"seed"`
	Shard       int                `json:"shard"`
	NShards     int                `json:"nshards"`
	Evaluations int64              `json:"evaluations"`
	Nontrivial  int64              `json:"nontrivial"` // nontrivial evaluations (not yet de-duplicated)
	Ops         map[string]*OpStat `json:"ops"`
	Buckets     map[string]int64   `json:"buckets"`
	Samples     []any              `json:"samples"`
	Violations  []Violation        `json:"violations"`
	ViolCount   int64              `json:"violation_count"`
	Panics      int64              `json:"panics_outside_c04"`
	Extra       map[string]any     `json:"extra"`
	Exhaustive  []string           `json:"exhaustive_sweeps"`
	Floors      []string           `json:"floor_failures"`
	WallS       float64            `json:"wall_s"`
	Done        bool               `json:"done"`
}

// Ctx is the per-shard monitor context. Not safe for concurrent use except where noted.
type Ctx struct {
	Prop    string
	Tier    string
	Seed    int64
	Shard   int
	NShards int
	OutDir  string
	// Replay, when set, restricts execution to one (job,index) case.
	ReplayJob   string
	ReplayIndex int64
	Replaying   bool
	// TScale multiplies the thorough tier's case counts (per-property setting of the driver).
	TScale int
	// QScale multiplies the quick tier's case counts likewise.
	QScale int
	// CPUGuard: the monitor runs on one goroutine locked to its OS thread, so Call can read the
	// thread's CPU clock around every call (set by the worker for every property except C18).
	CPUGuard bool

	mu       sync.Mutex
	sum      Summary
	distinct map[uint64]struct{}
	violKeys map[string]int
	known    []KnownFinding
	pending  *os.File
	curJob   string
	curIdx   int64
	inCall   atomic.Int64 // sequence number of call in flight (0 = none)
	callSeq  atomic.Int64
	cpuScale atomic.Int64 // goroutines a call runs at once (watchdog CPU limit multiplier)
	start    time.Time
	lastOp   atomic.Value
}

const maxStoredViolations = 600
const maxPerKey = 3

func NewCtx(prop, tier string, seed int64, shard, nshards int, out string) *Ctx {
	c := &Ctx{Prop: prop, Tier: tier, Seed: seed, Shard: shard, NShards: nshards, OutDir: out, TScale: 1}
	if v, err := strconv.Atoi(os.Getenv("VERIF_TSCALE")); err == nil && v > 0 {
		c.TScale = v
	}
	c.QScale = 1
	if v, err := strconv.Atoi(os.Getenv("VERIF_QSCALE")); err == nil && v > 0 {
		c.QScale = v
	}
	c.sum = Summary{Property: prop, Tier: tier, Seed: seed, Shard: shard, NShards: nshards,
		Ops: map[string]*OpStat{}, Buckets: map[string]int64{}, Extra: map[string]any{}}
	c.distinct = map[uint64]struct{}{}
	c.violKeys = map[string]int{}
	c.start = time.Now()
	if out != "" {
		os.MkdirAll(out, 0o755)
		f, err := os.OpenFile(filepath.Join(out, fmt.Sprintf("pending-%d.bin", shard)), os.O_CREATE|os.O_RDWR|os.O_TRUNC, 0o644)
		if err == nil {
			c.pending = f
		}
	}
	go c.watchdog()
	return c
}

func (c *Ctx) Quick() bool    { return c.Tier != "thorough" }
func (c *Ctx) Thorough() bool { return c.Tier == "thorough" }

// N picks the case count for the tier.
func (c *Ctx) N(quick, thorough int) int {
	if c.Thorough() {
		return thorough * c.TScale
	}
	return quick * c.QScale
}

var onlyJob = os.Getenv("VERIF_ONLY_JOB")

// Job iterates case indices [0,n) of a named sub-sweep, giving this shard its share.
// fn receives a PRNG stream that depends only on (seed, property, job, index).
func (c *Ctx) Job(name string, n int, fn func(i int, r *Rand)) {
	if onlyJob != "" && !strings.HasPrefix(name, onlyJob) {
		return // development aid: VERIF_ONLY_JOB=<prefix> runs a single sub-sweep
	}
	for i := 0; i < n; i++ {
		if c.Replaying {
			if name != c.ReplayJob || int64(i) != c.ReplayIndex {
				continue
			}
		} else if i%c.NShards != c.Shard {
			continue
		}
		c.curJob, c.curIdx = name, int64(i)
		fn(i, NewRand(c.Seed, c.Prop, name, i))
	}
	c.curJob, c.curIdx = "", 0
}

// Mine reports whether index i of a sweep that is not run through Job belongs to this shard.
func (c *Ctx) Mine(i int) bool { return i%c.NShards == c.Shard }

// SetCase sets case coordinates manually (for sweeps iterating outside Job).
func (c *Ctx) SetCase(job string, idx int64) { c.curJob, c.curIdx = job, idx }

func (c *Ctx) Eval(n int64) {
	c.mu.Lock()
	c.sum.Evaluations += n
	c.mu.Unlock()
}

func (c *Ctx) Bucket(name string) {
	c.mu.Lock()
	c.sum.Buckets[name]++
	c.mu.Unlock()
}
func (c *Ctx) BucketN(name string, n int64) {
	c.mu.Lock()
	c.sum.Buckets[name] += n
	c.mu.Unlock()
}

func (c *Ctx) op(name string) *OpStat {
	o := c.sum.Ops[name]
	if o == nil {
		o = &OpStat{}
		c.sum.Ops[name] = o
	}
	return o
}

func (c *Ctx) OpResult(name string, accepted bool) {
	c.mu.Lock()
	o := c.op(name)
	o.Calls++
	if accepted {
		o.Accepted++
	} else {
		o.Rejected++
	}
	c.mu.Unlock()
}

// Nontrivial records one case that reached the deciding clause of the oracle; key
// identifies it for distinct counting.
func (c *Ctx) Nontrivial(parts ...[]byte) {
	h := sha256.New()
	for _, p := range parts {
		var l [4]byte
		binary.LittleEndian.PutUint32(l[:], uint32(len(p)))
		h.Write(l[:])
		h.Write(p)
	}
	s := h.Sum(nil)
	k := binary.LittleEndian.Uint64(s)
	c.mu.Lock()
	c.sum.Nontrivial++
	c.distinct[k] = struct{}{}
	c.mu.Unlock()
}

func (c *Ctx) Sample(v any) {
	c.mu.Lock()
	if len(c.sum.Samples) < 6 {
		c.sum.Samples = append(c.sum.Samples, v)
	}
	c.mu.Unlock()
}

func (c *Ctx) SetExtra(k string, v any) {
	c.mu.Lock()
	c.sum.Extra[k] = v
	c.mu.Unlock()
}
func (c *Ctx) AddExtra(k string, n int64) {
	c.mu.Lock()
	cur, _ := c.sum.Extra[k].(int64)
	c.sum.Extra[k] = cur + n
	c.mu.Unlock()
}
func (c *Ctx) Exhaustive(name string) {
	c.mu.Lock()
	c.sum.Exhaustive = append(c.sum.Exhaustive, name)
	c.mu.Unlock()
}
func (c *Ctx) FloorFail(msg string) {
	c.mu.Lock()
	c.sum.Floors = append(c.sum.Floors, msg)
	c.mu.Unlock()
}

func hx(b []byte) string {
	if len(b) > 70000 {
		return hex.EncodeToString(b[:70000]) + "...(truncated)"
	}
	return hex.EncodeToString(b)
}

// Violate records a violation for the current case.
func (c *Ctx) Violate(site, clause string, shape map[string]any, input []byte, detail string) {
	c.ViolateP(c.Prop, site, clause, shape, input, detail, "")
}

func (c *Ctx) ViolateP(prop, site, clause string, shape map[string]any, input []byte, detail, stack string) {
	c.mu.Lock()
	defer c.mu.Unlock()
	c.sum.ViolCount++
	// Violations matching a listed known finding are stored at most a few times per finding so
	// that they can never crowd an unlisted violation out of the bounded store.
	if id := c.matchKnown(prop, site, clause, shape); id != "" {
		c.violKeys["known:"+id]++
		if c.violKeys["known:"+id] > maxPerKey {
			return
		}
	} else {
		key := prop + "|" + site + "|" + clause + "|" + shapeKey(shape)
		c.violKeys[key]++
		c.violKeys["new-total"]++
		if c.violKeys[key] > maxPerKey || c.violKeys["new-total"] > maxStoredViolations {
			return
		}
	}
	if len(detail) > 2000 {
		detail = detail[:2000] + "..."
	}
	c.sum.Violations = append(c.sum.Violations, Violation{Property: prop, Site: site, Clause: clause, Shape: shape,
		Job: c.curJob, Index: c.curIdx, Seed: c.Seed, Tier: c.Tier, Input: hx(input), Detail: detail, Stack: stack})
}

func shapeKey(s map[string]any) string {
	if len(s) == 0 {
		return ""
	}
	keys := make([]string, 0, len(s))
	for k := range s {
		keys = append(keys, k)
	}
	sort.Strings(keys)
	out := ""
	for _, k := range keys {
		out += fmt.Sprintf("%s=%v;", k, s[k])
	}
	return out
}

// KnownFinding mirrors an entry of known_findings.json (status "known" only).
type KnownFinding struct {
	ID       string         `json:"id"`
	Status   string         `json:"status"`
	Property string         `json:"property"`
	Site     any            `json:"site"`
	Clause   any            `json:"clause"`
	Match    map[string]any `json:"match"`
}

// LoadKnown reads the known-findings file (never written at run time).
func (c *Ctx) LoadKnown(path string) {
	b, err := os.ReadFile(path)
	if err != nil {
		return
	}
	var f struct {
		Findings []KnownFinding `json:"findings"`
	}
	if json.Unmarshal(b, &f) != nil {
		return
	}
	for _, k := range f.Findings {
		if k.Status == "known" {
			c.known = append(c.known, k)
		}
	}
}

func oneOf(spec any, v string) bool {
	switch s := spec.(type) {
	case nil:
		return true
	case string:
		return s == v
	case []any:
		for _, x := range s {
			if xs, ok := x.(string); ok && xs == v {
				return true
			}
		}
	}
	return false
}

func num(v any) (float64, bool) {
	switch x := v.(type) {
	case int:
		return float64(x), true
	case int64:
		return float64(x), true
	case float64:
		return x, true
	case uint16:
		return float64(x), true
	case uint32:
		return float64(x), true
	}
	return 0, false
}

func predOK(pred any, val any) bool {
	if m, ok := pred.(map[string]any); ok {
		for op, ref := range m {
			v, vok := num(val)
			r, _ := num(ref)
			switch op {
			case "gt":
				if !vok || !(v > r) {
					return false
				}
			case "ge":
				if !vok || !(v >= r) {
					return false
				}
			case "lt":
				if !vok || !(v < r) {
					return false
				}
			case "le":
				if !vok || !(v <= r) {
					return false
				}
			case "in":
				found := false
				if lst, ok := ref.([]any); ok {
					for _, x := range lst {
						if fmt.Sprint(x) == fmt.Sprint(val) {
							found = true
						}
					}
				}
				if !found {
					return false
				}
			case "prefix":
				vs, _ := val.(string)
				rs, _ := ref.(string)
				if len(vs) < len(rs) || vs[:len(rs)] != rs {
					return false
				}
			case "contains":
				vs, _ := val.(string)
				rs, _ := ref.(string)
				if !containsStr(vs, rs) {
					return false
				}
			}
		}
		return true
	}
	return fmt.Sprint(pred) == fmt.Sprint(val)
}

func containsStr(s, sub string) bool {
	for i := 0; i+len(sub) <= len(s); i++ {
		if s[i:i+len(sub)] == sub {
			return true
		}
	}
	return false
}

func (c *Ctx) matchKnown(prop, site, clause string, shape map[string]any) string {
	for _, k := range c.known {
		if k.Property != prop || !oneOf(k.Site, site) || !oneOf(k.Clause, clause) {
			continue
		}
		ok := true
		for key, p := range k.Match {
			if !predOK(p, shape[key]) {
				ok = false
				break
			}
		}
		if ok {
			return k.ID
		}
	}
	return ""
}

// PanicCulprit returns the first frame below runtime.gopanic that belongs to the library
// (go-i2p/common, go-i2p/crypto) or to the harness, whichever comes first: a panic raised
// inside the standard library on behalf of library code is attributed to the library.
func PanicCulprit(stack string) string {
	lines := strings.Split(stack, "\n")
	seenPanic := false
	for _, l := range lines {
		if strings.HasPrefix(l, "\t") || l == "" {
			continue
		}
		if strings.HasPrefix(l, "panic(") {
			seenPanic = true
			continue
		}
		if !seenPanic {
			continue
		}
		if strings.HasPrefix(l, "github.com/go-i2p/") || strings.HasPrefix(l, "verifharness/") || strings.HasPrefix(l, "main.") {
			if i := strings.LastIndex(l, "("); i > 0 {
				return l[:i]
			}
			return l
		}
	}
	return ""
}

// ThreadCPU reads CLOCK_THREAD_CPUTIME_ID: the CPU time consumed by the calling OS thread, with
// the scheduler's nanosecond accounting (getrusage is tick-based here and reads zero below a
// millisecond). Meaningful only on a goroutine locked to its thread.
func ThreadCPU() time.Duration {
	var ts syscall.Timespec
	syscall.Syscall(syscall.SYS_CLOCK_GETTIME, 3, uintptr(unsafe.Pointer(&ts)), 0)
	return time.Duration(ts.Nano())
}

// CPU guard of Call: a single call into the library may not burn more than this much CPU time of
// its own thread. It is not a wall-clock deadline (a loaded machine does not move it) and sits two
// orders of magnitude above the most expensive legitimate call (a 10 MiB base32 round trip, a DSA
// verification), so it only fires on work that is far out of proportion to the input.
const CPUGuardBase = 2 * time.Second
const CPUGuardPerByte = 20 * time.Microsecond

// Call runs f (a call into the library) under the event discipline: the operation and
// its input are written to the pending file first, panics are recovered and returned.
// It reports whether f panicked.
func (c *Ctx) Call(op string, input []byte, f func()) (panicked bool, pv any, stack string) {
	seq := c.callSeq.Add(1)
	if c.pending != nil {
		c.writePending(op, input)
	}
	c.lastOp.Store(op)
	c.inCall.Store(seq)
	defer func() {
		c.inCall.Store(0)
		if r := recover(); r != nil {
			panicked, pv, stack = true, r, string(debug.Stack())
			c.mu.Lock()
			c.op(op).Panics++
			culprit := PanicCulprit(stack)
			inLib := strings.HasPrefix(culprit, "github.com/go-i2p/")
			if !inLib {
				// a panic raised by the harness itself: the run cannot be trusted
				c.sum.Floors = append(c.sum.Floors, fmt.Sprintf("harness panic in %s during %s: %v", culprit, op, r))
				lst, _ := c.sum.Extra["panic_stacks"].([]any)
				if len(lst) < 3 {
					c.sum.Extra["panic_stacks"] = append(lst, fmt.Sprintf("%s: %v\n%s", op, r, stack))
				}
			} else if c.Prop != "C04" && c.Prop != "C20" {
				c.sum.Panics++
			}
			c.mu.Unlock()
			if inLib && c.Prop != "C04" && c.Prop != "C20" {
				// a library panic seen by another property's monitor is still a C04 witness
				c.ViolateP("C04", op, "panic", map[string]any{"panic_at": culprit, "seen_by": c.Prop}, input, fmt.Sprint(r), stack)
			}
		}
	}()
	if c.CPUGuard {
		t0 := ThreadCPU()
		f()
		if d := ThreadCPU() - t0; d > CPUGuardBase+time.Duration(len(input))*CPUGuardPerByte {
			c.ViolateP("C04", op, "cpu-time-out-of-proportion-to-input", map[string]any{"seen_by": c.Prop}, input,
				fmt.Sprintf("the call consumed %v of CPU time on its own thread for an input of %d bytes (guard: %v + %v per byte)", d, len(input), CPUGuardBase, CPUGuardPerByte), "")
		}
		return
	}
	f()
	return
}

// EscapedPanic records a panic that was not raised inside Call.
func (c *Ctx) EscapedPanic(r any, stack string) {
	culprit := PanicCulprit(stack)
	op, _ := c.lastOp.Load().(string)
	if strings.HasPrefix(culprit, "github.com/go-i2p/") {
		c.ViolateP("C04", culprit, "panic", map[string]any{"panic_at": culprit, "seen_by": c.Prop, "class": "outside-monitored-call", "last_op": op}, nil, fmt.Sprint(r), stack)
		c.mu.Lock()
		if c.Prop != "C04" && c.Prop != "C20" {
			c.sum.Panics++
		}
		c.mu.Unlock()
		return
	}
	c.mu.Lock()
	c.sum.Floors = append(c.sum.Floors, fmt.Sprintf("harness panic in %s (job %s index %d): %v", culprit, c.curJob, c.curIdx, r))
	lst, _ := c.sum.Extra["panic_stacks"].([]any)
	if len(lst) < 3 {
		c.sum.Extra["panic_stacks"] = append(lst, fmt.Sprintf("%v\n%s", r, stack))
	}
	c.mu.Unlock()
}

var pendBuf []byte

func (c *Ctx) writePending(op string, input []byte) {
	// layout: u32 total | u16 len(job) job | i64 idx | u16 len(op) op | input
	b := pendBuf[:0]
	b = append(b, 0, 0, 0, 0)
	b = binary.LittleEndian.AppendUint16(b, uint16(len(c.curJob)))
	b = append(b, c.curJob...)
	b = binary.LittleEndian.AppendUint64(b, uint64(c.curIdx))
	b = binary.LittleEndian.AppendUint16(b, uint16(len(op)))
	b = append(b, op...)
	b = append(b, input...)
	binary.LittleEndian.PutUint32(b, uint32(len(b)))
	pendBuf = b
	c.pending.WriteAt(b, 0)
}

// ReadPending decodes a pending file left behind by a dead shard.
func ReadPending(path string) (job string, idx int64, op string, input []byte, err error) {
	b, err := os.ReadFile(path)
	if err != nil {
		return
	}
	if len(b) < 4 {
		err = fmt.Errorf("pending file empty")
		return
	}
	n := int(binary.LittleEndian.Uint32(b))
	if n > len(b) || n < 16 {
		err = fmt.Errorf("pending file corrupt")
		return
	}
	b = b[4:n]
	jl := int(binary.LittleEndian.Uint16(b))
	job = string(b[2 : 2+jl])
	b = b[2+jl:]
	idx = int64(binary.LittleEndian.Uint64(b))
	b = b[8:]
	ol := int(binary.LittleEndian.Uint16(b))
	op = string(b[2 : 2+ol])
	input = b[2+ol:]
	return
}

// watchdog: decides "this call does not return" on what the process has DONE, not on the wall
// clock alone (on a loaded machine a legitimate call may be in flight for a long time):
//
//	busy hang     in flight > CallLimit  and the process has burnt > CPULimit of CPU time since the call began
//	blocked hang  in flight > BlockedLimit (90 s) and the process has used < 2 s of CPU time since the call began
//	stall         in flight > StallLimit with neither: the machine is too loaded to tell (exit 5, inconclusive)
//
// A hang ends the shard with a HANG record (exit 4); the driver re-runs the case alone before
// calling it a hang. CPULimit is a per-goroutine figure: the concurrent workloads (C18) multiply it
// by the number of goroutines they start (SetCPUScale).
var (
	CallLimit    = 20 * time.Second
	CPULimit     = 30 * time.Second
	BlockedLimit = 90 * time.Second
	StallLimit   = 1500 * time.Second
)

// ProcessCPU is the CPU time (user + system) the whole process has consumed.
func ProcessCPU() time.Duration {
	var ru syscall.Rusage
	if syscall.Getrusage(syscall.RUSAGE_SELF, &ru) != nil {
		return 0
	}
	return time.Duration(ru.Utime.Nano() + ru.Stime.Nano())
}

// SetCPUScale tells the watchdog how many goroutines the calls of this worker run at once.
func (c *Ctx) SetCPUScale(n int) {
	if n < 1 {
		n = 1
	}
	c.cpuScale.Store(int64(n))
}

func (c *Ctx) watchdog() {
	if FakeTime {
		// the virtual clock stands still while a call runs; the driver's wall limit remains
		return
	}
	var last int64
	var since time.Time
	var cpu0 time.Duration
	for {
		time.Sleep(500 * time.Millisecond)
		cur := c.inCall.Load()
		if cur == 0 || cur != last {
			last, since, cpu0 = cur, time.Now(), ProcessCPU()
			continue
		}
		wall := time.Since(since)
		if wall <= CallLimit {
			continue
		}
		used := ProcessCPU() - cpu0
		scale := time.Duration(c.cpuScale.Load())
		if scale < 1 {
			scale = 1
		}
		kind := ""
		switch {
		case used > CPULimit*scale:
			kind = "busy"
		case wall > BlockedLimit && used < 2*time.Second:
			kind = "blocked"
		case wall > StallLimit:
			kind = "stall"
		default:
			continue
		}
		op, _ := c.lastOp.Load().(string)
		rec := map[string]any{"hang": kind != "stall", "kind": kind, "op": op, "job": c.curJob, "index": c.curIdx, "shard": c.Shard, "seconds": wall.Seconds(), "cpu_seconds": used.Seconds()}
		b, _ := json.Marshal(rec)
		if c.OutDir != "" {
			name := "hang"
			if kind == "stall" {
				name = "stall"
			}
			os.WriteFile(filepath.Join(c.OutDir, fmt.Sprintf("%s-%d.json", name, c.Shard)), b, 0o644)
		}
		fmt.Fprintf(os.Stderr, "WATCHDOG(%s): call %s in flight for %v, %v of CPU time used since it began (job %s index %d)\n", kind, op, wall, used, c.curJob, c.curIdx)
		if kind == "stall" {
			os.Exit(5)
		}
		os.Exit(4)
	}
}

// Finish writes the shard summary and the distinct-hash file.
func (c *Ctx) Finish() error {
	c.mu.Lock()
	defer c.mu.Unlock()
	c.sum.WallS = time.Since(c.start).Seconds()
	c.sum.Done = true
	if c.OutDir == "" {
		return nil
	}
	hb := make([]byte, 0, 8*len(c.distinct))
	for k := range c.distinct {
		hb = binary.LittleEndian.AppendUint64(hb, k)
	}
	if err := os.WriteFile(filepath.Join(c.OutDir, fmt.Sprintf("distinct-%d.bin", c.Shard)), hb, 0o644); err != nil {
		return err
	}
	b, err := json.Marshal(&c.sum)
	if err != nil {
		return err
	}
	return os.WriteFile(filepath.Join(c.OutDir, fmt.Sprintf("shard-%d.json", c.Shard)), b, 0o644)
}

func (c *Ctx) Summary() *Summary { return &c.sum }

// CountDistinct counts the distinct 8-byte case hashes over all distinct-*.bin files of a shard
// output directory (the driver's merge step; done here because a sort of a []uint64 is cheap
// where a Python set of tens of millions of entries is not).
func CountDistinct(dir string) (int, error) {
	files, err := filepath.Glob(filepath.Join(dir, "distinct-*.bin"))
	if err != nil {
		return 0, err
	}
	var all []uint64
	for _, f := range files {
		b, err := os.ReadFile(f)
		if err != nil {
			return 0, err
		}
		for i := 0; i+8 <= len(b); i += 8 {
			all = append(all, binary.LittleEndian.Uint64(b[i:]))
		}
	}
	sort.Slice(all, func(i, j int) bool { return all[i] < all[j] })
	n := 0
	for i := range all {
		if i == 0 || all[i] != all[i-1] {
			n++
		}
	}
	return n, nil
}
