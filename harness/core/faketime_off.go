//go:build !faketime

package core

// FakeTime is true in the build with the runtime's virtual clock (see faketime_on.go).
const FakeTime = false
