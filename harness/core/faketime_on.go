//go:build faketime

package core

// FakeTime: the worker was built with the runtime's virtual clock (-tags faketime): time.Now
// starts at 2009-11-10 23:00 UTC and advances only while every goroutine is blocked, jumping
// straight to the next timer — time.Sleep(48h) returns at once, two days later on the clock.
const FakeTime = true
