package mon

import (
	"bytes"
	"fmt"
	"reflect"

	"verifharness/core"
	"verifharness/gen"
	"verifharness/lib"
)

// C03 — stream framing: consumed ++ remainder == input; appended bytes change nothing;
// no proper prefix of a completely consumed encoding parses successfully.
func init() { register("C03", runC03) }

func runC03(c *core.Ctx) {
	unit := c.N(120, 1500)
	filter := func(p lib.Parser) bool { return p.HasRem || p.Prefix }
	parserCases(c, unit, filter, func(pc pcase) { checkC03(c, pc) })
}

func checkC03(c *core.Ctx, pc pcase) {
	p := pc.p
	out, panicked, _, _ := callParser(c, p, pc.in)
	c.Eval(1)
	if panicked {
		return
	}
	c.OpResult(p.ID(), out.Accepted)
	if !out.Accepted {
		// a rejected input must not become a successful parse of the SAME bytes merely because
		// something follows them: the result may not depend on trailing bytes in either direction
		if p.HasRem && len(pc.in) > 0 {
			rx := core.NewRand(c.Seed, "c03rej", p.ID(), len(pc.in))
			for _, x := range [][]byte{rx.Bytes(1 + rx.Pick(24)), rx.Bytes(64 + rx.Pick(64))} {
				ext := append(append([]byte{}, pc.in...), x...)
				o2, pk, _, _ := callParser(c, p, ext)
				c.Eval(1)
				if pk || !o2.Accepted || len(o2.Rem) > len(ext) {
					continue
				}
				if used := len(ext) - len(o2.Rem); used <= len(pc.in) {
					sh := pc.fullShape()
					sh["appended"] = len(x)
					c.Violate(p.Name, "accepted-only-when-bytes-follow", sh, pc.in, fmt.Sprintf("the %d-byte input is rejected (%v), but followed by %d arbitrary bytes it parses, consuming %d bytes", len(pc.in), out.Err, len(x), used))
					return
				}
			}
			c.Bucket("rejected-stays-rejected-with-trailing-bytes/" + p.Kind)
		}
		return
	}
	in := pc.in
	sh := pc.fullShape()
	var consumed int
	if p.HasRem {
		// (1) remainder is a suffix of the input
		if len(out.Rem) > len(in) || !bytes.Equal(out.Rem, in[len(in)-len(out.Rem):]) {
			c.Violate(p.Name, "remainder-not-suffix", sh, in, fmt.Sprintf("remainder of %d bytes is not the tail of the %d-byte input", len(out.Rem), len(in)))
			return
		}
		consumed = len(in) - len(out.Rem)
		// declared extent: the independent decoder must frame the same number of bytes
		if n, _, ok := refExtent(p.Kind, p.Arg, in); ok {
			c.Bucket("extent-compared/" + p.Kind)
			if n != consumed {
				c.Violate(p.Name, "extent-differs-from-declared", sh, in, fmt.Sprintf("parser consumed %d bytes, the structure's declared extent is %d", consumed, n))
				return
			}
		} else {
			c.Violate(p.Name, "accepted-unframeable", sh, in, fmt.Sprintf("parser consumed %d bytes of an input whose declared extent exceeds the input", consumed))
			return
		}
	} else { // Prefix parser (ReadLeaseSet): extent from the reference
		n, _, ok := refExtent(p.Kind, p.Arg, in)
		if !ok {
			c.Violate(p.Name, "accepted-unframeable", sh, in, "accepted an input the reference cannot delimit")
			return
		}
		consumed = n
	}
	if !trivialKind(p.Kind) {
		c.Nontrivial([]byte(p.ID()), in)
	}
	w := in[:consumed]

	// (2) appended bytes: same value, same consumption, remainder = old remainder ++ x
	r := core.NewRand(c.Seed, "c03ext", p.ID(), len(in), consumed)
	exts := [][]byte{r.Bytes(1), r.Bytes(1 + r.Pick(64)), append([]byte{}, w...)}
	if !p.Whole && r.Chance(1, 12) {
		// a structure at the front of a large buffer (a stream, a file): more bytes follow than any
		// length field of the structure can count
		exts = append(exts, r.Bytes([]int{65533, 65535, 65536, 65537, 70000, 131072 + r.Pick(7)}[r.Pick(6)]))
	}
	for _, x := range exts {
		ext := append(append([]byte{}, in...), x...)
		o2, pk, _, _ := callParser(c, p, ext)
		c.Eval(1)
		if pk {
			continue
		}
		if !o2.Accepted {
			c.Violate(p.Name, "rejected-after-append", sh, ext, fmt.Sprintf("input of %d bytes accepted, the same input followed by %d more bytes rejected: %v", len(in), len(x), o2.Err))
			break
		}
		if !bytes.Equal(o2.Ser, out.Ser) {
			c.Violate(p.Name, "value-changed-by-appended-bytes", sh, ext, describeDiff(out.Ser, o2.Ser))
			break
		}
		if p.HasRem {
			wantRem := append(append([]byte{}, out.Rem...), x...)
			if !bytes.Equal(o2.Rem, wantRem) {
				c.Violate(p.Name, "consumption-changed-by-appended-bytes", sh, ext, fmt.Sprintf("remainder %d bytes, expected %d", len(o2.Rem), len(wantRem)))
				break
			}
		}
		c.Bucket("append-ok/" + p.Kind)
	}

	// (2b) what a parser consumes is a function of its input: after the holder of ANOTHER parsed value
	// of this kind has edited that value through its public surface, the same input is still
	// accepted and the same number of bytes is consumed
	if !trivialKind(p.Kind) && r.Chance(1, 4) {
		// (the other value is a second parse of the same bytes: same kind, same shape)
		if o2, pk, _, _ := callParser(c, p, append([]byte{}, in...)); !pk && o2.Accepted && o2.Val != nil && reflect.ValueOf(o2.Val).Kind() == reflect.Ptr {
			edits := 0
			func() {
				defer func() { _ = recover() }()
				edits = lib.ScribbleExported(o2.Val) + lib.ScribbleViaAccessors(o2.Val)
			}()
			if edits > 0 {
				o3, pk3, _, _ := callParser(c, p, in)
				c.Eval(1)
				if !pk3 && (!o3.Accepted || (p.HasRem && len(o3.Rem) != len(out.Rem))) {
					c.Violate(p.Name, "consumption-changed-after-another-value-was-edited", sh, in, fmt.Sprintf("accepted=%v, remainder %d bytes (before: %d) once %d bytes of another parsed value had been changed through its public surface", o3.Accepted, len(o3.Rem), len(out.Rem), edits))
				} else {
					c.Bucket("reparse-after-edit-ok/" + p.Kind)
				}
			}
		}
	}

	// (3) no proper prefix of the consumed encoding parses
	cuts := cutPoints(c, consumed, r)
	for _, k := range cuts {
		o3, pk, _, _ := callParser(c, p, w[:k])
		c.Eval(1)
		if pk {
			continue
		}
		if o3.Accepted {
			s2 := gen.Shape{}
			for kk, v := range sh {
				s2[kk] = v
			}
			s2["cut"] = k
			s2["of"] = consumed
			c.Violate(p.Name, "proper-prefix-accepted", s2, w[:k], fmt.Sprintf("prefix of %d bytes of a %d-byte encoding reported as a successful parse", k, consumed))
			break
		}
	}
	c.BucketN("cutpoints/"+p.Kind, int64(len(cuts)))
	c.Sample(gen.Shape{"op": p.ID(), "class": pc.class, "consumed": consumed, "cut_points_tried": len(cuts), "appends_tried": len(exts)})
}

// cutPoints: every k < n for short encodings (and always in the thorough tier up to a cap),
// otherwise all of the last 80, the first 16 and a stratified sample.
func cutPoints(c *core.Ctx, n int, r *core.Rand) []int {
	limit := 700
	if c.Thorough() {
		limit = 3000
	}
	var ks []int
	if n <= limit {
		for k := 0; k < n; k++ {
			ks = append(ks, k)
		}
		return ks
	}
	seen := map[int]bool{}
	add := func(k int) {
		if k >= 0 && k < n && !seen[k] {
			seen[k] = true
			ks = append(ks, k)
		}
	}
	for k := 0; k < 16; k++ {
		add(k)
	}
	for k := n - 80; k < n; k++ {
		add(k)
	}
	for _, k := range []int{383, 384, 385, 386, 387, 388, 390, 391, 395, 399} {
		add(k)
	}
	for i := 0; i < limit-120; i++ {
		add(r.Pick(n))
	}
	return ks
}
