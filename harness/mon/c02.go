package mon

import (
	"bytes"
	"encoding/binary"
	"encoding/hex"
	"fmt"
	"reflect"
	"sort"

	"github.com/go-i2p/common/certificate"
	"github.com/go-i2p/common/data"
	"github.com/go-i2p/common/destination"
	"github.com/go-i2p/common/encrypted_leaseset"
	"github.com/go-i2p/common/key_certificate"
	"github.com/go-i2p/common/keys_and_cert"
	"github.com/go-i2p/common/lease"
	"github.com/go-i2p/common/lease_set"
	"github.com/go-i2p/common/lease_set2"
	"github.com/go-i2p/common/meta_leaseset"
	"github.com/go-i2p/common/offline_signature"
	"github.com/go-i2p/common/router_address"
	"github.com/go-i2p/common/router_identity"
	"github.com/go-i2p/common/router_info"

	"verifharness/core"
	"verifharness/gen"
	"verifharness/lib"
	rm "verifharness/refmodel"
)

// C02 — the wire format agrees with the specification, both directions.
func init() { register("C02", runC02) }

// ---- model-side field lists (same names as lib/fields.go) --------------------------------

type mfields struct{ lib.Fields }

func (f *mfields) add(name string, v []byte) {
	f.Fields = append(f.Fields, lib.Field{Name: name, Val: append([]byte{}, v...)})
}
func (f *mfields) u(name string, v uint64, n int) {
	b := make([]byte, 8)
	binary.BigEndian.PutUint64(b, v)
	f.add(name, b[8-n:])
}

func mCert(f *mfields, pre string, c rm.Cert) {
	f.u(pre+"cert.type", uint64(c.Type), 1)
	f.add(pre+"cert.payload", c.Payload)
	f.u(pre+"cert.length", uint64(len(c.Payload)), 2)
}

func mKAC(f *mfields, pre string, k rm.KAC) {
	s, c := k.Types()
	ck, sk := k.CryptoKey(), k.SigningKey()
	f.add(pre+"crypto_key", ck)
	f.u(pre+"crypto_key.len", uint64(len(ck)), 2)
	f.add(pre+"signing_key", sk)
	f.u(pre+"signing_key.len", uint64(len(sk)), 2)
	f.add(pre+"padding", k.Padding())
	f.u(pre+"sig_type", uint64(s), 2)
	f.u(pre+"crypto_type", uint64(c), 2)
	cl, _ := rm.CryptoLen(c)
	pl, _ := rm.SigPubLen(s)
	sl, _ := rm.SigLen(s)
	f.u(pre+"declared_crypto_size", uint64(cl), 2)
	f.u(pre+"declared_signing_size", uint64(pl), 2)
	f.u(pre+"declared_signature_size", uint64(sl), 2)
	mCert(f, pre, k.Cert)
}

func mMapping(f *mfields, pre string, m rm.Mapping) {
	f.u(pre+"pairs", uint64(len(m.Pairs)), 2)
	for i, p := range m.Pairs {
		f.add(fmt.Sprintf("%spair[%d].key", pre, i), p.K)
		f.add(fmt.Sprintf("%spair[%d].val", pre, i), p.V)
	}
}

func mRouterAddress(f *mfields, pre string, a rm.RouterAddress) {
	f.u(pre+"cost", uint64(a.Cost), 1)
	f.add(pre+"expiration", a.Expiration[:])
	f.add(pre+"style", a.Style)
	mMapping(f, pre+"options.", a.Options)
}

func mSig(f *mfields, sig []byte, t int) {
	f.add("signature", sig)
	f.u("signature.type", uint64(t), 2)
	f.u("signature.len", uint64(len(sig)), 2)
}

func mRouterInfo(r rm.RouterInfo) lib.Fields {
	f := &mfields{}
	mKAC(f, "ident.", r.Ident)
	f.u("published", r.Published, 8)
	f.u("addr_count", uint64(len(r.Addrs)), 1)
	f.u("addrs", uint64(len(r.Addrs)), 2)
	for i, a := range r.Addrs {
		mRouterAddress(f, fmt.Sprintf("addr[%d].", i), a)
	}
	f.u("peer_size", uint64(r.PeerSize), 1)
	mMapping(f, "options.", r.Options)
	st, _ := r.Ident.Types()
	mSig(f, r.Sig, st)
	return f.Fields
}

func mLeaseSet(l rm.LeaseSet) lib.Fields {
	f := &mfields{}
	mKAC(f, "dest.", l.Dest)
	f.add("enc_key", l.EncKey)
	f.add("signing_key", l.SigningKey)
	f.u("lease_count", uint64(len(l.Leases)), 1)
	for i, x := range l.Leases {
		pre := fmt.Sprintf("lease[%d].", i)
		f.add(pre+"gw", x.GW[:])
		f.u(pre+"tunnel", uint64(x.TunnelID), 4)
		f.u(pre+"end", x.EndMs, 8)
	}
	st, _ := l.Dest.Types()
	mSig(f, l.Sig, st)
	return f.Fields
}

func mOffline(f *mfields, o *rm.Offline) {
	if o == nil {
		f.add("offline", []byte("absent"))
		return
	}
	f.add("offline", []byte("present"))
	f.u("offline.expires", uint64(o.Expires), 4)
	f.u("offline.sigtype", uint64(o.SigType), 2)
	f.add("offline.key", o.TransientKey)
	f.add("offline.sig", o.Sig)
}

func sigTypeOf(destSig int, o *rm.Offline) int {
	if o != nil {
		return int(o.SigType)
	}
	return destSig
}

func mLeaseSet2(l rm.LeaseSet2) lib.Fields {
	f := &mfields{}
	mKAC(f, "dest.", l.Dest)
	f.u("published", uint64(l.Published), 4)
	f.u("expires", uint64(l.Expires), 2)
	f.u("flags", uint64(l.Flags), 2)
	mOffline(f, l.Offline)
	mMapping(f, "options.", l.Options)
	f.u("key_count", uint64(len(l.Keys)), 1)
	for i, k := range l.Keys {
		f.u(fmt.Sprintf("key[%d].type", i), uint64(k.Type), 2)
		f.u(fmt.Sprintf("key[%d].len", i), uint64(len(k.Data)), 2)
		f.add(fmt.Sprintf("key[%d].data", i), k.Data)
	}
	f.u("lease_count", uint64(len(l.Leases)), 1)
	for i, x := range l.Leases {
		pre := fmt.Sprintf("lease[%d].", i)
		f.add(pre+"gw", x.GW[:])
		f.u(pre+"tunnel", uint64(x.TunnelID), 4)
		f.u(pre+"end", uint64(x.EndS), 4)
	}
	st, _ := l.Dest.Types()
	mSig(f, l.Sig, sigTypeOf(st, l.Offline))
	return f.Fields
}

func mMeta(l rm.MetaLeaseSet) lib.Fields {
	f := &mfields{}
	mKAC(f, "dest.", l.Dest)
	f.u("published", uint64(l.Published), 4)
	f.u("expires", uint64(l.Expires), 2)
	f.u("flags", uint64(l.Flags), 2)
	mOffline(f, l.Offline)
	mMapping(f, "options.", l.Options)
	f.u("entry_count", uint64(len(l.Entries)), 1)
	for i, e := range l.Entries {
		pre := fmt.Sprintf("entry[%d].", i)
		f.add(pre+"hash", e.Hash[:])
		f.u(pre+"type", uint64(e.Type), 1)
		f.u(pre+"expires", uint64(e.Expires), 4)
		f.u(pre+"cost", uint64(e.Cost), 1)
		mMapping(f, pre+"props.", e.Props)
	}
	st, _ := l.Dest.Types()
	mSig(f, l.Sig, sigTypeOf(st, l.Offline))
	return f.Fields
}

func mELS(l rm.EncryptedLeaseSet) lib.Fields {
	f := &mfields{}
	f.u("sigtype", uint64(l.SigType), 2)
	f.add("blinded_key", l.BlindedKey)
	f.u("published", uint64(l.Published), 4)
	f.u("expires", uint64(l.Expires), 2)
	f.u("flags", uint64(l.Flags), 2)
	mOffline(f, l.Offline)
	f.u("inner_len", uint64(len(l.Inner)), 2)
	f.add("inner", l.Inner)
	mSig(f, l.Sig, sigTypeOf(int(l.SigType), l.Offline))
	return f.Fields
}

func diffFields(want, got lib.Fields) string {
	gm := map[string][]byte{}
	var gotNames []string
	for _, g := range got {
		gm[g.Name] = g.Val
		gotNames = append(gotNames, g.Name)
	}
	for _, w := range want {
		g, ok := gm[w.Name]
		if !ok {
			return fmt.Sprintf("field %s not exposed (library fields: %v)", w.Name, head2(gotNames, 12))
		}
		if !bytes.Equal(g, w.Val) {
			return fmt.Sprintf("field %s: encoded %s, library exposes %s", w.Name, hx(w.Val), hx(g))
		}
	}
	wm := map[string]bool{}
	for _, w := range want {
		wm[w.Name] = true
	}
	for _, g := range got {
		if !wm[g.Name] {
			return fmt.Sprintf("library exposes unexpected field %s = %s", g.Name, hx(g.Val))
		}
	}
	return ""
}

func head2(s []string, n int) []string {
	if len(s) > n {
		return s[:n]
	}
	return s
}

func hx(b []byte) string {
	if len(b) > 40 {
		return hex.EncodeToString(b[:40]) + fmt.Sprintf("..(%d bytes)", len(b))
	}
	return hex.EncodeToString(b)
}

// ---- direction A: independent encoder -> library parser -----------------------------------

type c02case struct {
	kind  string
	enc   []byte
	want  lib.Fields
	shape gen.Shape
	parse func(in []byte) (fields lib.Fields, rem []byte, hasRem bool, err error)
	site  string
}

func c02Direction(c *core.Ctx, cs c02case) {
	var got lib.Fields
	var rem []byte
	var hasRem bool
	var err error
	panicked, _, _ := c.Call(cs.site, cs.enc, func() { got, rem, hasRem, err = cs.parse(cs.enc) })
	c.Eval(1)
	if panicked {
		return
	}
	c.OpResult(cs.site, err == nil)
	c.Nontrivial([]byte(cs.site), cs.enc)
	c.Bucket(fmt.Sprintf("A/%s/sig%v-crypto%v-%v", cs.kind, cs.shape["sig"], cs.shape["crypto"], cs.shape["cert"]))
	sh := gen.Shape{"direction": "decode"}
	for k, v := range cs.shape {
		sh[k] = v
	}
	sh["len"] = len(cs.enc)
	if err != nil {
		c.Violate(cs.site, "wellformed-rejected", sh, cs.enc, fmt.Sprintf("well-formed encoding rejected: %v", firstLineOf(err.Error())))
		return
	}
	if hasRem && len(rem) != 0 {
		c.Violate(cs.site, "wellformed-not-consumed-exactly", sh, cs.enc, fmt.Sprintf("%d bytes left over after a complete encoding", len(rem)))
		return
	}
	if d := diffFields(cs.want, got); d != "" {
		c.Violate(cs.site, "field-value-differs", sh, cs.enc, d)
		return
	}
	c.Sample(gen.Shape{"direction": "decode", "op": cs.site, "shape": cs.shape, "fields_compared": len(cs.want), "len": len(cs.enc)})
}

func firstLineOf(s string) string {
	for i := 0; i < len(s); i++ {
		if s[i] == '\n' {
			return s[:i]
		}
	}
	if len(s) > 300 {
		return s[:300]
	}
	return s
}

func runC02(c *core.Ctx) {
	n := c.N(1500, 40000)

	// --- certificates
	c.Job("A/cert", n, func(i int, r *core.Rand) {
		m := gen.Cert(r)
		f := &mfields{}
		mCert(f, "", m)
		c02Direction(c, c02case{kind: "cert", enc: m.Encode(), want: f.Fields, shape: gen.Shape{"type": int(m.Type), "plen": len(m.Payload)}, site: "certificate.ReadCertificate",
			parse: func(in []byte) (lib.Fields, []byte, bool, error) {
				cert, rem, err := certificate.ReadCertificate(in)
				if err != nil {
					return nil, rem, true, err
				}
				var g lib.Fields
				lib.CertFields(&g, "", cert)
				return g, rem, true, nil
			}})
	})

	// --- keys-and-cert / destination / router identity over every supported pair
	type kacOp struct {
		name    string
		sigs    []int
		cryptos []int
		parse   func(in []byte) (*keys_and_cert.KeysAndCert, []byte, error)
	}
	kacOps := []kacOp{
		{"keys_and_cert.ReadKeysAndCert", rm.KACSigTypes, rm.KACCryptoTypes, keys_and_cert.ReadKeysAndCert},
		{"destination.ReadDestination", rm.DestSigTypes, rm.IdentCryptoTypes, func(in []byte) (*keys_and_cert.KeysAndCert, []byte, error) {
			d, rem, err := destination.ReadDestination(in)
			return d.KeysAndCert, rem, err
		}},
		{"router_identity.ReadRouterIdentity", rm.RouterSigTypes, rm.IdentCryptoTypes, func(in []byte) (*keys_and_cert.KeysAndCert, []byte, error) {
			d, rem, err := router_identity.ReadRouterIdentity(in)
			if d == nil {
				return nil, rem, err
			}
			return d.KeysAndCert, rem, err
		}},
	}
	for _, op := range kacOps {
		op := op
		c.Job("A/"+op.name, n, func(i int, r *core.Rand) {
			// sweep the pairs round-robin so that every pair is hit in every run
			sig := op.sigs[i%len(op.sigs)]
			cr := op.cryptos[(i/len(op.sigs))%len(op.cryptos)]
			m, sh := gen.KACOf(r, sig, cr)
			f := &mfields{}
			mKAC(f, "", m)
			c02Direction(c, c02case{kind: "kac", enc: m.Encode(), want: f.Fields, shape: sh, site: op.name,
				parse: func(in []byte) (lib.Fields, []byte, bool, error) {
					k, rem, err := op.parse(in)
					if err != nil {
						return nil, rem, true, err
					}
					var g lib.Fields
					lib.KACFields(&g, "", k)
					return g, rem, true, nil
				}})
		})
	}

	c.Job("A/mapping", n, func(i int, r *core.Rand) {
		m := gen.Mapping(r, 30)
		f := &mfields{}
		mMapping(f, "", m)
		c02Direction(c, c02case{kind: "mapping", enc: m.Encode(), want: f.Fields, shape: gen.Shape{"pairs": len(m.Pairs), "sorted": m.Sorted()}, site: "data.ReadMapping",
			parse: func(in []byte) (lib.Fields, []byte, bool, error) {
				mp, rem, errs := data.ReadMapping(in)
				if len(errs) > 0 {
					return nil, rem, true, errs[0]
				}
				var g lib.Fields
				lib.MappingFields(&g, "", mp)
				return g, rem, true, nil
			}})
	})

	c.Job("A/raddr", n, func(i int, r *core.Rand) {
		m := gen.RouterAddress(r)
		f := &mfields{}
		mRouterAddress(f, "", m)
		c02Direction(c, c02case{kind: "raddr", enc: m.Encode(), want: f.Fields, shape: gen.Shape{"opts": len(m.Options.Pairs), "style": len(m.Style)}, site: "router_address.ReadRouterAddress",
			parse: func(in []byte) (lib.Fields, []byte, bool, error) {
				a, rem, err := router_address.ReadRouterAddress(in)
				if err != nil {
					return nil, rem, true, err
				}
				var g lib.Fields
				lib.RouterAddressFields(&g, "", &a)
				return g, rem, true, nil
			}})
	})

	c.Job("A/rinfo", n, func(i int, r *core.Rand) {
		m, sh := gen.RouterInfo(r)
		c02Direction(c, c02case{kind: "rinfo", enc: m.Encode(), want: mRouterInfo(m), shape: sh, site: "router_info.ReadRouterInfo",
			parse: func(in []byte) (lib.Fields, []byte, bool, error) {
				a, rem, err := router_info.ReadRouterInfo(in)
				if err != nil {
					return nil, rem, true, err
				}
				var g lib.Fields
				lib.RouterInfoFields(&g, &a)
				return g, rem, true, nil
			}})
	})

	c.Job("A/leaseset", n, func(i int, r *core.Rand) {
		m, sh := gen.LeaseSet(r)
		c02Direction(c, c02case{kind: "leaseset", enc: m.Encode(), want: mLeaseSet(m), shape: sh, site: "lease_set.ReadLeaseSet",
			parse: func(in []byte) (lib.Fields, []byte, bool, error) {
				a, err := lease_set.ReadLeaseSet(in)
				if err != nil {
					return nil, nil, false, err
				}
				var g lib.Fields
				lib.LeaseSetFields(&g, &a)
				return g, nil, false, nil
			}})
	})

	c.Job("A/leaseset2", n, func(i int, r *core.Rand) {
		m, sh := gen.LeaseSet2(r)
		if m.Offline != nil && i%8 == 3 {
			// every value of the 4-byte expires field is a well-formed encoding, zero included
			m.Offline.Expires = []uint32{0, 0, 1, 0xffffffff}[(i/8)%4]
			sh["offline_expires"] = int64(m.Offline.Expires)
		}
		c02Direction(c, c02case{kind: "leaseset2", enc: m.Encode(), want: mLeaseSet2(m), shape: sh, site: "lease_set2.ReadLeaseSet2",
			parse: func(in []byte) (lib.Fields, []byte, bool, error) {
				a, rem, err := lease_set2.ReadLeaseSet2(in)
				if err != nil {
					return nil, rem, true, err
				}
				var g lib.Fields
				lib.LeaseSet2Fields(&g, &a)
				return g, rem, true, nil
			}})
	})

	c.Job("A/metaleaseset", n, func(i int, r *core.Rand) {
		m, sh := gen.MetaLeaseSet(r)
		if m.Offline != nil && i%8 == 3 {
			// every value of the 4-byte expires field is a well-formed encoding, zero included
			m.Offline.Expires = []uint32{0, 0, 1, 0xffffffff}[(i/8)%4]
			sh["offline_expires"] = int64(m.Offline.Expires)
		}
		c02Direction(c, c02case{kind: "metaleaseset", enc: m.Encode(), want: mMeta(m), shape: sh, site: "meta_leaseset.ReadMetaLeaseSet",
			parse: func(in []byte) (lib.Fields, []byte, bool, error) {
				a, rem, err := meta_leaseset.ReadMetaLeaseSet(in)
				if err != nil {
					return nil, rem, true, err
				}
				var g lib.Fields
				lib.MetaLeaseSetFields(&g, &a)
				return g, rem, true, nil
			}})
	})

	c.Job("A/encleaseset", n, func(i int, r *core.Rand) {
		m, sh := gen.EncryptedLeaseSet(r)
		if m.Offline != nil && i%8 == 3 {
			// every value of the 4-byte expires field is a well-formed encoding, zero included
			m.Offline.Expires = []uint32{0, 0, 1, 0xffffffff}[(i/8)%4]
			sh["offline_expires"] = int64(m.Offline.Expires)
		}
		c02Direction(c, c02case{kind: "encleaseset", enc: m.Encode(), want: mELS(m), shape: sh, site: "encrypted_leaseset.ReadEncryptedLeaseSet",
			parse: func(in []byte) (lib.Fields, []byte, bool, error) {
				a, rem, err := encrypted_leaseset.ReadEncryptedLeaseSet(in)
				if err != nil {
					return nil, rem, true, err
				}
				var g lib.Fields
				lib.EncryptedLeaseSetFields(&g, &a)
				return g, rem, true, nil
			}})
	})

	c.Job("A/offline", n, func(i int, r *core.Rand) {
		ds := []int{0, 1, 2, 7, 8, 11}[i%6]
		m := gen.Offline(r, ds)
		if i%8 == 3 {
			m.Expires = []uint32{0, 0, 1, 0xffffffff}[(i/8)%4]
		}
		f := &mfields{}
		mOffline(f, &m)
		c02Direction(c, c02case{kind: "offline", enc: m.Encode(), want: f.Fields, shape: gen.Shape{"dest_sig": ds, "transient": int(m.SigType)}, site: "offline_signature.ReadOfflineSignature",
			parse: func(in []byte) (lib.Fields, []byte, bool, error) {
				o, rem, err := offline_signature.ReadOfflineSignature(in, uint16(ds))
				if err != nil {
					return nil, rem, true, err
				}
				var g lib.Fields
				lib.OfflineFields(&g, "", &o)
				return g, rem, true, nil
			}})
	})

	c.Job("A/lease", n/2, func(i int, r *core.Rand) {
		m := gen.Lease(r)
		f := &mfields{}
		f.add("gw", m.GW[:])
		f.u("tunnel", uint64(m.TunnelID), 4)
		f.u("end", m.EndMs, 8)
		c02Direction(c, c02case{kind: "lease", enc: m.Encode(), want: f.Fields, shape: gen.Shape{}, site: "lease.ReadLease",
			parse: func(in []byte) (lib.Fields, []byte, bool, error) {
				l, rem, err := lease.ReadLease(in)
				if err != nil {
					return nil, rem, true, err
				}
				var g lib.Fields
				lib.LeaseFields(&g, "", l)
				return g, rem, true, nil
			}})
		m2 := gen.Lease2(r)
		f2 := &mfields{}
		f2.add("gw", m2.GW[:])
		f2.u("tunnel", uint64(m2.TunnelID), 4)
		f2.u("end", uint64(m2.EndS), 4)
		c02Direction(c, c02case{kind: "lease2", enc: m2.Encode(), want: f2.Fields, shape: gen.Shape{}, site: "lease.ReadLease2",
			parse: func(in []byte) (lib.Fields, []byte, bool, error) {
				l, rem, err := lease.ReadLease2(in)
				if err != nil {
					return nil, rem, true, err
				}
				var g lib.Fields
				lib.Lease2Fields(&g, "", l)
				return g, rem, true, nil
			}})
	})

	// lattice corners: maximal counts, longest strings, largest transient keys — field by field
	c.Job("A/corners", 3, func(i int, r *core.Rand) {
		for _, cn := range gen.Corners(r) {
			cn := cn
			sh := gen.Shape{"corner": cn.Name}
			switch m := cn.Model.(type) {
			case rm.Mapping:
				f := &mfields{}
				mMapping(f, "", m)
				c02Direction(c, c02case{kind: "mapping", enc: cn.Bytes, want: f.Fields, shape: sh, site: "data.ReadMapping", parse: func(in []byte) (lib.Fields, []byte, bool, error) {
					mp, rem, errs := data.ReadMapping(in)
					if len(errs) > 0 {
						return nil, rem, true, errs[0]
					}
					var g lib.Fields
					lib.MappingFields(&g, "", mp)
					return g, rem, true, nil
				}})
			case rm.RouterAddress:
				f := &mfields{}
				mRouterAddress(f, "", m)
				c02Direction(c, c02case{kind: "raddr", enc: cn.Bytes, want: f.Fields, shape: sh, site: "router_address.ReadRouterAddress", parse: func(in []byte) (lib.Fields, []byte, bool, error) {
					a, rem, err := router_address.ReadRouterAddress(in)
					if err != nil {
						return nil, rem, true, err
					}
					var g lib.Fields
					lib.RouterAddressFields(&g, "", &a)
					return g, rem, true, nil
				}})
			case rm.RouterInfo:
				c02Direction(c, c02case{kind: "rinfo", enc: cn.Bytes, want: mRouterInfo(m), shape: sh, site: "router_info.ReadRouterInfo", parse: func(in []byte) (lib.Fields, []byte, bool, error) {
					a, rem, err := router_info.ReadRouterInfo(in)
					if err != nil {
						return nil, rem, true, err
					}
					var g lib.Fields
					lib.RouterInfoFields(&g, &a)
					return g, rem, true, nil
				}})
			case rm.LeaseSet:
				c02Direction(c, c02case{kind: "leaseset", enc: cn.Bytes, want: mLeaseSet(m), shape: sh, site: "lease_set.ReadLeaseSet", parse: func(in []byte) (lib.Fields, []byte, bool, error) {
					a, err := lease_set.ReadLeaseSet(in)
					if err != nil {
						return nil, nil, false, err
					}
					var g lib.Fields
					lib.LeaseSetFields(&g, &a)
					return g, nil, false, nil
				}})
			case rm.LeaseSet2:
				c02Direction(c, c02case{kind: "leaseset2", enc: cn.Bytes, want: mLeaseSet2(m), shape: sh, site: "lease_set2.ReadLeaseSet2", parse: func(in []byte) (lib.Fields, []byte, bool, error) {
					a, rem, err := lease_set2.ReadLeaseSet2(in)
					if err != nil {
						return nil, rem, true, err
					}
					var g lib.Fields
					lib.LeaseSet2Fields(&g, &a)
					return g, rem, true, nil
				}})
			case rm.MetaLeaseSet:
				c02Direction(c, c02case{kind: "metaleaseset", enc: cn.Bytes, want: mMeta(m), shape: sh, site: "meta_leaseset.ReadMetaLeaseSet", parse: func(in []byte) (lib.Fields, []byte, bool, error) {
					a, rem, err := meta_leaseset.ReadMetaLeaseSet(in)
					if err != nil {
						return nil, rem, true, err
					}
					var g lib.Fields
					lib.MetaLeaseSetFields(&g, &a)
					return g, rem, true, nil
				}})
			case rm.EncryptedLeaseSet:
				c02Direction(c, c02case{kind: "encleaseset", enc: cn.Bytes, want: mELS(m), shape: sh, site: "encrypted_leaseset.ReadEncryptedLeaseSet", parse: func(in []byte) (lib.Fields, []byte, bool, error) {
					a, rem, err := encrypted_leaseset.ReadEncryptedLeaseSet(in)
					if err != nil {
						return nil, rem, true, err
					}
					var g lib.Fields
					lib.EncryptedLeaseSetFields(&g, &a)
					return g, rem, true, nil
				}})
			case rm.KAC:
				if cn.Kind != "kac" {
					continue
				}
				f := &mfields{}
				mKAC(f, "", m)
				c02Direction(c, c02case{kind: "kac", enc: cn.Bytes, want: f.Fields, shape: sh, site: "keys_and_cert.ReadKeysAndCert", parse: func(in []byte) (lib.Fields, []byte, bool, error) {
					k, rem, err := keys_and_cert.ReadKeysAndCert(in)
					if err != nil {
						return nil, rem, true, err
					}
					var g lib.Fields
					lib.KACFields(&g, "", k)
					return g, rem, true, nil
				}})
			case rm.Cert:
				f := &mfields{}
				mCert(f, "", m)
				c02Direction(c, c02case{kind: "cert", enc: cn.Bytes, want: f.Fields, shape: sh, site: "certificate.ReadCertificate", parse: func(in []byte) (lib.Fields, []byte, bool, error) {
					cert, rem, err := certificate.ReadCertificate(in)
					if err != nil {
						return nil, rem, true, err
					}
					var g lib.Fields
					lib.CertFields(&g, "", cert)
					return g, rem, true, nil
				}})
			}
		}
	})

	runC02B(c, n)
}

// ---- direction B: library constructors -> Bytes() -> independent decoder -------------------

func c02B(c *core.Ctx, site string, sh gen.Shape, want any, build func() (ser []byte, refused bool, err error), decode func(b []byte) (any, int, error)) {
	var ser []byte
	var refused bool
	var err error
	panicked, _, _ := c.Call(site, nil, func() { ser, refused, err = build() })
	c.Eval(1)
	if panicked {
		return
	}
	sh2 := gen.Shape{"direction": "encode"}
	for k, v := range sh {
		sh2[k] = v
	}
	if refused {
		c.Bucket("B-refused/" + site)
		return
	}
	c.OpResult(site, err == nil)
	if err != nil {
		// a constructor may legitimately refuse a shape; only counted
		c.Bucket("B-constructor-error/" + site)
		return
	}
	c.Nontrivial([]byte(site), ser)
	c.Bucket(fmt.Sprintf("B/%s/sig%v-crypto%v-%v", site, sh["sig"], sh["crypto"], sh["cert"]))
	got, n, derr := decode(ser)
	if derr != nil {
		c.Violate(site, "constructed-bytes-not-decodable", sh2, ser, fmt.Sprintf("independent decoder: %v", derr))
		return
	}
	if n != len(ser) {
		c.Violate(site, "constructed-bytes-extent", sh2, ser, fmt.Sprintf("serialisation is %d bytes, the structure it encodes ends at %d", len(ser), n))
		return
	}
	if !reflect.DeepEqual(normalize(got), normalize(want)) {
		c.Violate(site, "constructed-field-differs", sh2, ser, fmt.Sprintf("decoded %s\nexpected %s", lib.Render(got), lib.Render(want)))
		return
	}
	c.Sample(gen.Shape{"direction": "encode", "op": site, "shape": sh, "len": len(ser)})
}

// normalize: nil and empty byte slices / pair lists compare equal.
func normalize(v any) string { return lib.Render(canon(reflect.ValueOf(v)).Interface()) }

func canon(v reflect.Value) reflect.Value {
	switch v.Kind() {
	case reflect.Ptr:
		if v.IsNil() {
			return v
		}
		n := reflect.New(v.Type().Elem())
		n.Elem().Set(canon(v.Elem()))
		return n
	case reflect.Struct:
		n := reflect.New(v.Type()).Elem()
		for i := 0; i < v.NumField(); i++ {
			if n.Field(i).CanSet() {
				n.Field(i).Set(canon(v.Field(i)))
			}
		}
		return n
	case reflect.Slice:
		n := reflect.MakeSlice(v.Type(), v.Len(), v.Len())
		for i := 0; i < v.Len(); i++ {
			n.Index(i).Set(canon(v.Index(i)))
		}
		return n
	}
	return v
}

func sortedMapping(m rm.Mapping) rm.Mapping {
	out := rm.Mapping{Pairs: append([]rm.Pair{}, m.Pairs...)}
	sort.SliceStable(out.Pairs, func(i, j int) bool { return string(out.Pairs[i].K) < string(out.Pairs[j].K) })
	return out
}

func runC02B(c *core.Ctx, n int) {
	c.Job("B/cert", n, func(i int, r *core.Rand) {
		m := gen.Cert(r)
		variant := i % 2
		site := []string{"certificate.NewCertificateWithType", "certificate.CertificateBuilder"}[variant]
		c02B(c, site, gen.Shape{"type": int(m.Type), "plen": len(m.Payload)}, m, func() ([]byte, bool, error) {
			var cert *certificate.Certificate
			var err error
			if variant == 0 {
				cert, err = lib.BuildCert(m)
			} else {
				cert, err = lib.BuildCertViaBuilder(m)
			}
			if err != nil {
				return nil, false, err
			}
			return cert.Bytes(), false, nil
		}, func(b []byte) (any, int, error) { return rm.DecodeCert(b) })
	})

	c.Job("B/keycert", n/2, func(i int, r *core.Rand) {
		sig := rm.KACSigTypes[i%len(rm.KACSigTypes)]
		cr := rm.KACCryptoTypes[(i/len(rm.KACSigTypes))%len(rm.KACCryptoTypes)]
		m := rm.KeyCert(sig, cr, nil)
		c02B(c, "key_certificate.NewKeyCertificateWithTypes", gen.Shape{"sig": sig, "crypto": cr}, m, func() ([]byte, bool, error) {
			kc, err := key_certificate.NewKeyCertificateWithTypes(sig, cr)
			if err != nil {
				return nil, false, err
			}
			return kc.Bytes(), false, nil
		}, func(b []byte) (any, int, error) { return rm.DecodeCert(b) })
	})

	type identCtor struct {
		name    string
		sigs    []int
		cryptos []int
		build   func(k rm.KAC) ([]byte, bool, error)
	}
	ctors := []identCtor{
		{"keys_and_cert.NewKeysAndCert", rm.KACSigTypes, rm.KACCryptoTypes, func(k rm.KAC) ([]byte, bool, error) {
			v, ok, err := lib.BuildKAC(k)
			if !ok || err != nil {
				return nil, !ok, err
			}
			b, err := v.Bytes()
			return b, false, err
		}},
		{"destination.NewDestination", rm.DestSigTypes, rm.IdentCryptoTypes, func(k rm.KAC) ([]byte, bool, error) {
			v, ok, err := lib.BuildDestination(k)
			if !ok || err != nil {
				return nil, !ok, err
			}
			b, err := v.Bytes()
			return b, false, err
		}},
		{"router_identity.NewRouterIdentity", rm.RouterSigTypes, rm.IdentCryptoTypes, func(k rm.KAC) ([]byte, bool, error) {
			v, ok, err := lib.BuildRouterIdentity(k, 0)
			if !ok || err != nil {
				return nil, !ok, err
			}
			b, err := v.Bytes()
			return b, false, err
		}},
		{"router_identity.NewRouterIdentityFromKeysAndCert", rm.RouterSigTypes, rm.IdentCryptoTypes, func(k rm.KAC) ([]byte, bool, error) {
			v, ok, err := lib.BuildRouterIdentity(k, 1)
			if !ok || err != nil {
				return nil, !ok, err
			}
			b, err := v.Bytes()
			return b, false, err
		}},
	}
	for _, ct := range ctors {
		ct := ct
		c.Job("B/"+ct.name, n, func(i int, r *core.Rand) {
			sig := ct.sigs[i%len(ct.sigs)]
			cr := ct.cryptos[(i/len(ct.sigs))%len(ct.cryptos)]
			m, sh := gen.KACOf(r, sig, cr)
			c02B(c, ct.name, sh, m, func() ([]byte, bool, error) { return ct.build(m) },
				func(b []byte) (any, int, error) { return rm.DecodeKAC(b) })
		})
	}

	c.Job("B/mapping", n, func(i int, r *core.Rand) {
		m := gen.Mapping(r, 30)
		variant := i % 2
		site := []string{"data.GoMapToMapping", "data.ValuesToMapping"}[variant]
		c02B(c, site, gen.Shape{"pairs": len(m.Pairs)}, sortedMapping(m), func() ([]byte, bool, error) {
			var mp *data.Mapping
			var err error
			if variant == 0 {
				mp, err = data.GoMapToMapping(lib.MappingToGo(m))
			} else {
				mp, err = lib.BuildMappingValues(m)
			}
			if err != nil {
				return nil, false, err
			}
			return mp.Data(), false, nil
		}, func(b []byte) (any, int, error) {
			d, n, wf, err := rm.DecodeMapping(b)
			if err == nil && !wf {
				err = fmt.Errorf("mapping body is not a sequence of pairs")
			}
			return d, n, err
		})
	})

	c.Job("B/raddr", n, func(i int, r *core.Rand) {
		m := gen.RouterAddress(r)
		m.Expiration = [8]byte{} // the constructor always writes the null date
		if i%12 == 7 {
			// a string of more than 255 BYTES (fewer than 256 characters: multi-byte UTF-8) as option key,
			// option value or transport style: there is no encoding for it - the constructor refuses, or
			// (for the oracle below) the bytes would have to decode to these very fields
			long := utf8OfLen(r, 256+r.Pick(45))
			switch (i / 12) % 3 {
			case 0:
				m.Options.Pairs = append(append([]rm.Pair{}, m.Options.Pairs...), rm.Pair{K: []byte("zz-note"), V: long})
			case 1:
				m.Options.Pairs = append(append([]rm.Pair{}, m.Options.Pairs...), rm.Pair{K: long, V: []byte("v")})
			default:
				m.Style = long
			}
		}
		want := m
		want.Options = sortedMapping(m.Options)
		c02B(c, "router_address.NewRouterAddress", gen.Shape{"opts": len(m.Options.Pairs), "style": len(m.Style)}, want, func() ([]byte, bool, error) {
			if len(m.Style) == 0 {
				return nil, true, nil
			}
			a, err := lib.BuildRouterAddress(m)
			if err != nil {
				return nil, false, err
			}
			return a.Bytes(), false, nil
		}, func(b []byte) (any, int, error) {
			d, n, wf, err := rm.DecodeRouterAddress(b)
			if err == nil && !wf {
				err = fmt.Errorf("options body is not a sequence of pairs")
			}
			return d, n, err
		})
	})

	c.Job("B/lease", n/2, func(i int, r *core.Rand) {
		m := gen.Lease(r)
		m.EndMs &= 1<<62 - 1
		c02B(c, "lease.NewLease", gen.Shape{}, m, func() ([]byte, bool, error) {
			l, err := lib.BuildLease(m)
			if err != nil {
				return nil, false, err
			}
			return append([]byte{}, l.Bytes()...), false, nil
		}, func(b []byte) (any, int, error) { return rm.DecodeLease(b) })
		m2 := gen.Lease2(r)
		c02B(c, "lease.NewLease2", gen.Shape{}, m2, func() ([]byte, bool, error) {
			l, err := lib.BuildLease2(m2)
			if err != nil {
				return nil, false, err
			}
			return append([]byte{}, l.Bytes()...), false, nil
		}, func(b []byte) (any, int, error) { return rm.DecodeLease2(b) })
	})

	c.Job("B/offline", n/2, func(i int, r *core.Rand) {
		ds := []int{0, 1, 2, 7, 8, 11}[i%6]
		m := gen.Offline(r, ds)
		c02B(c, "offline_signature.NewOfflineSignature", gen.Shape{"dest_sig": ds, "transient": int(m.SigType)}, m, func() ([]byte, bool, error) {
			o, err := lib.BuildOffline(m, ds)
			if err != nil {
				return nil, false, err
			}
			return o.Bytes(), false, nil
		}, func(b []byte) (any, int, error) { return rm.DecodeOffline(b, ds) })
	})

	// signing constructors: field layout of what they emit (signatures are checked by C06)
	c.Job("B/leaseset2", n, func(i int, r *core.Rand) {
		m, sh := gen.LeaseSet2(r)
		want := m
		want.Options = sortedMapping(m.Options)
		if lib.HandsOverUnsorted(m.Options) {
			// the constructor is given a parsed, unsorted Mapping and stores it as given: the
			// encoding carries the pairs in the caller's order
			want.Options = m.Options
			sh["options_handed_over_unsorted"] = true
		}
		c02B(c, "lease_set2.NewLeaseSet2", sh, want, func() ([]byte, bool, error) {
			v, ok, err := lib.BuildLeaseSet2(m, nil)
			if !ok || err != nil {
				return nil, !ok, err
			}
			b, err := v.Bytes()
			return b, false, err
		}, func(b []byte) (any, int, error) {
			d, n, _, err := rm.DecodeLeaseSet2(b)
			if err == nil {
				d.Sig = want.Sig // the signature bytes are not part of the layout comparison
			}
			return d, n, err
		})
	})

	c.Job("B/encleaseset", n, func(i int, r *core.Rand) {
		m, sh := gen.EncryptedLeaseSet(r)
		key := make([]byte, 64)
		c02B(c, "encrypted_leaseset.NewEncryptedLeaseSet", sh, m, func() ([]byte, bool, error) {
			v, err := lib.BuildEncryptedLeaseSet(m, key)
			if err != nil {
				return nil, false, err
			}
			b, err := v.Bytes()
			return b, false, err
		}, func(b []byte) (any, int, error) {
			d, n, err := rm.DecodeEncryptedLeaseSet(b)
			if err == nil {
				d.Sig = m.Sig
			}
			return d, n, err
		})
	})

	c.Job("B/leaseset", n/2, func(i int, r *core.Rand) {
		m, sh := gen.LeaseSet(r)
		for j := range m.Leases {
			m.Leases[j].EndMs &= 1<<62 - 1
		}
		k, _ := rm.NewSigKey(7, r)
		priv, _ := lib.LibSigningPrivateKey(k)
		c02B(c, "lease_set.NewLeaseSet", sh, m, func() ([]byte, bool, error) {
			if sh["sig"].(int) != 7 {
				return nil, true, nil // signer/identity pairing for other types is exercised by C06
			}
			v, ok, err := lib.BuildLeaseSet(m, priv)
			if !ok || err != nil {
				return nil, !ok, err
			}
			b, err := v.Bytes()
			return b, false, err
		}, func(b []byte) (any, int, error) {
			d, n, err := rm.DecodeLeaseSet(b)
			if err == nil {
				d.Sig = m.Sig
			}
			return d, n, err
		})
	})

	c.Job("B/rinfo", n/2, func(i int, r *core.Rand) {
		m, sh := gen.RouterInfo(r)
		m.Published &= 1<<62 - 1
		k, _ := rm.NewSigKey(7, r)
		priv, _ := lib.LibSigningPrivateKey(k)
		want := m
		want.Options = sortedMapping(m.Options)
		want.Addrs = nil
		skip := false
		for _, a := range m.Addrs {
			a.Expiration = [8]byte{}
			a.Options = sortedMapping(a.Options)
			want.Addrs = append(want.Addrs, a)
			if len(a.Style) == 0 {
				skip = true
			}
		}
		c02B(c, "router_info.NewRouterInfo", sh, want, func() ([]byte, bool, error) {
			if sh["sig"].(int) != 7 || skip {
				return nil, true, nil
			}
			v, ok, err := lib.BuildRouterInfo(m, priv, i%2)
			if !ok || err != nil {
				return nil, !ok, err
			}
			b, err := v.Bytes()
			return b, false, err
		}, func(b []byte) (any, int, error) {
			d, n, wf, err := rm.DecodeRouterInfo(b)
			if err == nil && !wf {
				err = fmt.Errorf("a mapping body is not a sequence of pairs")
			}
			if err == nil {
				d.Sig = want.Sig
			}
			return d, n, err
		})
	})

	// RouterInfo.AddAddress - the one method that edits a structure after it was built: the value
	// serialises to the same fields with exactly that address appended (count byte included), for
	// constructed and for parsed values; and a copy of the struct taken BEFORE the call still
	// serialises to what it was (count and addresses belong together in every copy)
	c.Job("B/rinfo-add-address", n/3, func(i int, r *core.Rand) {
		m, sh := gen.RouterInfo(r)
		m.Published &= 1<<62 - 1
		m.PeerSize, m.PeerHashes = 0, nil
		if len(m.Addrs) > 6 {
			m.Addrs = m.Addrs[:6]
		}
		for j := range m.Addrs {
			m.Addrs[j].Expiration = [8]byte{}
			m.Addrs[j].Options = sortedMapping(m.Addrs[j].Options)
			if len(m.Addrs[j].Style) == 0 {
				m.Addrs[j].Style = []byte("NTCP2")
			}
		}
		m.Options = sortedMapping(m.Options)
		extra := gen.RouterAddress(r)
		extra.Expiration = [8]byte{}
		extra.Options = sortedMapping(extra.Options)
		if len(extra.Style) == 0 {
			extra.Style = []byte("SSU2")
		}
		ra, err := lib.BuildRouterAddress(extra)
		if err != nil || ra == nil {
			return
		}
		var ri *router_info.RouterInfo
		origin := "parsed"
		if i%2 == 0 {
			p, _, err := router_info.ReadRouterInfo(m.Encode())
			if err != nil {
				return
			}
			ri = &p
		} else {
			origin = "constructed"
			if sh["sig"].(int) != 7 {
				return
			}
			k, _ := rm.NewSigKey(7, r)
			priv, _ := lib.LibSigningPrivateKey(k)
			v, ok, err := lib.BuildRouterInfo(m, priv, i%4/2)
			if !ok || err != nil || v == nil {
				return
			}
			ri = v
		}
		sh["origin"] = origin
		c.Eval(1)
		before, err := ri.Bytes()
		if err != nil {
			return
		}
		before = append([]byte{}, before...)
		copyBefore := *ri
		var aerr error
		if p, _, _ := c.Call("router_info.RouterInfo.AddAddress", before, func() { aerr = ri.AddAddress(ra) }); p || aerr != nil {
			return
		}
		c.Nontrivial([]byte("add-address"), before)
		after, err := ri.Bytes()
		if err != nil {
			c.Violate("router_info.RouterInfo.AddAddress", "constructed-bytes-not-decodable", sh, before, fmt.Sprintf("after AddAddress the value does not serialise: %v", err))
			return
		}
		d0, _, _, err0 := rm.DecodeRouterInfo(before)
		d1, n1, wf, err1 := rm.DecodeRouterInfo(after)
		if err0 != nil {
			return
		}
		if err1 != nil || !wf || n1 != len(after) {
			c.Violate("router_info.RouterInfo.AddAddress", "constructed-bytes-not-decodable", sh, after, fmt.Sprintf("independent decoder on the bytes after AddAddress: %v (ends at %d of %d)", err1, n1, len(after)))
			return
		}
		wantAddrs := append(append([]rm.RouterAddress{}, d0.Addrs...), extra)
		if len(d1.Addrs) != len(wantAddrs) {
			c.Violate("router_info.RouterInfo.AddAddress", "constructed-field-differs", sh, after, fmt.Sprintf("%d addresses before, %d after adding one", len(d0.Addrs), len(d1.Addrs)))
			return
		}
		d0x, d1x := d0, d1
		d0x.Addrs, d1x.Addrs = nil, nil
		if !reflect.DeepEqual(normalize(d1.Addrs), normalize(wantAddrs)) || !reflect.DeepEqual(normalize(d0x), normalize(d1x)) {
			c.Violate("router_info.RouterInfo.AddAddress", "constructed-field-differs", sh, after, "after AddAddress the serialisation is not the previous fields with the address appended")
			return
		}
		if cb, err := copyBefore.Bytes(); err != nil || !bytes.Equal(cb, before) {
			c.Violate("router_info.RouterInfo.AddAddress", "copy-taken-before-the-call-changed", sh, before, fmt.Sprintf("a struct copy taken before AddAddress on the original now serialises differently (%v): %s", err, describeDiff(before, cb)))
			return
		}
		c.Bucket("add-address-ok/" + origin)
	})

	// values built by the constructors are values of their own: after the caller has edited ONE of
	// them through its public surface (exported fields, what accessors hand out), every other value
	// - built before or after the edit, from other or from the same arguments - serialises to what
	// the independent decoder expects (constructors that point all values at one shared object)
	type built struct {
		val any
		ser func() ([]byte, error)
	}
	c.Job("B/independence", n/2, func(i int, r *core.Rand) {
		kinds := []string{"raddr", "rinfo", "lease", "lease2", "dest", "rident", "kac", "leaseset2", "encleaseset", "cert", "keycert", "mapping"}
		kind := kinds[i%len(kinds)]
		k7, _ := rm.NewSigKey(7, r)
		priv7, _ := lib.LibSigningPrivateKey(k7)
		mk := func(rr *core.Rand) (built, bool) {
			switch kind {
			case "raddr":
				m := gen.RouterAddress(rr)
				if len(m.Style) == 0 {
					m.Style = []byte("NTCP2")
				}
				v, err := lib.BuildRouterAddress(m)
				if err != nil || v == nil {
					return built{}, false
				}
				return built{v, func() ([]byte, error) { return v.Bytes(), nil }}, true
			case "rinfo":
				m, sh := gen.RouterInfo(rr)
				if sh["sig"].(int) != 7 {
					return built{}, false
				}
				m.Published &= 1<<62 - 1
				for j := range m.Addrs {
					if len(m.Addrs[j].Style) == 0 {
						m.Addrs[j].Style = []byte("SSU2")
					}
				}
				v, ok, err := lib.BuildRouterInfo(m, priv7, 0)
				if !ok || err != nil || v == nil {
					return built{}, false
				}
				return built{v, func() ([]byte, error) { return v.Bytes() }}, true
			case "lease":
				m := gen.Lease(rr)
				m.EndMs &= 1<<62 - 1
				v, err := lib.BuildLease(m)
				if err != nil || v == nil {
					return built{}, false
				}
				return built{v, func() ([]byte, error) { return v.Bytes(), nil }}, true
			case "lease2":
				v, err := lib.BuildLease2(gen.Lease2(rr))
				if err != nil || v == nil {
					return built{}, false
				}
				return built{v, func() ([]byte, error) { return v.Bytes(), nil }}, true
			case "dest":
				m, _ := gen.KAC(rr, rm.DestSigTypes, rm.IdentCryptoTypes)
				v, ok, err := lib.BuildDestination(m)
				if !ok || err != nil || v == nil {
					return built{}, false
				}
				return built{v, func() ([]byte, error) { return v.Bytes() }}, true
			case "rident":
				m, _ := gen.KAC(rr, rm.RouterSigTypes, rm.IdentCryptoTypes)
				v, ok, err := lib.BuildRouterIdentity(m, rr.Pick(2))
				if !ok || err != nil || v == nil {
					return built{}, false
				}
				return built{v, func() ([]byte, error) { return v.Bytes() }}, true
			case "kac":
				m, _ := gen.KAC(rr, rm.KACSigTypes, rm.KACCryptoTypes)
				v, ok, err := lib.BuildKAC(m)
				if !ok || err != nil || v == nil {
					return built{}, false
				}
				return built{v, func() ([]byte, error) { return v.Bytes() }}, true
			case "leaseset2":
				m, _ := gen.LeaseSet2(rr)
				m.Flags, m.Offline = m.Flags&6, nil
				if len(m.Leases) == 0 {
					m.Leases = []rm.Lease2{gen.Lease2(rr)}
				}
				m.Keys = []rm.EncKey{{Type: 4, Data: rr.Bytes(32)}}
				v, ok, err := lib.BuildLeaseSet2(m, nil)
				if !ok || err != nil || v == nil {
					return built{}, false
				}
				return built{v, func() ([]byte, error) { return v.Bytes() }}, true
			case "encleaseset":
				m, _ := gen.EncryptedLeaseSet(rr)
				m.SigType, m.BlindedKey, m.Offline, m.Flags = 7, k7.Pub, nil, m.Flags&2
				v, err := lib.BuildEncryptedLeaseSet(m, k7.Ed25519Private())
				if err != nil || v == nil {
					return built{}, false
				}
				return built{v, func() ([]byte, error) { return v.Bytes() }}, true
			case "cert":
				v, err := lib.BuildCert(gen.Cert(rr))
				if err != nil || v == nil {
					return built{}, false
				}
				return built{v, func() ([]byte, error) { return v.Bytes(), nil }}, true
			case "keycert":
				m, _ := gen.KAC(rr, rm.KACSigTypes, rm.KACCryptoTypes)
				v, ok, err := lib.BuildKeyCert(m.Cert)
				if !ok || err != nil || v == nil {
					return built{}, false
				}
				return built{v, func() ([]byte, error) { return v.Data() }}, true
			default:
				v, err := lib.BuildMappingValues(gen.Mapping(rr, 8))
				if err != nil || v == nil {
					return built{}, false
				}
				return built{v, func() ([]byte, error) { return v.Data(), nil }}, true
			}
		}
		seedA := fmt.Sprint("indep-a", i)
		a, ok := mk(core.NewRand(c.Seed, seedA))
		if !ok {
			return
		}
		a0, err := a.ser()
		if err != nil {
			return
		}
		a0 = append([]byte{}, a0...)
		b, ok := mk(core.NewRand(c.Seed, "indep-b", i))
		if !ok {
			return
		}
		c.Eval(1)
		edits := 0
		func() {
			defer func() { _ = recover() }()
			edits = lib.ScribbleExported(b.val) + lib.ScribbleViaAccessors(b.val)
		}()
		if edits == 0 {
			c.Bucket("B/independence/no-writable-surface/" + kind)
			return
		}
		c.Nontrivial([]byte("independence"), []byte(kind), a0)
		sh := gen.Shape{"kind": kind, "edits_to_the_other_value": edits}
		if a1, err := a.ser(); err != nil || !bytes.Equal(a1, a0) {
			c.Violate("constructed/"+kind, "serialisation-changed-when-another-value-was-edited", sh, a0, fmt.Sprintf("a value built earlier serialises differently (%v) after another constructed value was edited through its public surface: %s", err, describeDiff(a0, a1)))
			return
		}
		// built afterwards from the same arguments as the first value. Signatures over the same bytes
		// may differ where the scheme is randomised; everything this job builds signs with Ed25519.
		if a2, ok := mk(core.NewRand(c.Seed, seedA)); ok {
			if s2, err := a2.ser(); err != nil || !bytes.Equal(s2, a0) {
				c.Violate("constructed/"+kind, "construction-differs-after-another-value-was-edited", sh, a0, fmt.Sprintf("the same arguments give another serialisation (%v) once a constructed value of this kind has been edited by its holder: %s", err, describeDiff(a0, s2)))
				return
			}
		}
		c.Bucket("B/independence/ok/" + kind)
	})
}
