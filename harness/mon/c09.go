package mon

import (
	"encoding/binary"
	"fmt"
	"strings"
	"time"

	"github.com/go-i2p/common/certificate"
	"github.com/go-i2p/common/destination"
	"github.com/go-i2p/common/encrypted_leaseset"
	"github.com/go-i2p/common/key_certificate"
	"github.com/go-i2p/common/keys_and_cert"
	"github.com/go-i2p/common/lease_set"
	"github.com/go-i2p/common/lease_set2"
	"github.com/go-i2p/common/meta_leaseset"
	"github.com/go-i2p/common/router_identity"
	"github.com/go-i2p/common/router_info"

	"go.step.sm/crypto/x25519"

	"verifharness/core"
	"verifharness/gen"
	"verifharness/lib"
	rm "verifharness/refmodel"
)

// C09 — prohibited key types never appear in a Destination or RouterIdentity.
func init() { register("C09", runC09) }

type identPath struct {
	name   string
	router bool // yields a RouterIdentity (else a Destination)
	// run feeds an identity with the given types through the path and returns the key types of
	// every identity the call yielded successfully.
	run func(k rm.KAC, r *core.Rand) (yielded []*keys_and_cert.KeysAndCert, err error)
}

func typesOf(k *keys_and_cert.KeysAndCert) (int, int, bool) {
	if k == nil || k.KeyCertificate == nil {
		return 0, 0, false
	}
	return k.KeyCertificate.SigningPublicKeyType(), k.KeyCertificate.PublicKeyType(), true
}

func c09Paths() []identPath {
	one := func(k *keys_and_cert.KeysAndCert) []*keys_and_cert.KeysAndCert {
		if k == nil {
			return nil
		}
		return []*keys_and_cert.KeysAndCert{k}
	}
	return []identPath{
		{"destination.ReadDestination", false, func(k rm.KAC, r *core.Rand) ([]*keys_and_cert.KeysAndCert, error) {
			d, _, err := destination.ReadDestination(k.Encode())
			if err != nil {
				return nil, err
			}
			return one(d.KeysAndCert), nil
		}},
		{"destination.NewDestinationFromBytes", false, func(k rm.KAC, r *core.Rand) ([]*keys_and_cert.KeysAndCert, error) {
			d, _, err := destination.NewDestinationFromBytes(k.Encode())
			if err != nil || d == nil {
				return nil, err
			}
			return one(d.KeysAndCert), nil
		}},
		{"destination.NewDestination(ReadKeysAndCert)", false, func(k rm.KAC, r *core.Rand) ([]*keys_and_cert.KeysAndCert, error) {
			kac, _, err := keys_and_cert.ReadKeysAndCert(k.Encode())
			if err != nil {
				return nil, err
			}
			d, err := destination.NewDestination(kac)
			if err != nil || d == nil {
				return nil, err
			}
			return one(d.KeysAndCert), nil
		}},
		{"destination.NewDestination(NewKeysAndCert)", false, func(k rm.KAC, r *core.Rand) ([]*keys_and_cert.KeysAndCert, error) {
			d, ok, err := lib.BuildDestination(k)
			if !ok || err != nil || d == nil {
				if !ok {
					err = fmt.Errorf("no constructor path")
				}
				return nil, err
			}
			return one(d.KeysAndCert), nil
		}},
		{"router_identity.ReadRouterIdentity", true, func(k rm.KAC, r *core.Rand) ([]*keys_and_cert.KeysAndCert, error) {
			d, _, err := router_identity.ReadRouterIdentity(k.Encode())
			if err != nil || d == nil {
				return nil, err
			}
			return one(d.KeysAndCert), nil
		}},
		{"router_identity.NewRouterIdentityFromBytes", true, func(k rm.KAC, r *core.Rand) ([]*keys_and_cert.KeysAndCert, error) {
			d, _, err := router_identity.NewRouterIdentityFromBytes(k.Encode())
			if err != nil || d == nil {
				return nil, err
			}
			return one(d.KeysAndCert), nil
		}},
		{"router_identity.NewRouterIdentity", true, func(k rm.KAC, r *core.Rand) ([]*keys_and_cert.KeysAndCert, error) {
			d, ok, err := lib.BuildRouterIdentity(k, 0)
			if !ok || err != nil || d == nil {
				if !ok {
					err = fmt.Errorf("no constructor path")
				}
				return nil, err
			}
			return one(d.KeysAndCert), nil
		}},
		{"router_identity.NewRouterIdentityFromKeysAndCert(ReadKeysAndCert)", true, func(k rm.KAC, r *core.Rand) ([]*keys_and_cert.KeysAndCert, error) {
			kac, _, err := keys_and_cert.ReadKeysAndCert(k.Encode())
			if err != nil {
				return nil, err
			}
			d, err := router_identity.NewRouterIdentityFromKeysAndCert(kac)
			if err != nil || d == nil {
				return nil, err
			}
			return one(d.KeysAndCert), nil
		}},
		{"router_identity.NewRouterIdentityWithCompressiblePadding", true, func(k rm.KAC, r *core.Rand) ([]*keys_and_cert.KeysAndCert, error) {
			sig, crypto, isKey, ok := k.Cert.KeyTypes()
			if !isKey || !ok {
				return nil, fmt.Errorf("no constructor path")
			}
			cert, err := lib.BuildCert(k.Cert)
			if err != nil {
				return nil, err
			}
			pk, err := lib.CryptoKeyOf(crypto, k.CryptoKey())
			if err != nil {
				return nil, err
			}
			spk, err := lib.SigningKeyOf(sig, k.SigningKey())
			if err != nil {
				return nil, err
			}
			d, err := router_identity.NewRouterIdentityWithCompressiblePadding(pk, spk, cert)
			if err != nil || d == nil {
				return nil, err
			}
			return one(d.KeysAndCert), nil
		}},
		{"router_identity.RouterIdentity.AsDestination", false, func(k rm.KAC, r *core.Rand) ([]*keys_and_cert.KeysAndCert, error) {
			d, _, err := router_identity.ReadRouterIdentity(k.Encode())
			if err != nil || d == nil {
				return nil, err
			}
			ad := d.AsDestination()
			return one(ad.KeysAndCert), nil
		}},
		{"lease_set.ReadDestinationFromLeaseSet", false, func(k rm.KAC, r *core.Rand) ([]*keys_and_cert.KeysAndCert, error) {
			d, _, err := lease_set.ReadDestinationFromLeaseSet(append(k.Encode(), r.Bytes(40)...))
			if err != nil {
				return nil, err
			}
			return one(d.KeysAndCert), nil
		}},
		{"lease_set.ReadLeaseSet", false, func(k rm.KAC, r *core.Rand) ([]*keys_and_cert.KeysAndCert, error) {
			l, _ := gen.LeaseSet(r)
			l.Dest = k
			s, _ := k.Types()
			pl, ok := rm.SigPubLen(s)
			sl, ok2 := rm.SigLen(s)
			if !ok || !ok2 {
				pl, sl = 128, 40
			}
			l.SigningKey = r.Bytes(pl)
			gen.DSAInRange(l.SigningKey)
			l.Sig = r.Bytes(sl)
			ls, err := lease_set.ReadLeaseSet(l.Encode())
			if err != nil {
				return nil, err
			}
			d := ls.Destination()
			return one(d.KeysAndCert), nil
		}},
		{"lease_set2.ReadLeaseSet2", false, func(k rm.KAC, r *core.Rand) ([]*keys_and_cert.KeysAndCert, error) {
			l, _ := gen.LeaseSet2(r)
			l.Dest, l.Offline, l.Flags = k, nil, 0
			s, _ := k.Types()
			sl, ok := rm.SigLen(s)
			if !ok {
				sl = 64
			}
			l.Sig = r.Bytes(sl)
			ls, _, err := lease_set2.ReadLeaseSet2(l.Encode())
			if err != nil {
				return nil, err
			}
			d := ls.Destination()
			return one(d.KeysAndCert), nil
		}},
		{"meta_leaseset.ReadMetaLeaseSet", false, func(k rm.KAC, r *core.Rand) ([]*keys_and_cert.KeysAndCert, error) {
			l, _ := gen.MetaLeaseSet(r)
			l.Dest, l.Offline, l.Flags = k, nil, 0
			s, _ := k.Types()
			sl, ok := rm.SigLen(s)
			if !ok {
				sl = 64
			}
			l.Sig = r.Bytes(sl)
			ls, _, err := meta_leaseset.ReadMetaLeaseSet(l.Encode())
			if err != nil {
				return nil, err
			}
			d := ls.Destination()
			return one(d.KeysAndCert), nil
		}},
		{"lease_set2.ReadLeaseSet2(offline keys)", false, func(k rm.KAC, r *core.Rand) ([]*keys_and_cert.KeysAndCert, error) {
			// with an offline block: the trailing signature is the transient key's, the block's own
			// signature the destination's — two different lengths for most pairs of types
			l, _ := gen.LeaseSet2(r)
			s, _ := k.Types()
			tt := []int{7, 11, 0, 1, 2}[r.Pick(5)]
			o := gen.OfflineOf(r, s, tt)
			if _, ok := rm.SigLen(s); !ok {
				return nil, fmt.Errorf("no signature length for the destination type")
			}
			l.Dest, l.Offline, l.Flags = k, &o, 1
			sl, _ := rm.SigLen(tt)
			l.Sig = r.Bytes(sl)
			ls, _, err := lease_set2.ReadLeaseSet2(l.Encode())
			if err != nil {
				return nil, err
			}
			d := ls.Destination()
			return one(d.KeysAndCert), nil
		}},
		{"meta_leaseset.ReadMetaLeaseSet(offline keys)", false, func(k rm.KAC, r *core.Rand) ([]*keys_and_cert.KeysAndCert, error) {
			l, _ := gen.MetaLeaseSet(r)
			s, _ := k.Types()
			tt := []int{7, 11, 0, 1, 2}[r.Pick(5)]
			o := gen.OfflineOf(r, s, tt)
			if _, ok := rm.SigLen(s); !ok {
				return nil, fmt.Errorf("no signature length for the destination type")
			}
			l.Dest, l.Offline, l.Flags = k, &o, 1
			sl, _ := rm.SigLen(tt)
			l.Sig = r.Bytes(sl)
			ls, _, err := meta_leaseset.ReadMetaLeaseSet(l.Encode())
			if err != nil {
				return nil, err
			}
			d := ls.Destination()
			return one(d.KeysAndCert), nil
		}},
		{"router_info.ReadRouterInfo", true, func(k rm.KAC, r *core.Rand) ([]*keys_and_cert.KeysAndCert, error) {
			l, _ := gen.RouterInfo(r)
			l.Ident = k
			s, _ := k.Types()
			sl, ok := rm.SigLen(s)
			if !ok {
				sl = 64
			}
			l.Sig = r.Bytes(sl)
			ri, _, err := router_info.ReadRouterInfo(l.Encode())
			if err != nil {
				return nil, err
			}
			id := ri.RouterIdentity()
			if id == nil {
				return nil, nil
			}
			return one(id.KeysAndCert), nil
		}},
		{"encrypted_leaseset.DecryptInnerData", false, func(k rm.KAC, r *core.Rand) ([]*keys_and_cert.KeysAndCert, error) {
			// an inner LeaseSet2 whose destination has the given types, encrypted by the reference
			l, _ := gen.LeaseSet2(r)
			l.Dest, l.Offline, l.Flags = k, nil, 0
			s, _ := k.Types()
			sl, ok := rm.SigLen(s)
			if !ok {
				sl = 64
			}
			l.Sig = r.Bytes(sl)
			blob, priv, err := encryptForTest(r, l.Encode())
			if err != nil {
				return nil, err
			}
			bk := r.Bytes(32)
			els, err := encrypted_leaseset.NewEncryptedLeaseSet(7, bk, 1, 600, 0, nil, blob, make([]byte, 64))
			if err != nil {
				return nil, err
			}
			inner, err := els.DecryptInnerData(make([]byte, 32), x25519.PrivateKey(priv))
			if err != nil || inner == nil {
				return nil, err
			}
			d := inner.Destination()
			return one(d.KeysAndCert), nil
		}},
		{"encrypted_leaseset.CreateBlindedDestination", false, func(k rm.KAC, r *core.Rand) ([]*keys_and_cert.KeysAndCert, error) {
			// the destination to blind is obtained the way a caller would obtain one: from the
			// destination parser (a real Ed25519 point is needed for blinding)
			key, _ := rm.NewSigKey(7, r)
			k2 := k
			copy(k2.Block[384-32:], key.Pub)
			d, _, err := destination.ReadDestination(k2.Encode())
			if err != nil {
				return nil, err
			}
			bd, err := encrypted_leaseset.CreateBlindedDestination(d, r.Bytes(32), time.Unix(1700000000, 0))
			if err != nil {
				return nil, err
			}
			return one(bd.KeysAndCert), nil
		}},
	}
}

// c09Covered maps every exported function / method whose result type mentions Destination or
// RouterIdentity to the path(s) of c09Paths that exercise it. A census entry missing here
// makes the run inconclusive (a new way to obtain an identity is not yet monitored).
var c09Covered = map[string]string{
	"destination.NewDestination":                               "destination.NewDestination(...)",
	"destination.NewDestinationFromBytes":                      "destination.NewDestinationFromBytes",
	"destination.ReadDestination":                              "destination.ReadDestination",
	"encrypted_leaseset.CreateBlindedDestination":              "encrypted_leaseset.CreateBlindedDestination",
	"lease_set2.(*LeaseSet2).Destination":                      "lease_set2.ReadLeaseSet2 + encrypted_leaseset.DecryptInnerData",
	"lease_set.(LeaseSet).Destination":                         "lease_set.ReadLeaseSet",
	"lease_set.ReadDestinationFromLeaseSet":                    "lease_set.ReadDestinationFromLeaseSet",
	"meta_leaseset.(*MetaLeaseSet).Destination":                "meta_leaseset.ReadMetaLeaseSet",
	"router_identity.(*RouterIdentity).AsDestination":          "router_identity.RouterIdentity.AsDestination",
	"router_identity.NewRouterIdentity":                        "router_identity.NewRouterIdentity",
	"router_identity.NewRouterIdentityFromBytes":               "router_identity.NewRouterIdentityFromBytes",
	"router_identity.NewRouterIdentityFromKeysAndCert":         "router_identity.NewRouterIdentityFromKeysAndCert(ReadKeysAndCert)",
	"router_identity.NewRouterIdentityWithCompressiblePadding": "router_identity.NewRouterIdentityWithCompressiblePadding",
	"router_identity.ReadRouterIdentity":                       "router_identity.ReadRouterIdentity",
	"router_info.(*RouterInfo).RouterIdentity":                 "router_info.ReadRouterInfo",
}

func c09CensusGaps() []string {
	var gaps []string
	for _, f := range lib.CensusFuncs {
		res := f.Results
		if !(strings.Contains(res, "Destination") || strings.Contains(res, "RouterIdentity")) {
			continue
		}
		name := f.Pkg + "." + f.Name
		if f.Recv != "" {
			name = f.Pkg + ".(" + f.Recv + ")." + f.Name
		}
		if _, ok := c09Covered[name]; !ok {
			gaps = append(gaps, name+" -> "+res)
		}
	}
	return gaps
}

func runC09(c *core.Ctx) {
	if gaps := c09CensusGaps(); len(gaps) > 0 && c.Shard == 0 {
		c.FloorFail("census gap: exported functions yielding a Destination/RouterIdentity without a monitored path: " + strings.Join(gaps, "; "))
	}
	c.SetExtra("identity_yielding_api_in_census", int64(len(c09Covered)))
	sigs := []int{}
	for i := 0; i <= 20; i++ {
		sigs = append(sigs, i)
	}
	sigs = append(sigs, 255, 256, 65280, 65534, 65535)
	cryptos := []int{0, 1, 2, 3, 4, 5, 6, 7, 8, 255, 256, 65280, 65534, 65535}
	type pair struct{ s, c int }
	var pairs []pair
	for _, s := range sigs {
		for _, cr := range cryptos {
			pairs = append(pairs, pair{s, cr})
		}
	}
	paths := c09Paths()
	reps := c.N(2, 12)
	total := len(pairs) * reps
	c.Job("pairs", total, func(i int, r *core.Rand) {
		p := pairs[i%len(pairs)]
		c09One(c, paths, p.s, p.c, r, "known-codes")
	})
	c.Exhaustive(fmt.Sprintf("all %d (signing, crypto) pairs over codes 0..20,255,256,65280,65534,65535 x 0..8,255,256,65280,65534,65535 through %d API paths", len(pairs), len(paths)))
	c.Job("reused-inputs", c.N(400, 8000), func(i int, r *core.Rand) { c09ReusedInputs(c, r) })
	// signing keys that do not fit the 128-byte field (ECDSA-P521, RSA-2048/3072/4096) handed to the
	// identity constructors as key objects: whatever comes back is examined like every other
	// identity (RSA is prohibited everywhere; an identity too large for the block is a path of its own)
	bigSig := []int{3, 4, 5, 6}
	bigCr := []int{0, 4, 5, 6, 7}
	c.Job("oversize-signing-keys", len(bigSig)*len(bigCr)*c.N(2, 20), func(i int, r *core.Rand) {
		sg, cr := bigSig[i%len(bigSig)], bigCr[(i/len(bigSig))%len(bigCr)]
		spkLen, _ := rm.SigPubLen(sg)
		cpkLen, _ := rm.CryptoLen(cr)
		kb := r.Bytes(spkLen)
		kb[0] |= 1
		spk, err := lib.SigningKeyOf(sg, kb)
		if err != nil || spk == nil {
			return
		}
		cb := r.Bytes(cpkLen)
		if cr == 0 {
			gen.ElgInRange(cb)
		}
		pk, err := lib.CryptoKeyOf(cr, cb)
		if err != nil || pk == nil {
			return
		}
		// the certificate as a caller would build it: key types, then the part of the signing key
		// that does not fit the block (and, for a caller that does not know better, nothing)
		excess := spkLen - 128
		for variant, payloadExtra := range [][]byte{kb[128:], nil, r.Bytes(excess)} {
			cert, err := lib.BuildCert(rm.KeyCert(sg, cr, payloadExtra))
			if err != nil || cert == nil {
				continue
			}
			pad := r.Bytes(max(0, 384-128-cpkLen))
			type ctor struct {
				site   string
				router bool
				fn     func() *keys_and_cert.KeysAndCert
			}
			ctors := []ctor{
				{"router_identity.NewRouterIdentity", true, func() *keys_and_cert.KeysAndCert {
					if d, err := router_identity.NewRouterIdentity(pk, spk, cert, pad); err == nil && d != nil {
						return d.KeysAndCert
					}
					return nil
				}},
				{"router_identity.NewRouterIdentityWithCompressiblePadding", true, func() *keys_and_cert.KeysAndCert {
					if d, err := router_identity.NewRouterIdentityWithCompressiblePadding(pk, spk, cert); err == nil && d != nil {
						return d.KeysAndCert
					}
					return nil
				}},
				{"destination.NewDestination(NewKeysAndCert)", false, func() *keys_and_cert.KeysAndCert {
					kc, err := key_certificate.KeyCertificateFromCertificate(cert)
					if err != nil || kc == nil {
						return nil
					}
					kk, err := keys_and_cert.NewKeysAndCert(kc, pk, pad, spk)
					if err != nil || kk == nil {
						return nil
					}
					if d, err := destination.NewDestination(kk); err == nil && d != nil {
						return d.KeysAndCert
					}
					return nil
				}},
			}
			for _, ct := range ctors {
				var kac *keys_and_cert.KeysAndCert
				in := []byte(fmt.Sprint(sg, cr, variant))
				// these constructors are not parsers: a panic on a key object they do not support is not
				// judged here, a returned identity is
				func() {
					defer func() { _ = recover() }()
					kac = ct.fn()
				}()
				c.Eval(1)
				c.Nontrivial([]byte("oversize"), in, []byte(ct.site))
				if kac == nil {
					c.Bucket("oversize-signing-keys/refused/" + ct.site)
					continue
				}
				c.Bucket("oversize-signing-keys/returned/" + ct.site)
				ys, yc, ok := typesOf(kac)
				if !ok {
					continue
				}
				bad := rm.ProhibitedInDestination(ys, yc)
				what := "Destination"
				if ct.router {
					bad, what = rm.ProhibitedInRouterIdentity(ys, yc), "RouterIdentity"
				}
				if bad {
					c.Violate(ct.site, "prohibited-type-yielded", gen.Shape{"sig": ys, "crypto": yc, "class": "signing key larger than the 128-byte field handed over as a key object", "certificate_variant": variant}, in,
						fmt.Sprintf("%s declaring signing type %d / crypto type %d returned without error", what, ys, yc))
				}
			}
		}
	})
	c.Job("lifecycle", c.N(480, 9600), func(i int, r *core.Rand) { c09Lifecycle(c, i, r) })
	// what a parser hands back TOGETHER WITH the error that refuses a prohibited type: "never returns"
	// includes the value in the other result position — a complete, usable identity there is returned
	// all the same (a zero or partial value is not one)
	c.Job("returned-with-error", len(pairs)*c.N(1, 4), func(i int, r *core.Rand) {
		p := pairs[i%len(pairs)]
		if !rm.ProhibitedInDestination(p.s, p.c) && !rm.ProhibitedInRouterIdentity(p.s, p.c) {
			return
		}
		k, _ := gen.KACOf(r, 0, 0)
		k.Cert = gen.KeyCert(r, p.s, p.c)
		enc := k.Encode()
		c.Eval(1)
		check := func(site string, router bool, kac *keys_and_cert.KeysAndCert, err error) {
			if err == nil || kac == nil {
				return
			}
			ys, yc, ok := typesOf(kac)
			if !ok {
				return
			}
			bad := rm.ProhibitedInDestination(ys, yc)
			if router {
				bad = rm.ProhibitedInRouterIdentity(ys, yc)
			}
			// complete: it serialises to the bytes that were refused
			var b []byte
			c.Call("c09/returned-with-error/Bytes", enc, func() { b, _ = kac.Bytes() })
			if bad && len(b) >= 387 && string(b) == string(enc[:len(b)]) {
				c.Violate(site, "prohibited-type-yielded-alongside-an-error", gen.Shape{"sig": ys, "crypto": yc, "class": "returned-with-error"}, enc,
					fmt.Sprintf("the call failed (%s) but handed back a complete identity declaring %d/%d", firstLineOf(err.Error()), ys, yc))
			}
			c.Bucket("returned-with-error/examined/" + site)
		}
		c.Call("returned-with-error", enc, func() {
			d, _, err := destination.ReadDestination(enc)
			check("destination.ReadDestination", false, d.KeysAndCert, err)
			if dp, _, err := destination.NewDestinationFromBytes(enc); dp != nil {
				check("destination.NewDestinationFromBytes", false, dp.KeysAndCert, err)
			}
			if ri, _, err := router_identity.ReadRouterIdentity(enc); ri != nil {
				check("router_identity.ReadRouterIdentity", true, ri.KeysAndCert, err)
			}
			if ri, _, err := router_identity.NewRouterIdentityFromBytes(enc); ri != nil {
				check("router_identity.NewRouterIdentityFromBytes", true, ri.KeysAndCert, err)
			}
			l, _ := gen.LeaseSet2(r)
			l.Dest, l.Offline, l.Flags = k, nil, 0
			sl, ok := rm.SigLen(p.s)
			if !ok {
				sl = 64
			}
			l.Sig = r.Bytes(sl)
			ls, _, err := lease_set2.ReadLeaseSet2(l.Encode())
			d2 := ls.Destination()
			check("lease_set2.ReadLeaseSet2", false, d2.KeysAndCert, err)
			ml, _ := gen.MetaLeaseSet(r)
			ml.Dest, ml.Offline, ml.Flags = k, nil, 0
			ml.Sig = r.Bytes(sl)
			ms, _, err := meta_leaseset.ReadMetaLeaseSet(ml.Encode())
			d3 := ms.Destination()
			check("meta_leaseset.ReadMetaLeaseSet", false, d3.KeysAndCert, err)
			info, _ := gen.RouterInfo(r)
			info.Ident = k
			info.Sig = r.Bytes(sl)
			pi, _, err := router_info.ReadRouterInfo(info.Encode())
			if id := pi.RouterIdentity(); id != nil {
				check("router_info.ReadRouterInfo", true, id.KeysAndCert, err)
			}
		})
	})
	c.Job("sampled-unknown", c.N(3000, 60000), func(i int, r *core.Rand) {
		s, cr := r.Pick(65536), r.Pick(65536)
		switch i % 3 {
		case 0:
			s = sigs[r.Pick(len(sigs))]
		case 1:
			cr = cryptos[r.Pick(len(cryptos))]
		}
		c09One(c, paths, s, cr, r, "sampled")
	})
}

// c09ReusedInputs: identities are built one after another from ONE certificate builder and ONE
// payload slice that the caller keeps reusing for the next certificate, alternating permitted
// and prohibited key types. Every identity that was returned is looked at again after each
// later step: it must still not declare a prohibited type (a constructor that keeps the
// caller's builder storage would let an accepted identity turn into a prohibited one).
func c09ReusedInputs(c *core.Ctx, r *core.Rand) {
	bd := certificate.NewCertificateBuilder()
	payload := make([]byte, 4)
	type heldT struct {
		kac    *keys_and_cert.KeysAndCert
		router bool
		site   string
		s, cr  int
	}
	var held []heldT
	var recvBuf []byte
	var certVar *certificate.Certificate
	good := [][2]int{{7, 4}, {7, 0}, {1, 0}, {0, 0}, {2, 4}, {3, 0}}
	bad := [][2]int{{8, 4}, {7, 5}, {7, 6}, {7, 7}, {11, 4}, {11, 0}, {8, 0}, {4, 0}, {5, 4}, {6, 0}}
	for step := 0; step < 8; step++ {
		pr := good[r.Pick(len(good))]
		if step%2 == 1 {
			pr = bad[r.Pick(len(bad))]
		}
		s, cr := pr[0], pr[1]
		router := r.Chance(1, 2)
		k, _ := gen.KACOf(r, s, cr)
		var cert *certificate.Certificate
		var err error
		site := "certificate.CertificateBuilder"
		c.Call("c09/reused-inputs", []byte(fmt.Sprint(s, cr, step)), func() {
			if r.Chance(1, 2) {
				if _, err = bd.WithKeyTypes(s, cr); err == nil {
					cert, err = bd.Build()
				}
			} else {
				site = "certificate.NewCertificateWithType"
				binary.BigEndian.PutUint16(payload[0:], uint16(s))
				binary.BigEndian.PutUint16(payload[2:], uint16(cr))
				cert, err = certificate.NewCertificateWithType(5, payload)
			}
		})
		c.Eval(1)
		if err == nil && cert != nil && step%3 == 2 {
			// the caller keeps ONE certificate variable and refills it (same address, new content)
			if certVar == nil {
				certVar = new(certificate.Certificate)
			}
			*certVar = *cert
			cert = certVar
		}
		if err == nil && cert != nil {
			pk, e1 := lib.CryptoKeyOf(cr, k.CryptoKey())
			spk, e2 := lib.SigningKeyOf(s, k.SigningKey())
			if e1 == nil && e2 == nil {
				var kac *keys_and_cert.KeysAndCert
				c.Call("c09/reused-inputs/build", []byte(fmt.Sprint(s, cr, step)), func() {
					if router {
						site += " -> router_identity.NewRouterIdentity"
						if ri, err := router_identity.NewRouterIdentity(pk, spk, cert, k.Padding()); err == nil && ri != nil {
							kac = ri.KeysAndCert
						}
						return
					}
					site += " -> destination.NewDestination"
					kc, err := key_certificate.KeyCertificateFromCertificate(cert)
					if err != nil {
						return
					}
					kk, err := keys_and_cert.NewKeysAndCert(kc, pk, k.Padding(), spk)
					if err != nil {
						return
					}
					if d, err := destination.NewDestination(kk); err == nil && d != nil {
						kac = d.KeysAndCert
					}
				})
				if kac != nil {
					held = append(held, heldT{kac, router, site, s, cr})
					c.Bucket("reused-inputs/identity-returned")
				}
			}
		}
		// ... and identities READ from one receive buffer that the caller refills with the next
		// encoding (same key sizes, other declared types - every second one prohibited)
		if recvBuf == nil {
			// a receive buffer larger than one identity: the identity sits at its front, whatever
			// arrived behind it follows (a reader that treats "much data behind" differently)
			recvBuf = make([]byte, 391+[]int{0, 100, 513, 1700}[r.Pick(4)])
		}
		{
			k.Cert = rm.KeyCert(s, cr, nil)
			enc := k.Encode()
			if len(enc) == 391 {
				copy(recvBuf, enc)
				copy(recvBuf[391:], r.Bytes(len(recvBuf)-391))
				var kac *keys_and_cert.KeysAndCert
				rsite := "destination.ReadDestination"
				c.Call("c09/reused-inputs/read", enc, func() {
					if router {
						rsite = "router_identity.ReadRouterIdentity"
						if ri, _, err := router_identity.ReadRouterIdentity(recvBuf); err == nil && ri != nil {
							kac = ri.KeysAndCert
						}
						return
					}
					if d, _, err := destination.ReadDestination(recvBuf); err == nil {
						kac = d.KeysAndCert
					}
				})
				if kac != nil {
					held = append(held, heldT{kac, router, rsite + " (receive buffer reused)", s, cr})
					c.Bucket("reused-inputs/identity-read")
				}
			}
		}
		// ... and back to back on ONE certificate variable: filled with a permitted pair and used, then
		// refilled with a prohibited pair of the same key sizes and used again at once (a conversion
		// that remembers "the certificate at this address" answers for the previous content)
		if step%2 == 0 {
			swaps := [][2][2]int{{{7, 4}, {8, 4}}, {{7, 4}, {11, 4}}, {{7, 4}, {7, 5}}, {{7, 0}, {8, 0}}, {{7, 0}, {11, 0}}, {{7, 4}, {7, 7}}}
			sw := swaps[r.Pick(len(swaps))]
			var cv certificate.Certificate
			kk, _ := gen.KACOf(r, sw[0][0], sw[0][1])
			pk, e1 := lib.CryptoKeyOf(sw[0][1], kk.CryptoKey())
			spk, e2 := lib.SigningKeyOf(sw[0][0], kk.SigningKey())
			if e1 == nil && e2 == nil {
				for phase, pr := range sw {
					ct, err := lib.BuildCert(rm.KeyCert(pr[0], pr[1], nil))
					if err != nil || ct == nil {
						break
					}
					cv = *ct // the same variable, new content
					var kac *keys_and_cert.KeysAndCert
					rsite := "router_identity.NewRouterIdentity"
					c.Call("c09/reused-inputs/certificate-variable", []byte(fmt.Sprint(sw, phase)), func() {
						if router {
							if ri, err := router_identity.NewRouterIdentity(pk, spk, &cv, kk.Padding()); err == nil && ri != nil {
								kac = ri.KeysAndCert
							}
							return
						}
						rsite = "destination.NewDestination(KeyCertificateFromCertificate)"
						kc, err := key_certificate.KeyCertificateFromCertificate(&cv)
						if err != nil || kc == nil {
							return
						}
						k2, err := keys_and_cert.NewKeysAndCert(kc, pk, kk.Padding(), spk)
						if err != nil || k2 == nil {
							return
						}
						if d, err := destination.NewDestination(k2); err == nil && d != nil {
							kac = d.KeysAndCert
						}
					})
					if kac != nil {
						held = append(held, heldT{kac, router, rsite + " (one certificate variable refilled)", pr[0], pr[1]})
						c.Bucket("reused-inputs/certificate-variable/returned")
					}
				}
			}
		}
		for hi, h := range held {
			ys, yc, ok := typesOf(h.kac)
			if !ok {
				continue
			}
			// what the identity SERIALISES as counts as much as what its accessors say
			if sb, err := h.kac.Bytes(); err == nil {
				if dk, _, derr := rm.DecodeKAC(sb); derr == nil {
					if ws, wc, isKey, ok2 := dk.Cert.KeyTypes(); isKey && ok2 && (ws != ys || wc != yc) {
						bad2 := rm.ProhibitedInDestination(ws, wc)
						if h.router {
							bad2 = rm.ProhibitedInRouterIdentity(ws, wc)
						}
						if bad2 {
							ys, yc = ws, wc
						}
					}
				}
			}
			isBad := rm.ProhibitedInDestination(ys, yc)
			what := "Destination"
			if h.router {
				isBad, what = rm.ProhibitedInRouterIdentity(ys, yc), "RouterIdentity"
			}
			c.Nontrivial([]byte("reused"), []byte(fmt.Sprint(hi, step, ys, yc, h.s, h.cr, h.router)))
			if isBad {
				clause := "prohibited-type-yielded"
				if hi < len(held)-1 || !(ys == h.s && yc == h.cr) {
					clause = "returned-identity-later-declares-prohibited-type"
				}
				c.Violate(h.site, clause, gen.Shape{"sig": ys, "crypto": yc, "requested_sig": h.s, "requested_crypto": h.cr, "class": "reused-inputs"}, nil,
					fmt.Sprintf("%s built for types %d/%d declares %d/%d after the caller's builder / payload slice was reused %d step(s) later", what, h.s, h.cr, ys, yc, step))
				return
			}
		}
	}
}

func c09One(c *core.Ctx, paths []identPath, sig, cr int, r *core.Rand, class string) {
	k, _ := gen.KACOf(r, 0, 0)
	k.Cert = gen.KeyCert(r, sig, cr)
	if sig == 0 && cr == 0 && r.Chance(1, 2) {
		k.Cert = rm.Cert{Type: rm.CertNull, Payload: []byte{}}
	}
	enc := k.Encode()
	for _, p := range paths {
		var yielded []*keys_and_cert.KeysAndCert
		var err error
		panicked, _, _ := c.Call(p.name, enc, func() { yielded, err = p.run(k, r) })
		c.Eval(1)
		if panicked {
			continue
		}
		c.OpResult(p.name, err == nil && len(yielded) > 0)
		sh := gen.Shape{"sig": sig, "crypto": cr, "class": class}
		if err == nil {
			for _, y := range yielded {
				ys, yc, ok := typesOf(y)
				if !ok {
					continue
				}
				c.Nontrivial([]byte(p.name), enc)
				bad := rm.ProhibitedInDestination(ys, yc)
				if p.router {
					bad = rm.ProhibitedInRouterIdentity(ys, yc)
				}
				if bad {
					what := "Destination"
					if p.router {
						what = "RouterIdentity"
					}
					c.Violate(p.name, "prohibited-type-yielded", sh, enc, fmt.Sprintf("%s with signing type %d / crypto type %d returned", what, ys, yc))
				} else {
					c.Bucket(fmt.Sprintf("yielded-permitted/%s", p.name))
				}
			}
			continue
		}
		// the restriction must not reject a permitted, supported combination on the direct paths
		permitted := !rm.ProhibitedInDestination(sig, cr)
		if p.router {
			permitted = !rm.ProhibitedInRouterIdentity(sig, cr)
		}
		direct := p.name == "destination.ReadDestination" || p.name == "destination.NewDestinationFromBytes" ||
			p.name == "router_identity.ReadRouterIdentity" || p.name == "router_identity.NewRouterIdentityFromBytes" ||
			p.name == "destination.NewDestination(ReadKeysAndCert)" || p.name == "router_identity.NewRouterIdentityFromKeysAndCert(ReadKeysAndCert)" ||
			// the container parsers are fed otherwise well-formed encodings (any options, the ones a real
			// router publishes included): a permitted, supported identity inside must not make them fail
			p.name == "router_info.ReadRouterInfo" || p.name == "lease_set2.ReadLeaseSet2" || p.name == "meta_leaseset.ReadMetaLeaseSet" ||
			p.name == "lease_set.ReadLeaseSet" || p.name == "lease_set2.ReadLeaseSet2(offline keys)" || p.name == "meta_leaseset.ReadMetaLeaseSet(offline keys)"
		if direct && permitted && rm.SupportedSig(sig) && rm.SupportedCrypto(cr) {
			c.Violate(p.name, "permitted-supported-pair-rejected", sh, enc, firstLineOf(err.Error()))
		}
	}
	c.Sample(gen.Shape{"sig": sig, "crypto": cr, "paths": len(paths)})
}

// c09Lifecycle: identities are not only looked at when they are returned. A caller goes on to use
// them — derives a Destination view of a RouterIdentity, blinds it, verifies the container it came
// in (with every transient key type an offline block may carry), calls accessors — and every
// identity obtained so far is examined again after each such step, through its accessors and
// through its own serialisation read by the reference decoder: it must still not declare a
// prohibited type. (An operation that "copies" an identity shallowly and then retypes the copy
// retypes the original.)
func c09Lifecycle(c *core.Ctx, i int, r *core.Rand) {
	type heldT struct {
		kac    *keys_and_cert.KeysAndCert
		router bool
		site   string
		s, cr  int
	}
	var held []heldT
	hold := func(k *keys_and_cert.KeysAndCert, router bool, site string) {
		if s, cr, ok := typesOf(k); ok {
			held = append(held, heldT{k, router, site, s, cr})
		}
	}
	examine := func(after string, sh gen.Shape, in []byte) bool {
		for _, h := range held {
			ys, yc, ok := typesOf(h.kac)
			if !ok {
				continue
			}
			c.Eval(1)
			// the same question put to the identity's own bytes
			bs, bc := ys, yc
			var b []byte
			c.Call("c09/lifecycle/Bytes", in, func() { b, _ = h.kac.Bytes() })
			if m, _, err := rm.DecodeKAC(b); err == nil {
				bs, bc = m.Types()
			}
			for _, t := range [][2]int{{ys, yc}, {bs, bc}} {
				bad := rm.ProhibitedInDestination(t[0], t[1])
				what := "Destination"
				if h.router {
					bad, what = rm.ProhibitedInRouterIdentity(t[0], t[1]), "RouterIdentity"
				}
				if bad {
					s2 := gen.Shape{"class": "lifecycle", "after": after, "sig": t[0], "crypto": t[1], "obtained_sig": h.s, "obtained_crypto": h.cr}
					for k, v := range sh {
						if _, dup := s2[k]; !dup {
							s2[k] = v
						}
					}
					c.Violate(h.site, "returned-identity-later-declares-prohibited-type", s2, in,
						fmt.Sprintf("%s obtained from %s with types %d/%d declares %d/%d after %s", what, h.site, h.s, h.cr, t[0], t[1], after))
					return false
				}
			}
		}
		c.Bucket("lifecycle/examined-after/" + after)
		return true
	}
	sweep := func(v any, in []byte) {
		c.Call("c09/lifecycle/accessors", in, func() { lib.Observe(v, lib.ObserveOpts{Depth: 1}) })
	}
	switch i % 4 {
	case 0: // RouterIdentity -> Destination view -> blinding
		key, _ := rm.NewSigKey(7, r)
		k, sh := gen.KACOf(r, 7, []int{0, 4}[r.Pick(2)])
		copy(k.Block[384-32:], key.Pub)
		in := k.Encode()
		var ri *router_identity.RouterIdentity
		var err error
		if panicked, _, _ := c.Call("router_identity.ReadRouterIdentity", in, func() { ri, _, err = router_identity.ReadRouterIdentity(in) }); panicked || err != nil || ri == nil {
			return
		}
		hold(ri.KeysAndCert, true, "router_identity.ReadRouterIdentity")
		// the same identity inside a RouterInfo
		info, _ := gen.RouterInfo(r)
		info.Ident = k
		info.Sig = r.Bytes(64)
		var pi router_info.RouterInfo
		ib := info.Encode()
		c.Call("router_info.ReadRouterInfo", ib, func() { pi, _, err = router_info.ReadRouterInfo(ib) })
		if err == nil && pi.RouterIdentity() != nil {
			hold(pi.RouterIdentity().KeysAndCert, true, "router_info.ReadRouterInfo")
		}
		if cri, ok, err := lib.BuildRouterIdentity(k, i/4%2); ok && err == nil && cri != nil {
			hold(cri.KeysAndCert, true, "router_identity.NewRouterIdentity*")
		}
		n := len(held)
		for hi := 0; hi < n; hi++ {
			rid := &router_identity.RouterIdentity{KeysAndCert: held[hi].kac}
			var view destination.Destination
			c.Call("router_identity.RouterIdentity.AsDestination", in, func() { view = rid.AsDestination() })
			if view.KeysAndCert == nil {
				continue
			}
			hold(view.KeysAndCert, false, "router_identity.RouterIdentity.AsDestination")
			if !examine("AsDestination", sh, in) {
				return
			}
			var bd destination.Destination
			c.Call("encrypted_leaseset.CreateBlindedDestination", in, func() {
				bd, err = encrypted_leaseset.CreateBlindedDestination(view, r.Bytes(32), time.Unix(int64(1600000000+r.Pick(200000000)), 0))
			})
			if err == nil && bd.KeysAndCert != nil {
				hold(bd.KeysAndCert, false, "encrypted_leaseset.CreateBlindedDestination")
				c.Bucket("lifecycle/blinded")
			}
			if !examine("CreateBlindedDestination", sh, in) {
				return
			}
		}
		sweep(ri, in)
		sweep(&pi, ib)
		examine("accessor-sweep", sh, in)
		c.Nontrivial([]byte("lifecycle-a"), in)
	case 1, 2: // offline-signed LeaseSet2 / MetaLeaseSet, every transient type, then Verify()
		dts := []int{7, 11, 0, 1, 2}
		tts := []int{0, 1, 2, 7, 8, 11}
		dt, tt := dts[(i/4)%len(dts)], tts[(i/20)%len(tts)]
		offline := (i/120)%4 != 3
		var sc signedCase
		if i%4 == 1 {
			sc = signedLeaseSet2(r, dt, offline, tt)
		} else {
			sc = signedMeta(r, dt, offline, tt)
		}
		in := sc.bytes
		var container any
		var dest *destination.Destination
		var verify func() error
		var err error
		if i%4 == 1 {
			var ls lease_set2.LeaseSet2
			if panicked, _, _ := c.Call("lease_set2.ReadLeaseSet2", in, func() { ls, _, err = lease_set2.ReadLeaseSet2(in) }); panicked || err != nil {
				c.Bucket("lifecycle/container-rejected")
				return
			}
			d := ls.Destination()
			dest, container, verify = &d, &ls, ls.Verify
			hold(d.KeysAndCert, false, "lease_set2.ReadLeaseSet2")
		} else {
			var ls meta_leaseset.MetaLeaseSet
			if panicked, _, _ := c.Call("meta_leaseset.ReadMetaLeaseSet", in, func() { ls, _, err = meta_leaseset.ReadMetaLeaseSet(in) }); panicked || err != nil {
				c.Bucket("lifecycle/container-rejected")
				return
			}
			d := ls.Destination()
			dest, container, verify = &d, &ls, ls.Verify
			hold(d.KeysAndCert, false, "meta_leaseset.ReadMetaLeaseSet")
		}
		_ = dest
		if !examine("parse", sc.shape, in) {
			return
		}
		var verr error
		c.Call("Verify", in, func() { verr = verify() })
		if verr == nil {
			c.Bucket(fmt.Sprintf("lifecycle/verified/dest%d-transient%d-offline%v", dt, tt, offline))
		} else {
			c.Bucket("lifecycle/verify-failed")
		}
		if !examine("Verify", sc.shape, in) {
			return
		}
		sweep(container, in)
		if !examine("accessor-sweep", sc.shape, in) {
			return
		}
		c.Call("Verify", in, func() { verify() })
		examine("second-Verify", sc.shape, in)
		c.Nontrivial([]byte("lifecycle-b"), in)
	case 3: // legacy LeaseSet and RouterInfo: verify, sweep
		dt := []int{7, 0, 1, 2, 11}[(i/4)%5]
		if (i/20)%2 == 0 {
			sc := signedLeaseSet(r, dt)
			var ls lease_set.LeaseSet
			var err error
			if panicked, _, _ := c.Call("lease_set.ReadLeaseSet", sc.bytes, func() { ls, err = lease_set.ReadLeaseSet(sc.bytes) }); panicked || err != nil {
				return
			}
			d := ls.Destination()
			hold(d.KeysAndCert, false, "lease_set.ReadLeaseSet")
			c.Call("Verify", sc.bytes, func() { ls.Verify() })
			if !examine("Verify", sc.shape, sc.bytes) {
				return
			}
			sweep(&ls, sc.bytes)
			examine("accessor-sweep", sc.shape, sc.bytes)
			c.Nontrivial([]byte("lifecycle-c"), sc.bytes)
			return
		}
		if dt == 11 {
			dt = 7
		}
		sc := signedRouterInfo(r, dt)
		var pi router_info.RouterInfo
		var err error
		if panicked, _, _ := c.Call("router_info.ReadRouterInfo", sc.bytes, func() { pi, _, err = router_info.ReadRouterInfo(sc.bytes) }); panicked || err != nil || pi.RouterIdentity() == nil {
			return
		}
		hold(pi.RouterIdentity().KeysAndCert, true, "router_info.ReadRouterInfo")
		c.Call("VerifySignature", sc.bytes, func() { pi.VerifySignature() })
		if !examine("VerifySignature", sc.shape, sc.bytes) {
			return
		}
		sweep(&pi, sc.bytes)
		examine("accessor-sweep", sc.shape, sc.bytes)
		c.Nontrivial([]byte("lifecycle-d"), sc.bytes)
	}
}
