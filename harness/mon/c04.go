package mon

import (
	"bytes"
	"fmt"
	"sort"
	"strings"

	"github.com/go-i2p/common/base32"
	"github.com/go-i2p/common/base64"
	"github.com/go-i2p/common/certificate"
	"github.com/go-i2p/common/data"
	"github.com/go-i2p/common/key_certificate"
	"github.com/go-i2p/common/lease_set2"
	"github.com/go-i2p/common/offline_signature"
	"github.com/go-i2p/common/signature"

	"github.com/go-i2p/logger"
	"go.step.sm/crypto/x25519"

	"verifharness/core"
	"verifharness/gen"
	"verifharness/lib"
	rm "verifharness/refmodel"
)

// C04 — no input makes a parser, decoder or accessor panic or hang.
func init() { register("C04", runC04) }

func panicSite(stack string) string {
	// first library frame in the stack
	for _, l := range strings.Split(stack, "\n") {
		l = strings.TrimSpace(l)
		if strings.HasPrefix(l, "github.com/go-i2p/common/") {
			if i := strings.Index(l, "("); i > 0 {
				return l[:i]
			}
			return l
		}
	}
	return ""
}

func reportPanic(c *core.Ctx, prop, site string, sh gen.Shape, in []byte, pv any, stack string) {
	if !strings.HasPrefix(core.PanicCulprit(stack), "github.com/go-i2p/") {
		return // a harness panic: already recorded as a floor failure by core.Call
	}
	s := gen.Shape{}
	for k, v := range sh {
		s[k] = v
	}
	s["panic_at"] = panicSite(stack)
	c.ViolateP(prop, site, "panic", s, in, fmt.Sprint(pv), stack)
}

// c04OtherEntryPoints: byte/string-consuming exported functions that are not in the parser
// registry, with the sweep of this monitor (or of another one) that exercises them.
var c04OtherEntryPoints = map[string]string{
	"base32.DecodeString": "decoder sweep", "base32.DecodeStringNoPadding": "decoder sweep", "base32.DecodeStringSafe": "decoder sweep",
	"base32.DecodeStringSafeNoPadding": "decoder sweep", "base64.DecodeString": "decoder sweep", "base64.DecodeStringSafe": "decoder sweep",
	"base32.EncodeToString": "C13", "base32.EncodeToStringNoPadding": "C13", "base32.EncodeToStringSafe": "C13",
	"base64.EncodeToString": "C13", "base64.EncodeToStringSafe": "C13",
	"data.DecodeIntN": "decoder sweep", "data.HashData": "C07", "data.NewI2PString": "C12", "data.ToI2PString": "C12",
	"data.ReadMappingValues":                          "decoder sweep",
	"key_certificate.ConstructSigningPublicKeyByType": "type-code sweep",
}

// c04CensusGaps lists exported functions of the working tree that take bytes (or a string)
// as their first argument and are exercised by no sweep.
func c04CensusGaps() []string {
	reg := map[string]bool{}
	for _, p := range lib.Parsers() {
		name := p.Name
		if i := strings.Index(name, "("); i > 0 {
			name = name[:i]
		}
		reg[name] = true
	}
	var gaps []string
	for _, f := range lib.CensusFuncs {
		if f.Recv != "" || !(strings.HasPrefix(f.Params, "[]byte") || strings.HasPrefix(f.Params, "string")) {
			continue
		}
		name := f.Pkg + "." + f.Name
		if reg[name] {
			continue
		}
		if _, ok := c04OtherEntryPoints[name]; ok {
			continue
		}
		gaps = append(gaps, name+"("+f.Params+")")
	}
	return gaps
}

func runC04(c *core.Ctx) {
	if gaps := c04CensusGaps(); len(gaps) > 0 && c.Shard == 0 {
		c.FloorFail("census gap: byte-consuming exported functions that no sweep exercises: " + strings.Join(gaps, "; "))
	}
	unit := c.N(400, 8000)
	parserCases(c, unit, nil, func(pc pcase) { checkC04(c, pc) })

	// hostile mapping extents: many tiny pairs, maximal extents
	c.Job("bigmap", c.N(40, 400), func(i int, r *core.Rand) {
		n := []int{999, 1000, 1001, 2000, 8000, 16000}[r.Pick(6)]
		var body []byte
		for j := 0; j < n && len(body) < 65000; j++ {
			k := fmt.Sprintf("%x", j)
			body = append(body, byte(len(k)))
			body = append(body, k...)
			body = append(body, '=', 0, ';')
		}
		if len(body) > 65535 {
			body = body[:65535]
		}
		in := append([]byte{byte(len(body) >> 8), byte(len(body))}, body...)
		if r.Chance(1, 3) {
			in[0], in[1] = 0xff, 0xff
		}
		for _, name := range []string{"data.ReadMapping", "data.NewMapping"} {
			checkC04(c, pcase{p: *lib.ByName(name, -1), in: in, class: "bigmap", shape: gen.Shape{"pairs": n}})
		}
		a := gen.RouterAddress(r)
		a.Options = rm.Mapping{Raw: body}
		checkC04(c, pcase{p: *lib.ByName("router_address.ReadRouterAddress", -1), in: a.Encode(), class: "bigmap", shape: gen.Shape{"pairs": n}})
	})

	// long random inputs (several times the largest structure)
	c.Job("longrand", c.N(6, 60), func(i int, r *core.Rand) {
		in := r.Bytes(2000 + r.Pick(8000))
		for _, p := range lib.Parsers() {
			checkC04(c, pcase{p: p, in: in, class: "longrandom", shape: gen.Shape{"len": len(in)}})
		}
	})

	c04TypeCodes(c)
	c04Decoders(c)
	c04KeyConstructors(c)
	c04Cost(c)
	c04WellKnownOptions(c)
}

func checkC04(c *core.Ctx, pc pcase) {
	out, panicked, pv, stack := callParser(c, pc.p, pc.in)
	c.Eval(1)
	if panicked {
		reportPanic(c, "C04", pc.p.Name, pc.fullShape(), pc.in, pv, stack)
		return
	}
	c.OpResult(pc.p.ID(), out.Accepted)
	c.Nontrivial([]byte(pc.p.ID()), pc.in)
	if !out.Accepted || out.Val == nil {
		return
	}
	// every exported argument-free method of the returned value (and of library values it returns)
	obs := lib.Observe(out.Val, lib.ObserveOpts{Depth: 1, WithArgs: true, UnaryFuncs: true, Before: func(name string) {
		c.Call(pc.p.ID()+"->"+name, pc.in, func() {})
	}})
	c.BucketN("methods_invoked", int64(len(obs)))
	for _, o := range obs {
		c.Bucket("method/" + o.Name)
		if o.Panicked {
			sh := pc.fullShape()
			sh["method"] = o.Name
			sh["panic_at"] = panicSite(o.Stack)
			if strings.HasPrefix(core.PanicCulprit(o.Stack), "github.com/go-i2p/") {
				c.ViolateP("C04", pc.p.Name+"->"+o.Name, "method-panic", sh, pc.in, o.Panic, o.Stack)
			} else {
				c.FloorFail("harness panic while invoking " + o.Name + ": " + o.Panic)
			}
		}
	}
	if len(obs) > 0 {
		c.Sample(gen.Shape{"op": pc.p.ID(), "class": pc.class, "input_len": len(pc.in), "methods_invoked": len(obs)})
	}
}

// c04TypeCodes sweeps all 65,536 type codes (plus out-of-range ints) through every
// type-parameterised operation.
func c04TypeCodes(c *core.Ctx) {
	codes := make([]int, 0, 65536+8)
	for i := 0; i < 65536; i++ {
		codes = append(codes, i)
	}
	codes = append(codes, -1, -2, -65536, 65536, 65537, 1<<31-1, -(1 << 31), 1<<62)
	buf := make([]byte, 600)
	for i := range buf {
		buf[i] = byte(i*7 + 1)
	}
	type op struct {
		name string
		fn   func(code int)
	}
	ops := []op{
		{"signature.ReadSignature", func(t int) { signature.ReadSignature(buf, t) }},
		{"signature.NewSignature", func(t int) { signature.NewSignature(buf, t) }},
		{"signature.NewSignatureFromBytes", func(t int) { signature.NewSignatureFromBytes(buf[:64], t) }},
		{"signature.SignatureSize", func(t int) { signature.SignatureSize(t) }},
		{"key_certificate.GetKeySizes", func(t int) { key_certificate.GetKeySizes(t, 0); key_certificate.GetKeySizes(7, t) }},
		{"key_certificate.GetSigningKeySize", func(t int) { key_certificate.GetSigningKeySize(t) }},
		{"key_certificate.GetCryptoKeySize", func(t int) { key_certificate.GetCryptoKeySize(t) }},
		{"key_certificate.GetSignatureSize", func(t int) { key_certificate.GetSignatureSize(t) }},
		{"key_certificate.ConstructSigningPublicKeyByType", func(t int) {
			key_certificate.ConstructSigningPublicKeyByType(buf[:32], t)
			key_certificate.ConstructSigningPublicKeyByType(buf[:128], t)
			key_certificate.ConstructSigningPublicKeyByType(buf[:0], t)
		}},
		{"key_certificate.NewKeyCertificateWithTypes", func(t int) {
			key_certificate.NewKeyCertificateWithTypes(t, 0)
			key_certificate.NewKeyCertificateWithTypes(7, t)
		}},
		{"certificate.BuildKeyTypePayload", func(t int) { certificate.BuildKeyTypePayload(t, 4); certificate.BuildKeyTypePayload(7, t) }},
		{"certificate.CertificateBuilder.WithKeyTypes", func(t int) {
			b := certificate.NewCertificateBuilder()
			b.WithKeyTypes(t, 4)
			b.Build()
			b2 := certificate.NewCertificateBuilder()
			b2.WithKeyTypes(7, t)
			b2.Build()
		}},
		{"data.ReadInteger(size)", func(t int) { data.ReadInteger(buf, t); data.NewInteger(buf, t) }},
		{"data.NewIntegerFromInt(size)", func(t int) { data.NewIntegerFromInt(5, t); data.EncodeIntN(5, t) }},
	}
	ops16 := []op{
		{"offline_signature.ReadOfflineSignature(destType)", func(t int) { offline_signature.ReadOfflineSignature(buf, uint16(t)) }},
		{"offline_signature.SigningPublicKeySize", func(t int) { offline_signature.SigningPublicKeySize(uint16(t)) }},
		{"offline_signature.SignatureSize", func(t int) { offline_signature.SignatureSize(uint16(t)) }},
		{"offline_signature.NewOfflineSignature", func(t int) {
			offline_signature.NewOfflineSignature(1, uint16(t), buf[:32], buf[:64], 7)
			offline_signature.NewOfflineSignature(1, 7, buf[:32], buf[:64], uint16(t))
		}},
		{"key-cert-bytes->ReadKeysAndCert", func(t int) {
			k := rm.KAC{Cert: rm.KeyCert(t, 4, nil)}
			copy(k.Block[:], buf)
			for _, name := range []string{"keys_and_cert.ReadKeysAndCert", "destination.ReadDestination", "router_identity.ReadRouterIdentity"} {
				lib.ByNameCached(name).Fn(k.Encode())
			}
			k.Cert = rm.KeyCert(7, t, nil)
			lib.ByNameCached("keys_and_cert.ReadKeysAndCert").Fn(k.Encode())
		}},
		{"offline-transient-type", func(t int) {
			o := rm.Offline{Expires: 1, SigType: uint16(t), TransientKey: buf[:32], Sig: buf[:64]}
			offline_signature.ReadOfflineSignature(o.Encode(), 7)
		}},
		{"encrypted-leaseset-sigtype", func(t int) {
			e := rm.EncryptedLeaseSet{SigType: uint16(t), BlindedKey: buf[:32], Published: 1, Expires: 1, Inner: buf[:80], Sig: buf[:64]}
			lib.ByNameCached("encrypted_leaseset.ReadEncryptedLeaseSet").Fn(e.Encode())
		}},
	}
	for _, o := range ops {
		o := o
		c.Job("typecodes/"+o.name, len(codes), func(i int, r *core.Rand) {
			code := codes[i]
			in := []byte(fmt.Sprintf("%d", code))
			panicked, pv, stack := c.Call(o.name, in, func() { o.fn(code) })
			c.Eval(1)
			if panicked {
				reportPanic(c, "C04", o.name, gen.Shape{"code": code, "class": "typecode"}, in, pv, stack)
			}
		})
		c.Exhaustive("all 65,536 type codes + out-of-range ints through " + o.name)
	}
	for _, o := range ops16 {
		o := o
		c.Job("typecodes/"+o.name, 65536, func(i int, r *core.Rand) {
			in := []byte(fmt.Sprintf("%d", i))
			panicked, pv, stack := c.Call(o.name, in, func() { o.fn(i) })
			c.Eval(1)
			if panicked {
				reportPanic(c, "C04", o.name, gen.Shape{"code": i, "class": "typecode"}, in, pv, stack)
			}
		})
		c.Exhaustive("all 65,536 type codes through " + o.name)
	}
	c.Nontrivial([]byte("typecodes"))
}

// c04KeyConstructors: the key decoders at EVERY input length 0..400 (exact-capacity slices, so a
// read past the length is an out-of-range access), for every signing / crypto type code 0..12.
func c04KeyConstructors(c *core.Ctx) {
	const maxLen = 400
	c.Job("key-constructors", 13*(maxLen+1), func(i int, r *core.Rand) {
		t, n := i/(maxLen+1), i%(maxLen+1)
		data := r.Bytes(n)
		data = data[:n:n]
		in := []byte(fmt.Sprintf("type %d len %d", t, n))
		sh := gen.Shape{"code": t, "len": n, "class": "key-constructor"}
		for _, o := range []struct {
			name string
			fn   func()
		}{
			{"key_certificate.ConstructSigningPublicKeyByType", func() { key_certificate.ConstructSigningPublicKeyByType(data, t) }},
			{"key_certificate.KeyCertificate.ConstructSigningPublicKey", func() {
				if kc, err := key_certificate.NewKeyCertificateWithTypes(t, 4); err == nil && kc != nil {
					kc.ConstructSigningPublicKey(data)
				}
				if kc, _, err := key_certificate.NewKeyCertificate(rm.KeyCert(t, 0, nil).Encode()); err == nil && kc != nil {
					kc.ConstructSigningPublicKey(data)
				}
			}},
			{"key_certificate.KeyCertificate.ConstructPublicKey", func() {
				if kc, err := key_certificate.NewKeyCertificateWithTypes(7, t); err == nil && kc != nil {
					kc.ConstructPublicKey(data)
				}
				if kc, _, err := key_certificate.NewKeyCertificate(rm.KeyCert(0, t, nil).Encode()); err == nil && kc != nil {
					kc.ConstructPublicKey(data)
				}
			}},
		} {
			panicked, pv, stack := c.Call(o.name, in, o.fn)
			c.Eval(1)
			if panicked {
				reportPanic(c, "C04", o.name, sh, in, pv, stack)
			}
		}
		c.Nontrivial([]byte("keyctor"), in)
	})
	c.Exhaustive("key constructors at every input length 0..400 for type codes 0..12")
}

func c04Decoders(c *core.Ctx) {
	type dec struct {
		name string
		fn   func(s string)
	}
	decs := []dec{
		{"base32.DecodeString", func(s string) { base32.DecodeString(s) }},
		{"base32.DecodeStringNoPadding", func(s string) { base32.DecodeStringNoPadding(s) }},
		{"base32.DecodeStringSafe", func(s string) { base32.DecodeStringSafe(s) }},
		{"base32.DecodeStringSafeNoPadding", func(s string) { base32.DecodeStringSafeNoPadding(s) }},
		{"base64.DecodeString", func(s string) { base64.DecodeString(s) }},
		{"base64.DecodeStringSafe", func(s string) { base64.DecodeStringSafe(s) }},
		{"data.DecodeIntN", func(s string) { data.DecodeIntN([]byte(s)) }},
		{"data.ReadMappingValues", func(s string) {
			v, _, _ := data.ReadMappingValues([]byte(s), data.Integer{byte(len(s) >> 8), byte(len(s))})
			if v != nil {
				v.Validate()
				v.IsValid()
				k, _ := data.ToI2PString("a")
				v.Get(k)
			}
			data.ReadMappingValues([]byte(s), data.Integer{0, 3})
			data.ReadMappingValues([]byte(s), nil)
		}},
		{"data.I2PString-methods", func(s string) {
			st := data.I2PString(s)
			st.Data()
			st.DataSafe()
			st.Length()
			st.IsValid()
		}},
		{"data.Integer-methods", func(s string) {
			it := data.Integer(s)
			it.Int()
			it.IntSafe()
			it.UintSafe()
			it.IsZero()
		}},
	}
	for _, d := range decs {
		d := d
		c.Job("decoder/"+d.name, c.N(3000, 60000), func(i int, r *core.Rand) {
			n := r.Pick(80)
			if r.Chance(1, 10) {
				n = r.Pick(5000)
			}
			var s string
			switch r.Pick(3) {
			case 0:
				s = string(r.Bytes(n))
			case 1:
				s = rm.B32Encode(r.Bytes(n))
				if r.Chance(1, 2) {
					b := []byte(s)
					if len(b) > 0 {
						b[r.Pick(len(b))] = byte(r.Pick(256))
					}
					s = string(b)
				}
			default:
				s = rm.B64Encode(r.Bytes(n))
				if r.Chance(1, 2) && len(s) > 0 {
					s = s[:r.Pick(len(s))]
				}
			}
			panicked, pv, stack := c.Call(d.name, []byte(s), func() { d.fn(s) })
			c.Eval(1)
			c.Nontrivial([]byte(d.name), []byte(s))
			if panicked {
				reportPanic(c, "C04", d.name, gen.Shape{"class": "decoder"}, []byte(s), pv, stack)
			}
		})
	}
}

// c04WellKnownOptions: the accessors that interpret option values (RouterInfo: router.version,
// caps, netId; RouterAddress: host, port, caps, s, i, v, mtu, ih0…, iexp0…, itag0…) are fed values
// from a dictionary of hostile strings — empty components, stray dots and signs, NULs, white space,
// overlong digits, non-ASCII — inside otherwise well-formed, accepted structures; then every
// argument-free and one-argument accessor is invoked.
func c04WellKnownOptions(c *core.Ctx) {
	riKeys := []string{"router.version", "caps", "netId", "netdb.knownRouters", "netdb.knownLeaseSets", "core.version", "stat_uptime", "family", "family.key", "family.sig"}
	raKeys := []string{"host", "port", "caps", "s", "i", "v", "mtu", "key", "ih0", "ih1", "ih2", "iexp0", "iexp1", "iexp2", "itag0", "itag1", "itag2"}
	hostile := func(r *core.Rand) []byte {
		dict := []string{"", ".", "..", "...", "0", "0.", "0.9", "0.9.", "0.9. ", "0.9.\x00", "0.9.+65", "0.9.-1", "0.9.65", "0.9.65.1", "0.9.99999999999999999999", "1.0.0", "0.10.1", ".9.65", "0..65",
			"0.9.65-rc", " 0.9.65", "0.9.65\n", "00.09.065", "+0.9.65", "0.9.６５", "a.b.c", "0.9.0x41", "-", "+", " ", "\x00", "\xff\xfe", "٠.٩.٦٥",
			"f", "fR", "LU", "XfR", "BC", "4", "6", "46", "BC4", "BC6", "PfRD", "K", "G", "E", "\x00R", "R\x00", "2", "-2", "99999999999", "2 ",
			"[", "]", "[]", "[:", ":", "%", "/", "1.2.3.4", "::1", "[::1]", "1.2.3.4:80", "fe80::1%eth0", "example.i2p", "localhost", "256.1.1.1", "1.2.3", "01.2.3.4", "1.2.3.4 ", "::ffff:1.2.3.4", "0x7f.1",
			"1", "65535", "65536", "0", "-1", "+80", "080", "8 0", "80\x00", "1e3", "0x50", "９０", "4294967377",
			"1500", "1280", "1279", "65536", "-1500"}
		switch r.Pick(8) {
		case 6:
			// long values (up to the 255 bytes a string can hold): random bytes, one letter repeated,
			// a dictionary entry repeated, multi-byte UTF-8, an entry behind a long prefix
			n := []int{64, 127, 128, 129, 200, 254, 255}[r.Pick(7)]
			switch r.Pick(5) {
			case 0:
				return r.Bytes(n)
			case 1:
				return bytes.Repeat([]byte{"fRLUXKPO46BC\xc3\xa9\xff"[r.Pick(15)]}, n)
			case 2:
				d := dict[1+r.Pick(len(dict)-1)]
				return bytes.Repeat([]byte(d), n/len(d)+1)[:n]
			case 3:
				return utf8OfLen(r, n)
			default:
				return append(bytes.Repeat([]byte{byte(0x80 + r.Pick(0x80))}, n-2), "fR"...)
			}
		case 7:
			// a valid-looking value with one non-ASCII or invalid byte in front / inside / behind
			d := []byte(dict[1+r.Pick(len(dict)-1)])
			ins := [][]byte{{0xff}, {0x80}, {0xc3, 0xa9}, {0xe2, 0x82, 0xac}, {0xf0, 0x9f, 0x98, 0x80}, {0xc0, 0x80}, {0xed, 0xa0, 0x80}}[r.Pick(7)]
			k := r.Pick(len(d) + 1)
			return append(append(append([]byte{}, d[:k]...), ins...), d[k:]...)
		case 0:
			return r.Bytes(r.Pick(40))
		case 1:
			b := []byte(dict[r.Pick(len(dict))])
			if len(b) > 0 {
				b[r.Pick(len(b))] = byte(r.Pick(256))
			}
			return b
		case 2:
			return []byte(rm.B64Encode(r.Bytes([]int{0, 1, 15, 16, 17, 31, 32, 33, 48}[r.Pick(9)])))
		default:
			return []byte(dict[r.Pick(len(dict))])
		}
	}
	pick := func(r *core.Rand, keys []string) rm.Mapping {
		var m rm.Mapping
		seen := map[string]bool{}
		for j := 0; j < 1+r.Pick(6); j++ {
			k := keys[r.Pick(len(keys))]
			if r.Chance(1, 12) { // a prefix / extension / case variant of a well-known key
				k = []string{k + "0", k[:len(k)-1], strings.ToUpper(k), k + " ", " " + k}[r.Pick(5)]
			}
			if seen[k] {
				continue
			}
			seen[k] = true
			m.Pairs = append(m.Pairs, rm.Pair{K: []byte(k), V: hostile(r)})
		}
		sort.SliceStable(m.Pairs, func(a, b int) bool { return string(m.Pairs[a].K) < string(m.Pairs[b].K) })
		return m
	}
	// the decoder behind the encrypted leaseset: whatever an authentic ciphertext decrypts to - a
	// well-formed LeaseSet2 of any shape (no leases, no keys, offline keys, reserved flags), a
	// mutated one, arbitrary bytes, nothing - DecryptInnerData returns normally, and so do the
	// methods of what it returns
	c.Job("decrypt-inner", c.N(1500, 30000), func(i int, r *core.Rand) {
		var plain []byte
		class := ""
		switch i % 5 {
		case 0, 1:
			m, _ := gen.LeaseSet2(r)
			if i%10 == 0 {
				m.Leases = nil
			}
			plain, class = m.Encode(), "wellformed"
		case 2:
			cs := gen.WellFormed("leaseset2", 0, r)
			plain, class = gen.Mutate(r, cs, nil)
			class = "mutated:" + class
		case 3:
			plain, class = r.Bytes(r.Pick(600)), "random"
		default:
			m, _ := gen.LeaseSet2(r)
			e := m.Encode()
			plain, class = e[:r.Pick(len(e)+1)], "truncated"
		}
		blob, priv, err := encryptForTest(r, plain)
		if err != nil {
			return
		}
		els, err := elsWith(blob)
		if err != nil || els == nil {
			c.Bucket("decrypt-inner/not-wrapped")
			return
		}
		c.Eval(1)
		var cookie [32]byte
		var got *lease_set2.LeaseSet2
		var derr error
		panicked, pv, stack := c.Call("encrypted_leaseset.EncryptedLeaseSet.DecryptInnerData", plain, func() { got, derr = els.DecryptInnerData(cookie[:], x25519.PrivateKey(priv)) })
		if panicked {
			reportPanic(c, "C04", "encrypted_leaseset.EncryptedLeaseSet.DecryptInnerData", gen.Shape{"plaintext": classHead(class)}, plain, pv, stack)
			return
		}
		c.OpResult("encrypted_leaseset.EncryptedLeaseSet.DecryptInnerData", derr == nil)
		c.Nontrivial([]byte("decrypt-inner"), plain)
		c.Bucket("decrypt-inner/" + classHead(class) + map[bool]string{true: "/value", false: "/error"}[derr == nil])
		if derr == nil && got != nil {
			for _, o := range lib.Observe(got, lib.ObserveOpts{Depth: 1, WithArgs: true}) {
				if o.Panicked && strings.HasPrefix(core.PanicCulprit(o.Stack), "github.com/go-i2p/") {
					c.ViolateP("C04", "encrypted_leaseset.EncryptedLeaseSet.DecryptInnerData->"+o.Name, "method-panic", gen.Shape{"plaintext": classHead(class), "method": o.Name, "panic_at": panicSite(o.Stack)}, plain, o.Panic, o.Stack)
				}
			}
		}
	})

	// the same calls with the library's debug logging switched on (as DEBUG_I2P=debug does; the output
	// stays discarded): every parser on well-formed inputs, the accessor sweep of what it returns, the
	// signing RouterInfo constructor. Logging formats its fields while it holds the logger's lock; a
	// logged value whose String() logs again never returns.
	parsers := lib.Parsers()
	c.Job("debug-logging", len(parsers)*c.N(2, 12), func(i int, r *core.Rand) {
		lg := logger.GetGoI2PLogger()
		if lg == nil {
			return
		}
		before := lg.GetLevel()
		lg.SetLevel(logger.DebugLevel)
		defer lg.SetLevel(before)
		p := parsers[i%len(parsers)]
		cs := gen.WellFormed(p.Kind, p.Arg, r)
		sh := gen.Shape{"logging": "debug"}
		for k, v := range cs.Shape {
			sh[k] = v
		}
		out, panicked, pv, stack := callParser(c, p, cs.Bytes)
		c.Eval(1)
		if panicked {
			reportPanic(c, "C04", p.Name, sh, cs.Bytes, pv, stack)
			return
		}
		c.OpResult(p.ID()+"(debug logging)", out.Accepted)
		c.Nontrivial([]byte("debug-logging"), []byte(p.ID()), cs.Bytes)
		if out.Accepted && out.Val != nil {
			var obs []lib.Obs
			c.Call(p.ID()+"->accessors(debug logging)", cs.Bytes, func() { obs = lib.Observe(out.Val, lib.ObserveOpts{Depth: 1}) })
			for _, o := range obs {
				if o.Panicked && strings.HasPrefix(core.PanicCulprit(o.Stack), "github.com/go-i2p/") {
					sh["method"], sh["panic_at"] = o.Name, panicSite(o.Stack)
					c.ViolateP("C04", p.Name+"->"+o.Name, "method-panic", sh, cs.Bytes, o.Panic, o.Stack)
				}
			}
		}
		if p.Kind == "rinfo" {
			k7, _ := rm.NewSigKey(7, r)
			priv, _ := lib.LibSigningPrivateKey(k7)
			m, msh := gen.RouterInfo(r)
			if msh["sig"].(int) == 7 {
				m.Published &= 1<<62 - 1
				for j := range m.Addrs {
					if len(m.Addrs[j].Style) == 0 {
						m.Addrs[j].Style = []byte("SSU2")
					}
				}
				if p2, pv2, st2 := c.Call("router_info.NewRouterInfo(debug logging)", m.EncodeUnsigned(), func() { lib.BuildRouterInfo(m, priv, 0) }); p2 {
					reportPanic(c, "C04", "router_info.NewRouterInfo", sh, m.EncodeUnsigned(), pv2, st2)
				}
			}
		}
		c.Bucket("debug-logging/returned/" + p.Kind)
	})

	c.Job("well-known-options", c.N(3000, 60000), func(i int, r *core.Rand) {
		var in []byte
		var p *lib.Parser
		if i%2 == 0 {
			ri, _ := gen.RouterInfo(r)
			ri.Options = pick(r, riKeys)
			for k := range ri.Addrs {
				if r.Chance(1, 2) {
					ri.Addrs[k].Options = pick(r, raKeys)
				}
			}
			in, p = ri.Encode(), lib.ByNameCached("router_info.ReadRouterInfo")
		} else {
			a := gen.RouterAddress(r)
			a.Options = pick(r, raKeys)
			in, p = a.Encode(), lib.ByNameCached("router_address.ReadRouterAddress")
		}
		checkC04(c, pcase{p: *p, in: in, class: "well-known-options", shape: gen.Shape{}})
	})
}
