package mon

import (
	"bytes"
	"fmt"

	"verifharness/core"
	"verifharness/gen"
	"verifharness/lib"
	rm "verifharness/refmodel"
)

// pcase is one input for one parser.
type pcase struct {
	p     lib.Parser
	in    []byte
	class string // wellformed | mutated:<kind> | random | junk
	shape gen.Shape
	base  []byte // the well-formed encoding a mutated input was derived from
}

func (pc pcase) fullShape() gen.Shape {
	s := gen.Shape{"class": pc.class}
	for k, v := range pc.shape {
		s[k] = v
	}
	if pc.p.Arg != 0 || pc.p.Kind == "sig" || pc.p.Kind == "offline" || pc.p.Kind == "integer" {
		s["arg"] = pc.p.Arg
	}
	return s
}

// trivialKind: fixed-width primitives whose accepted inputs are not counted as non-trivial.
func trivialKind(k string) bool {
	switch k {
	case "date", "hash", "fixed32", "fixed8", "integer", "lease", "lease2", "sig", "intbytes":
		return true
	}
	return false
}

// sizeClass scales case counts: composite structures get the budget, primitives less.
func weight(kind string) int {
	switch kind {
	case "rinfo", "leaseset2", "metaleaseset", "leaseset", "encleaseset", "raddr", "mapping":
		return 4
	case "kac", "dest", "rident", "dest_ls", "kac_elg_ed", "kac_x_ed", "cert", "keycert", "offline", "string":
		return 2
	}
	return 1
}

// parserCases drives fn over the standard input classes for every parser in the registry.
// unit is the number of well-formed cases for a weight-1 parser.
func parserCases(c *core.Ctx, unit int, filter func(lib.Parser) bool, fn func(pc pcase)) {
	for _, p := range lib.Parsers() {
		if filter != nil && !filter(p) {
			continue
		}
		p := p
		n := unit * weight(p.Kind)
		// lattice corners: maximal counts, longest strings, largest keys (and one mutation of each)
		c.Job("corner/"+p.ID(), 2, func(i int, r *core.Rand) {
			for _, cn := range gen.Corners(core.NewRand(c.Seed, "corners", i)) {
				if cn.Kind != p.Kind {
					continue
				}
				fn(pcase{p: p, in: cn.Bytes, class: "corner", shape: gen.Shape{"corner": cn.Name}})
				m, kind := gen.Mutate(r, gen.Case{Bytes: cn.Bytes}, nil)
				fn(pcase{p: p, in: m, class: "mutated:corner+" + kind, shape: gen.Shape{"corner": cn.Name}, base: cn.Bytes})
			}
		})
		c.Job("wf/"+p.ID(), n, func(i int, r *core.Rand) {
			cs := gen.WellFormed(p.Kind, p.Arg, r)
			fn(pcase{p: p, in: cs.Bytes, class: "wellformed", shape: cs.Shape})
		})
		if _, ok := gen.Sized(p.Kind, p.Arg, core.NewRand(1, "sized-probe")); ok {
			// the variable-length part at sizes between the usual few hundred bytes and the maximum
			c.Job("sized/"+p.ID(), n/8+len(gen.SizeLadder), func(i int, r *core.Rand) {
				cs, ok := gen.Sized(p.Kind, p.Arg, r)
				if !ok {
					return
				}
				fn(pcase{p: p, in: cs.Bytes, class: "sized", shape: cs.Shape})
				if i%4 == 0 {
					m, kind := gen.Mutate(r, cs, nil)
					fn(pcase{p: p, in: m, class: "mutated:sized+" + kind, shape: cs.Shape, base: cs.Bytes})
				}
			})
		}
		c.Job("mut/"+p.ID(), n*2, func(i int, r *core.Rand) {
			cs := gen.WellFormed(p.Kind, p.Arg, r)
			other := gen.WellFormed(p.Kind, p.Arg, r)
			m, kind := gen.Mutate(r, cs, other.Bytes)
			if r.Chance(1, 4) { // second-order mutation
				m2, k2 := gen.Mutate(r, gen.Case{Bytes: m, Ctrl: cs.Ctrl}, other.Bytes)
				m, kind = m2, kind+"+"+k2
			}
			fn(pcase{p: p, in: m, class: "mutated:" + kind, shape: cs.Shape, base: cs.Bytes})
		})
		c.Job("rand/"+p.ID(), n/2+1, func(i int, r *core.Rand) {
			ln := r.Pick(64)
			switch r.Pick(4) {
			case 0:
				ln = r.Pick(600)
			case 1:
				ln = r.Pick(4000)
			}
			fn(pcase{p: p, in: r.Bytes(ln), class: "random", shape: gen.Shape{"len": ln}})
		})
		if p.Kind == "kac_elg_ed" || p.Kind == "kac_x_ed" {
			// the readers for one fixed pair of key types, given certificates that declare every other
			// pair (all defined codes and a few unknown ones): same total size or not, they are not
			// this reader's types
			sigs := []int{0, 1, 2, 3, 4, 5, 6, 7, 8, 9, 10, 11, 12, 255, 65280, 65535}
			crs := []int{0, 1, 2, 3, 4, 5, 6, 7, 8, 255, 65280, 65535}
			c.Job("foreign-types/"+p.ID(), len(sigs)*len(crs), func(i int, r *core.Rand) {
				sg, cr := sigs[i%len(sigs)], crs[i/len(sigs)]
				k, sh := gen.KACOf(r, 7, map[string]int{"kac_elg_ed": 0, "kac_x_ed": 4}[p.Kind])
				extra := []byte(nil)
				if r.Chance(1, 4) {
					extra = r.Bytes(1 + r.Pick(8))
				}
				k.Cert = rm.KeyCert(sg, cr, extra)
				sh["sig"], sh["crypto"], sh["cert"] = sg, cr, "KEY(foreign types)"
				fn(pcase{p: p, in: k.Encode(), class: "foreign-key-types", shape: sh})
			})
		}
		if p.Kind == "rinfo" {
			// a non-zero peer_size followed by that many 32-byte router hashes (what the field meant
			// before it became "unused, always zero"), by one hash too few, or by none
			c.Job("peers/"+p.ID(), n/4+1, func(i int, r *core.Rand) {
				ri, sh := gen.RouterInfo(r)
				ri.PeerSize = []byte{1, 2, 3, 8, 16, 255}[r.Pick(6)]
				hashes := int(ri.PeerSize)
				switch r.Pick(6) {
				case 0:
					hashes--
				case 1:
					hashes = 0
				}
				ri.PeerHashes = r.Bytes(32 * hashes)
				sh["peer_size"] = int(ri.PeerSize)
				sh["peer_hashes"] = hashes
				fn(pcase{p: p, in: ri.Encode(), class: "peer-hashes", shape: sh})
			})
		}
		if hasMapping(p.Kind) {
			c.Job("junk/"+p.ID(), n/2+1, func(i int, r *core.Rand) {
				in, sh := withMappingJunk(p.Kind, r)
				fn(pcase{p: p, in: in, class: "mapping-junk", shape: sh})
			})
		}
	}
}

func hasMapping(kind string) bool {
	switch kind {
	case "mapping", "raddr", "rinfo", "leaseset2", "metaleaseset":
		return true
	}
	return false
}

// withMappingJunk builds an otherwise well-formed structure whose (one) mapping carries junk
// or a short final pair inside its declared extent.
func withMappingJunk(kind string, r *core.Rand) ([]byte, gen.Shape) {
	junkMap := func() rm.Mapping {
		m := gen.Mapping(r, 3)
		body := m.Body()
		var tail []byte
		switch r.Pick(3) {
		case 0: // raw junk
			tail = r.Bytes(1 + r.Pick(7))
		case 1: // a complete but short pair (one-character key, empty value): 5 bytes
			tail = []byte{1, byte('a' + r.Pick(26)), '=', 0, ';'}
			if r.Chance(1, 2) { // empty key, empty value: 4 bytes
				tail = []byte{0, '=', 0, ';'}
			}
		default: // truncated pair
			tail = []byte{3, 'a', 'b'}
		}
		return rm.Mapping{Raw: append(body, tail...)}
	}
	switch kind {
	case "mapping":
		m := junkMap()
		return m.Encode(), gen.Shape{"rawbody": len(m.Raw)}
	case "raddr":
		a := gen.RouterAddress(r)
		a.Options = junkMap()
		return a.Encode(), gen.Shape{"rawbody": len(a.Options.Raw)}
	case "rinfo":
		ri, sh := gen.RouterInfo(r)
		if len(ri.Addrs) > 0 && r.Chance(1, 2) {
			ri.Addrs[r.Pick(len(ri.Addrs))].Options = junkMap()
			sh["junk_in"] = "address"
		} else {
			ri.Options = junkMap()
			sh["junk_in"] = "options"
		}
		return ri.Encode(), sh
	case "leaseset2":
		l, sh := gen.LeaseSet2(r)
		l.Options = junkMap()
		sh["junk_in"] = "options"
		return l.Encode(), sh
	case "metaleaseset":
		l, sh := gen.MetaLeaseSet(r)
		if r.Chance(1, 2) {
			l.Options = junkMap()
			sh["junk_in"] = "options"
		} else {
			l.Entries[0].Props = junkMap()
			sh["junk_in"] = "props"
		}
		return l.Encode(), sh
	}
	panic("withMappingJunk: " + kind)
}

// refExtent computes, with the independent decoder, how many bytes of in the structure of
// this kind occupies and whether every embedded mapping body is a clean pair sequence.
// ok=false when the reference cannot frame the input.
func refExtent(kind string, arg int, in []byte) (n int, clean bool, ok bool) {
	var err error
	clean = true
	switch kind {
	case "string":
		if len(in) < 1 || len(in) < 1+int(in[0]) {
			return 0, false, false
		}
		return 1 + int(in[0]), true, true
	case "date", "fixed8":
		if len(in) < 8 {
			return 0, false, false
		}
		return 8, true, true
	case "hash", "fixed32":
		if len(in) < 32 {
			return 0, false, false
		}
		return 32, true, true
	case "integer":
		if len(in) < arg {
			return 0, false, false
		}
		return arg, true, true
	case "mapping":
		_, n, clean, err = rm.DecodeMapping(in)
	case "cert", "keycert":
		_, n, err = rm.DecodeCert(in)
	case "kac", "kac_elg_ed", "kac_x_ed", "dest", "rident", "dest_ls":
		_, n, err = rm.DecodeKAC(in)
	case "lease":
		_, n, err = rm.DecodeLease(in)
	case "lease2":
		_, n, err = rm.DecodeLease2(in)
	case "sig":
		sl, k := rm.SigLen(arg)
		if !k || len(in) < sl {
			return 0, false, false
		}
		return sl, true, true
	case "offline":
		_, n, err = rm.DecodeOffline(in, arg)
	case "raddr":
		_, n, clean, err = rm.DecodeRouterAddress(in)
	case "rinfo":
		_, n, clean, err = rm.DecodeRouterInfo(in)
	case "leaseset":
		_, n, err = rm.DecodeLeaseSet(in)
	case "leaseset2":
		_, n, clean, err = rm.DecodeLeaseSet2(in)
	case "metaleaseset":
		_, n, clean, err = rm.DecodeMetaLeaseSet(in)
	case "encleaseset":
		_, n, err = rm.DecodeEncryptedLeaseSet(in)
	default:
		return 0, false, false
	}
	if err != nil {
		return 0, false, false
	}
	return n, clean, true
}

func isSuffix(rem, in []byte) bool {
	if len(rem) > len(in) {
		return false
	}
	if len(rem) == 0 {
		return true
	}
	tail := in[len(in)-len(rem):]
	if !bytes.Equal(tail, rem) {
		return false
	}
	return &tail[0] == &rem[0] || true
}

func firstDiff(a, b []byte) int {
	n := len(a)
	if len(b) < n {
		n = len(b)
	}
	for i := 0; i < n; i++ {
		if a[i] != b[i] {
			return i
		}
	}
	if len(a) != len(b) {
		return n
	}
	return -1
}

func describeDiff(want, got []byte) string {
	return fmt.Sprintf("consumed %d bytes, serialised %d bytes, first difference at offset %d", len(want), len(got), firstDiff(want, got))
}

// callParser runs one parser call under the event discipline.
func callParser(c *core.Ctx, p lib.Parser, in []byte) (out lib.Out, panicked bool, pv any, stack string) {
	panicked, pv, stack = c.Call(p.ID(), in, func() { out = p.Fn(in) })
	return
}
