package mon

import (
	"verifharness/core"
	"verifharness/gen"
	rm "verifharness/refmodel"
)

// Factories of validly signed model structures. All signing is done by the reference
// (standard library), never by go-i2p/common.

// identWithKey generates an identity of the key's signing type carrying the key.
func identWithKey(r *core.Rand, key *rm.SigKey, cryptos []int) (rm.KAC, gen.Shape) {
	cr := cryptos[r.Pick(len(cryptos))]
	k, sh := gen.KACOf(r, key.Type, cr)
	if key.Type == 0 && cr == 0 && sh["cert"] != "KEY" && sh["cert"] != "KEY+extra" {
		// NULL certificate: DSA + ElGamal, the key occupies the whole 128-byte field
	}
	copy(k.Block[384-len(key.Pub):], key.Pub)
	// the padding between the two keys is random in most identities and all zero in some (a signer
	// whose own padding is zero does not notice a serialiser that writes zeros there)
	if cpk, ok := rm.CryptoLen(cr); ok && r.Chance(1, 4) {
		for j := cpk; j < 384-len(key.Pub); j++ {
			k.Block[j] = 0
		}
		sh["padding"] = "zero"
	}
	return k, sh
}

// signedTweak, when set, is applied to the model (a *rm.RouterInfo, *rm.LeaseSet, *rm.LeaseSet2,
// *rm.MetaLeaseSet or *rm.EncryptedLeaseSet) just before it is signed: the result is a correctly
// signed structure with whatever unusual content the tweak gave it. Set and cleared by the caller.
var signedTweak func(model any)

func applyTweak(model any) {
	if signedTweak != nil {
		signedTweak(model)
	}
}

type signedCase struct {
	kind  string
	bytes []byte
	shape gen.Shape
	// keys used, for derivations
	identKey  *rm.SigKey
	transient *rm.SigKey
	// re-sign hooks for derivations that need a fresh signature
	destSigType int
}

func signedRouterInfo(r *core.Rand, sigType int) signedCase {
	key, _ := rm.NewSigKey(sigType, r)
	ri, sh := gen.RouterInfo(r)
	ri.Ident, _ = identWithKey(r, key, rm.IdentCryptoTypes)
	s, c := ri.Ident.Types()
	sh["sig"], sh["crypto"] = s, c
	applyTweak(&ri)
	ri.Sig, _ = key.Sign(ri.EncodeUnsigned(), r)
	return signedCase{kind: "rinfo", bytes: ri.Encode(), shape: sh, identKey: key, destSigType: sigType}
}

func signedLeaseSet(r *core.Rand, sigType int) signedCase {
	key, _ := rm.NewSigKey(sigType, r)
	l, sh := gen.LeaseSet(r)
	l.Dest, _ = identWithKey(r, key, rm.IdentCryptoTypes)
	s, c := l.Dest.Types()
	sh["sig"], sh["crypto"] = s, c
	pl, _ := rm.SigPubLen(sigType)
	l.SigningKey = r.Bytes(pl) // the revocation key is unrelated to the identity key
	if sigType == 0 {
		gen.DSAInRange(l.SigningKey)
	}
	applyTweak(&l)
	l.Sig, _ = key.Sign(l.EncodeUnsigned(), r)
	return signedCase{kind: "leaseset", bytes: l.Encode(), shape: sh, identKey: key, destSigType: sigType}
}

// offlineFor builds an offline block signed by the identity key authorising a fresh
// transient key of the given type.
func offlineFor(r *core.Rand, ident *rm.SigKey, transientType int) (rm.Offline, *rm.SigKey) {
	tk, _ := rm.NewSigKey(transientType, r)
	o := rm.Offline{Expires: r.Uint32() | 1, SigType: uint16(transientType), TransientKey: tk.Pub}
	o.Sig, _ = ident.Sign(o.SignedPart(), r)
	return o, tk
}

func signedLeaseSet2(r *core.Rand, sigType int, offline bool, transientType int) signedCase {
	return signedLeaseSet2With(r, sigType, offline, transientType, false)
}

// signedLeaseSet2With: with forge set, the offline block is signed by a key that is NOT the identity's (the
// content is still correctly signed by the transient key): a structure that must never verify.
func signedLeaseSet2With(r *core.Rand, sigType int, offline bool, transientType int, forge bool) signedCase {
	key, _ := rm.NewSigKey(sigType, r)
	l, sh := gen.LeaseSet2(r)
	l.Dest, _ = identWithKey(r, key, rm.IdentCryptoTypes)
	s, c := l.Dest.Types()
	sh["sig"], sh["crypto"] = s, c
	l.Offline = nil
	l.Flags &^= 1
	signer := key
	var tk *rm.SigKey
	if offline {
		authoriser := key
		if forge {
			authoriser, _ = rm.NewSigKey(sigType, r)
		}
		o, t := offlineFor(r, authoriser, transientType)
		l.Offline, tk, signer = &o, t, t
		l.Flags |= 1
	}
	sh["offline"], sh["transient"] = offline, transientType
	applyTweak(&l)
	msg := append([]byte{rm.StoreLeaseSet2}, l.EncodeUnsigned()...)
	l.Sig, _ = signer.Sign(msg, r)
	return signedCase{kind: "leaseset2", bytes: l.Encode(), shape: sh, identKey: key, transient: tk, destSigType: sigType}
}

func signedMeta(r *core.Rand, sigType int, offline bool, transientType int) signedCase {
	return signedMetaWith(r, sigType, offline, transientType, false)
}

// signedMetaWith: with forge set, the offline block is signed by a key that is NOT the identity's (the
// content is still correctly signed by the transient key): a structure that must never verify.
func signedMetaWith(r *core.Rand, sigType int, offline bool, transientType int, forge bool) signedCase {
	key, _ := rm.NewSigKey(sigType, r)
	l, sh := gen.MetaLeaseSet(r)
	l.Dest, _ = identWithKey(r, key, rm.IdentCryptoTypes)
	s, c := l.Dest.Types()
	sh["sig"], sh["crypto"] = s, c
	l.Offline = nil
	l.Flags &^= 1
	signer := key
	var tk *rm.SigKey
	if offline {
		authoriser := key
		if forge {
			authoriser, _ = rm.NewSigKey(sigType, r)
		}
		o, t := offlineFor(r, authoriser, transientType)
		l.Offline, tk, signer = &o, t, t
		l.Flags |= 1
	}
	sh["offline"], sh["transient"] = offline, transientType
	applyTweak(&l)
	msg := append([]byte{rm.StoreMetaLeaseSet}, l.EncodeUnsigned()...)
	l.Sig, _ = signer.Sign(msg, r)
	return signedCase{kind: "metaleaseset", bytes: l.Encode(), shape: sh, identKey: key, transient: tk, destSigType: sigType}
}

func signedELS(r *core.Rand, sigType int, offline bool, transientType int) signedCase {
	return signedELSWith(r, sigType, offline, transientType, false)
}

// signedELSWith: with forge set, the offline block is signed by a key that is NOT the identity's (the
// content is still correctly signed by the transient key): a structure that must never verify.
func signedELSWith(r *core.Rand, sigType int, offline bool, transientType int, forge bool) signedCase {
	key, _ := rm.NewSigKey(sigType, r)
	l, sh := gen.EncryptedLeaseSet(r)
	l.SigType = uint16(sigType)
	l.BlindedKey = key.Pub
	l.Offline = nil
	l.Flags &^= 1
	signer := key
	var tk *rm.SigKey
	if offline {
		authoriser := key
		if forge {
			authoriser, _ = rm.NewSigKey(sigType, r)
		}
		o, t := offlineFor(r, authoriser, transientType)
		l.Offline, tk, signer = &o, t, t
		l.Flags |= 1
	}
	sh["sig"], sh["offline"], sh["transient"] = sigType, offline, transientType
	applyTweak(&l)
	msg := append([]byte{rm.StoreEncryptedLS}, l.EncodeUnsigned()...)
	l.Sig, _ = signer.Sign(msg, r)
	return signedCase{kind: "encleaseset", bytes: l.Encode(), shape: sh, identKey: key, transient: tk, destSigType: sigType}
}

// encryptForTest encrypts plaintext with the reference implementation to a fresh recipient
// and returns the blob and the recipient's private key bytes.
func encryptForTest(r *core.Rand, plaintext []byte) (blob []byte, recipientPriv []byte, err error) {
	priv, pub, err := rm.X25519KeyPair(r.Bytes(32))
	if err != nil {
		return nil, nil, err
	}
	blob, err = rm.EncryptInner(plaintext, pub, r.Bytes(32), r.Bytes(12))
	return blob, priv, err
}
