package mon

import (
	"bytes"
	"fmt"
	"reflect"
	"time"

	"github.com/go-i2p/common/certificate"
	"github.com/go-i2p/common/data"
	"github.com/go-i2p/common/destination"
	"github.com/go-i2p/common/encrypted_leaseset"
	"github.com/go-i2p/common/keys_and_cert"
	"github.com/go-i2p/common/lease"
	"github.com/go-i2p/common/lease_set"
	"github.com/go-i2p/common/lease_set2"
	"github.com/go-i2p/common/offline_signature"
	"github.com/go-i2p/common/router_address"
	"github.com/go-i2p/common/router_identity"
	"github.com/go-i2p/common/router_info"
	"github.com/go-i2p/common/signature"

	"verifharness/core"
	"verifharness/gen"
	"verifharness/lib"
	rm "verifharness/refmodel"
)

// C14 — constructor success implies Validate success implies a clean wire round trip.
func init() { register("C14", runC14) }

// c14Chain runs clauses (a) and (b) for one constructed value.
//
//	validate: the structure's structural validation; ser: serialisation;
//	reparse: parse ser and return (serialisation of the parsed value, remainder length, error)
func c14Chain(c *core.Ctx, site string, sh gen.Shape, input []byte, validate func() error, ser func() ([]byte, error), reparse func(b []byte) ([]byte, int, error)) {
	c.Nontrivial([]byte(site), input, []byte(fmt.Sprint(sh)))
	var verr error
	if p, _, _ := c.Call(site+".Validate", input, func() { verr = validate() }); p {
		return
	}
	if verr != nil {
		c.Violate(site, "constructed-value-fails-validation", sh, input, firstLineOf(verr.Error()))
		return
	}
	c14RoundTrip(c, site, sh, input, ser, reparse)
}

// c14RoundTrip is clause (b): a value whose validation succeeded serialises and parses back.
func c14RoundTrip(c *core.Ctx, site string, sh gen.Shape, input []byte, ser func() ([]byte, error), reparse func(b []byte) ([]byte, int, error)) {
	var b []byte
	var err error
	if p, _, _ := c.Call(site+".Bytes", input, func() { b, err = ser() }); p {
		return
	}
	if err != nil {
		c.Violate(site, "valid-value-does-not-serialise", sh, input, firstLineOf(err.Error()))
		return
	}
	var again []byte
	var rem int
	if p, _, _ := c.Call(site+".reparse", b, func() { again, rem, err = reparse(b) }); p {
		return
	}
	if err != nil {
		c.Violate(site, "valid-value-bytes-rejected-by-parser", sh, b, firstLineOf(err.Error()))
		return
	}
	if rem != 0 {
		c.Violate(site, "valid-value-bytes-leave-remainder", sh, b, fmt.Sprintf("%d bytes left over", rem))
		return
	}
	if !bytes.Equal(again, b) {
		c.Violate(site, "valid-value-reserialises-differently", sh, b, describeDiff(b, again))
		return
	}
	c.Bucket("chain-ok/" + site)
}

// wrongLen picks a length that is not n: off by one or a few, and congruent to n modulo 2^8 and
// 2^16 (a length check carried out in the width of the wire field wraps around).
func wrongLen(r *core.Rand, n int) int {
	opts := []int{n + 1, n + 1 + r.Pick(8), n + 256, n + 65536, n + 131072}
	if n > 0 {
		opts = append(opts, n-1, 0)
	}
	return opts[r.Pick(len(opts))]
}

// c14Defect is clause (c): a documented structural defect must be rejected.
func c14Defect(c *core.Ctx, site, defect string, sh gen.Shape, rejected bool, detail string) {
	c.Eval(1)
	c.Bucket("defect/" + site + "/" + defect)
	if !rejected {
		s2 := gen.Shape{"defect": defect}
		for k, v := range sh {
			s2[k] = v
		}
		c.Violate(site, "documented-defect-accepted", s2, nil, defect+": "+detail)
	}
}

func runC14(c *core.Ctx) {
	n := c.N(600, 15000)

	// ---------------- KeysAndCert / Destination / RouterIdentity
	c.Job("kac", n, func(i int, r *core.Rand) {
		sig := rm.KACSigTypes[i%len(rm.KACSigTypes)]
		cr := rm.KACCryptoTypes[(i/len(rm.KACSigTypes))%len(rm.KACCryptoTypes)]
		m, sh := gen.KACOf(r, sig, cr)
		if sh["cert"] == "NULL" || sh["cert"] == "NULL+payload" {
			m.Cert = rm.KeyCert(0, 0, nil)
			sh["cert"] = "KEY"
		}
		enc := m.Encode()
		c.Eval(1)
		var k *keys_and_cert.KeysAndCert
		var ok bool
		var err error
		if p, _, _ := c.Call("keys_and_cert.NewKeysAndCert", enc, func() { k, ok, err = lib.BuildKAC(m) }); p || !ok {
			return
		}
		c.OpResult("keys_and_cert.NewKeysAndCert", err == nil)
		if err != nil {
			return
		}
		reparseKAC := func(b []byte) ([]byte, int, error) {
			p, rem, err := keys_and_cert.ReadKeysAndCert(b)
			if err != nil {
				return nil, 0, err
			}
			s, err := p.Bytes()
			return s, len(rem), err
		}
		c14Chain(c, "keys_and_cert.NewKeysAndCert", sh, enc, k.Validate, k.Bytes, reparseKAC)
		// every pair is offered to the identity constructors, the prohibited ones too: whatever a
		// constructor returns must validate and come back through the structure's OWN parser
		reparseDest := func(b []byte) ([]byte, int, error) {
			p, rem, err := destination.ReadDestination(b)
			if err != nil {
				return nil, 0, err
			}
			s, err := p.Bytes()
			return s, len(rem), err
		}
		reparseRI := func(b []byte) ([]byte, int, error) {
			p, rem, err := router_identity.ReadRouterIdentity(b)
			if err != nil || p == nil {
				return nil, 0, fmt.Errorf("ReadRouterIdentity: %v", err)
			}
			s, err := p.Bytes()
			return s, len(rem), err
		}
		if d, ok, err := lib.BuildDestination(m); ok && err == nil && d != nil {
			c14Chain(c, "destination.NewDestination", sh, enc, d.Validate, d.Bytes, reparseDest)
		}
		for variant := 0; variant < 2; variant++ {
			if d, ok, err := lib.BuildRouterIdentity(m, variant); ok && err == nil && d != nil {
				c14Chain(c, []string{"router_identity.NewRouterIdentity", "router_identity.NewRouterIdentityFromKeysAndCert"}[variant], sh, enc, d.Validate, d.Bytes, reparseRI)
			}
		}
		// (c) key length not matching its type: constructor and validator alike
		kc, _, _ := lib.BuildKeyCert(m.Cert)
		goodPK, _ := lib.CryptoKeyOf(cr, m.CryptoKey())
		goodSPK, _ := lib.SigningKeyOf(sig, m.SigningKey())
		wrongSig := map[int]int{0: 7, 1: 7, 2: 7, 7: 1, 8: 1, 11: 0}[sig]
		wlen, _ := rm.SigPubLen(wrongSig)
		badSPK, _ := lib.SigningKeyOf(wrongSig, r.Bytes(wlen))
		wrongCr := map[int]int{0: 4, 4: 0, 5: 0, 6: 0, 7: 0}[cr]
		clen, _ := rm.CryptoLen(wrongCr)
		badPK, _ := lib.CryptoKeyOf(wrongCr, r.Bytes(clen))
		if kc != nil && goodPK != nil && goodSPK != nil && i%4 == 1 {
			// a missing key: what the validator calls "key is required"
			if v, err := keys_and_cert.NewKeysAndCert(kc, nil, m.Padding(), goodSPK); true {
				c14Defect(c, "keys_and_cert.NewKeysAndCert", "crypto key missing (nil)", sh, err != nil || v == nil, "constructor returned a value")
			}
			if v, err := keys_and_cert.NewKeysAndCert(kc, goodPK, m.Padding(), nil); true {
				c14Defect(c, "keys_and_cert.NewKeysAndCert", "signing key missing (nil)", sh, err != nil || v == nil, "constructor returned a value")
			}
			c14Defect(c, "keys_and_cert.KeysAndCert.Validate", "crypto key missing (nil)", sh, (&keys_and_cert.KeysAndCert{KeyCertificate: kc, Padding: m.Padding(), SigningPublic: goodSPK}).Validate() != nil, "validator accepted")
		}
		if kc != nil && goodPK != nil && badSPK != nil {
			_, err := keys_and_cert.NewKeysAndCert(kc, goodPK, m.Padding(), badSPK)
			c14Defect(c, "keys_and_cert.NewKeysAndCert", "signing key length does not match its type", sh, err != nil, "constructor accepted")
			lit := &keys_and_cert.KeysAndCert{KeyCertificate: kc, ReceivingPublic: goodPK, Padding: m.Padding(), SigningPublic: badSPK}
			c14Defect(c, "keys_and_cert.KeysAndCert.Validate", "signing key length does not match its type", sh, lit.Validate() != nil, "validator accepted")
		}
		if kc != nil && goodSPK != nil && badPK != nil {
			_, err := keys_and_cert.NewKeysAndCert(kc, badPK, m.Padding(), goodSPK)
			c14Defect(c, "keys_and_cert.NewKeysAndCert", "crypto key length does not match its type", sh, err != nil, "constructor accepted")
			lit := &keys_and_cert.KeysAndCert{KeyCertificate: kc, ReceivingPublic: badPK, Padding: m.Padding(), SigningPublic: goodSPK}
			c14Defect(c, "keys_and_cert.KeysAndCert.Validate", "crypto key length does not match its type", sh, lit.Validate() != nil, "validator accepted")
		}
	})

	// ---------------- Certificate / builder
	c.Job("cert", n, func(i int, r *core.Rand) {
		m := gen.Cert(r)
		enc := m.Encode()
		c.Eval(1)
		sh := gen.Shape{"type": int(m.Type), "plen": len(m.Payload)}
		for v, site := range []string{"certificate.NewCertificateWithType", "certificate.CertificateBuilder.Build"} {
			var ct *certificate.Certificate
			var err error
			if v == 0 {
				ct, err = lib.BuildCert(m)
			} else {
				ct, err = lib.BuildCertViaBuilder(m)
			}
			c.OpResult(site, err == nil)
			if err != nil {
				continue
			}
			c14Chain(c, site, sh, enc, func() error {
				if !ct.IsValid() {
					return fmt.Errorf("IsValid() is false")
				}
				return nil
			}, func() ([]byte, error) { return ct.Bytes(), nil }, func(b []byte) ([]byte, int, error) {
				p, rem, err := certificate.ReadCertificate(b)
				if err != nil {
					return nil, 0, err
				}
				return p.Bytes(), len(rem), nil
			})
		}
		// (c) documented payload rules
		if i%8 == 0 {
			_, err := certificate.NewCertificateWithType(certificate.CERT_NULL, []byte{1})
			c14Defect(c, "certificate.NewCertificateWithType", "NULL certificate with payload", nil, err != nil, "")
			_, err = certificate.NewCertificateWithType(certificate.CERT_HIDDEN, []byte{1, 2})
			c14Defect(c, "certificate.NewCertificateWithType", "HIDDEN certificate with payload", nil, err != nil, "")
			_, err = certificate.NewCertificateWithType(certificate.CERT_SIGNED, r.Bytes(41+r.Pick(30)))
			c14Defect(c, "certificate.NewCertificateWithType", "SIGNED payload not 40/72 bytes", nil, err != nil, "")
			_, err = certificate.NewCertificateWithType(certificate.CERT_KEY, make([]byte, 65536))
			c14Defect(c, "certificate.NewCertificateWithType", "payload longer than 65535", nil, err != nil, "")
			_, err = certificate.NewCertificateWithType(byte(6+r.Pick(250)), nil)
			c14Defect(c, "certificate.NewCertificateWithType", "undefined certificate type", nil, err != nil, "")
		}
	})

	// ---------------- Mapping / MappingValues
	c.Job("mapping", n, func(i int, r *core.Rand) {
		m := gen.Mapping(r, 30)
		enc := m.Encode()
		c.Eval(1)
		mp, err := data.GoMapToMapping(lib.MappingToGo(m))
		c.OpResult("data.GoMapToMapping", err == nil)
		if err != nil {
			return
		}
		c14Chain(c, "data.GoMapToMapping", gen.Shape{"pairs": len(m.Pairs)}, enc, mp.Validate, func() ([]byte, error) { return mp.Data(), nil }, func(b []byte) ([]byte, int, error) {
			p, rem, errs := data.ReadMapping(b)
			if len(errs) > 0 {
				return nil, 0, errs[0]
			}
			return p.Data(), len(rem), nil
		})
		vals := data.NewMappingValues(4)
		okAll := true
		for _, p := range m.Pairs {
			var err error
			vals, err = vals.Add(string(p.K), string(p.V))
			if err != nil {
				okAll = false
			}
		}
		if okAll {
			if err := vals.Validate(); err != nil {
				c.Violate("data.MappingValues.Add", "constructed-value-fails-validation", gen.Shape{"pairs": len(m.Pairs)}, enc, err.Error())
			}
		}
	})

	// ---------------- RouterAddress
	c.Job("raddr", n, func(i int, r *core.Rand) {
		m := gen.RouterAddress(r)
		if i%50 == 17 {
			// options whose encoded size sits at the limit of the two-byte size field: 65,530 .. 65,545
			// bytes (up to 65,535 they fit; beyond, the constructor refuses - or what it returns still
			// validates and round-trips)
			target := 65530 + (i/50)%16
			g := mapOfExactSize(r, target, []int{257, 300, 512}[(i/800)%3])
			m.Options = rm.Mapping{}
			for k, v := range g {
				m.Options.Pairs = append(m.Options.Pairs, rm.Pair{K: []byte(k), V: []byte(v)})
			}
			m.Options = sortedMapping(m.Options)
			if len(m.Style) == 0 {
				m.Style = []byte("NTCP2")
			}
		}
		enc := m.Encode()
		c.Eval(1)
		if len(m.Style) == 0 {
			_, err := router_address.NewRouterAddress(1, time.Time{}, "", nil)
			c14Defect(c, "router_address.NewRouterAddress", "empty transport style", nil, err != nil, "")
			return
		}
		a, err := lib.BuildRouterAddress(m)
		c.OpResult("router_address.NewRouterAddress", err == nil)
		if err != nil {
			return
		}
		c14Chain(c, "router_address.NewRouterAddress", gen.Shape{"opts": len(m.Options.Pairs)}, enc, a.Validate, func() ([]byte, error) { return a.Bytes(), nil }, func(b []byte) ([]byte, int, error) {
			p, rem, err := router_address.ReadRouterAddress(b)
			if err != nil {
				return nil, 0, err
			}
			return p.Bytes(), len(rem), nil
		})
	})

	// ---------------- RouterInfo
	c.Job("rinfo", n/2, func(i int, r *core.Rand) {
		key, _ := rm.NewSigKey(7, r)
		priv, _ := lib.LibSigningPrivateKey(key)
		m, sh := gen.RouterInfo(r)
		m.Ident, _ = identWithKey(r, key, rm.IdentCryptoTypes)
		m.Published &= 1<<62 - 1
		if i%5 == 0 {
			m.Addrs = nil
		}
		if i%7 == 3 {
			// boundary publication dates: the epoch itself (the all-zero Date), one millisecond later
			m.Published = uint64(i/7) % 2
		}
		for j := range m.Addrs {
			if len(m.Addrs[j].Style) == 0 {
				m.Addrs[j].Style = []byte("SSU2")
			}
		}
		if i%40 == 11 {
			// more addresses than the one-byte count can say (256, 257, 300, 511, 512): refused, or
			// whatever is returned validates and round-trips like any other value
			want := []int{256, 257, 300, 511, 512, 255}[(i/40)%6]
			for len(m.Addrs) < want {
				a := gen.RouterAddress(r)
				a.Options = rm.Mapping{}
				a.Style = []byte("SSU2")
				m.Addrs = append(m.Addrs, a)
			}
		}
		sh["addrs"] = len(m.Addrs)
		sh["published_zero"] = m.Published == 0
		c.Eval(1)
		ri, ok, err := lib.BuildRouterInfo(m, priv, i%2)
		if !ok {
			return
		}
		c.OpResult("router_info.NewRouterInfo", err == nil)
		if err != nil {
			return
		}
		c14Chain(c, "router_info.NewRouterInfo", sh, m.EncodeUnsigned(), ri.Validate, ri.Bytes, func(b []byte) ([]byte, int, error) {
			p, rem, err := router_info.ReadRouterInfo(b)
			if err != nil {
				return nil, 0, err
			}
			s, err := p.Bytes()
			return s, len(rem), err
		})
	})

	// ---------------- LeaseSet
	c.Job("leaseset", n/2, func(i int, r *core.Rand) {
		st := []int{7, 11, 0}[i%3]
		key, _ := rm.NewSigKey(st, r)
		priv, err := lib.LibSigningPrivateKey(key)
		if err != nil {
			return
		}
		m, sh := gen.LeaseSet(r)
		var ish gen.Shape
		m.Dest, ish = identWithKey(r, key, rm.IdentCryptoTypes)
		sh["sig"], sh["crypto"], sh["cert"] = ish["sig"], ish["crypto"], ish["cert"]
		pl, _ := rm.SigPubLen(st)
		m.SigningKey = r.Bytes(pl)
		if st == 0 {
			gen.DSAInRange(m.SigningKey)
		}
		for j := range m.Leases {
			m.Leases[j].EndMs &= 1<<62 - 1
		}
		c.Eval(1)
		ls, ok, err := lib.BuildLeaseSet(m, priv)
		if !ok {
			return
		}
		c.OpResult("lease_set.NewLeaseSet", err == nil)
		if err != nil {
			return
		}
		c14Chain(c, "lease_set.NewLeaseSet", sh, m.EncodeUnsigned(), ls.Validate, ls.Bytes, func(b []byte) ([]byte, int, error) {
			p, err := lease_set.ReadLeaseSet(b)
			if err != nil {
				return nil, 0, err
			}
			s, err := p.Bytes()
			return s, 0, err
		})
		// a signing (revocation) key whose length is not that of the destination's signing type:
		// either the constructor refuses, or what it returns validates and round-trips.
		// Destinations with a NULL certificate (DSA) only come from the parser.
		if i%4 == 1 {
			var d *destination.Destination
			dst := st
			if i%8 == 1 {
				dk, _ := rm.NewSigKey(0, r)
				km, _ := gen.KACOf(r, 0, 0)
				km.Cert = rm.Cert{Type: rm.CertNull, Payload: []byte{}}
				copy(km.Block[384-len(dk.Pub):], dk.Pub)
				if pd, _, err := destination.ReadDestination(km.Encode()); err == nil {
					d, dst = &pd, 0
				}
				if p0, err := lib.LibSigningPrivateKey(dk); err == nil {
					priv = p0
				}
			} else {
				d, _, _ = lib.BuildDestination(m.Dest)
			}
			ek, _ := lib.CryptoKeyOf(0, m.EncKey)
			var ll []lease.Lease
			for _, x := range m.Leases {
				if l, err := lib.BuildLease(x); err == nil {
					ll = append(ll, *l)
				}
			}
			for _, wt := range []int{7, 1, 2, 0} {
				wl, _ := rm.SigPubLen(wt)
				dl, _ := rm.SigPubLen(dst)
				if d == nil || ek == nil || wl == dl {
					continue
				}
				kb := r.Bytes(wl)
				if wt == 0 {
					gen.DSAInRange(kb)
				}
				sk, err := lib.SigningKeyOf(wt, kb)
				if err != nil {
					continue
				}
				var ls2 *lease_set.LeaseSet
				var cerr error
				site := "lease_set.NewLeaseSet"
				if p, _, _ := c.Call(site, nil, func() { ls2, cerr = lease_set.NewLeaseSet(*d, ek, sk, ll, priv) }); p {
					continue
				}
				c.Eval(1)
				sh2 := gen.Shape{"class": "signing-key-length-differs-from-destination-type", "dest_sig": dst, "key_sig": wt, "null_cert": i%8 == 1}
				if cerr != nil || ls2 == nil {
					c.Bucket("defect/lease_set.NewLeaseSet/signing key length differs from the destination's type: rejected")
					continue
				}
				c14Chain(c, site, sh2, nil, ls2.Validate, ls2.Bytes, func(b []byte) ([]byte, int, error) {
					p, err := lease_set.ReadLeaseSet(b)
					if err != nil {
						return nil, 0, err
					}
					s, err := p.Bytes()
					return s, 0, err
				})
			}
		}
		// (c) count out of range
		if i%10 == 0 {
			d, _, _ := lib.BuildDestination(m.Dest)
			var many []lease.Lease
			for j := 0; j < 17; j++ {
				l, _ := lib.BuildLease(gen.Lease(r))
				many = append(many, *l)
			}
			sk, _ := lib.SigningKeyOf(st, m.SigningKey)
			ek, _ := lib.CryptoKeyOf(0, m.EncKey)
			if d != nil && sk != nil && ek != nil {
				_, err := lease_set.NewLeaseSet(*d, ek, sk, many, priv)
				c14Defect(c, "lease_set.NewLeaseSet", "more than 16 leases", nil, err != nil, "")
			}
		}
		// missing (nil) arguments: the constructor refuses, or what it returns validates and comes back
		// from the wire (a value without a signature or a key serialises to bytes no parser accepts)
		if i%10 == 5 {
			d, _, _ := lib.BuildDestination(m.Dest)
			sk, _ := lib.SigningKeyOf(st, m.SigningKey)
			ek, _ := lib.CryptoKeyOf(0, m.EncKey)
			var ll []lease.Lease
			for _, x := range m.Leases {
				if l, err := lib.BuildLease(x); err == nil {
					ll = append(ll, *l)
				}
			}
			if d != nil && sk != nil && ek != nil {
				// (only the private key: nil public keys are outside what any statement speaks about - the
				// constructor dereferences them - and are not fed)
				for _, what := range []string{"signing private key missing (nil)"} {
					var v *lease_set.LeaseSet
					var cerr error
					panicked := func() (p bool) {
						defer func() { p = recover() != nil }()
						v, cerr = lease_set.NewLeaseSet(*d, ek, sk, ll, nil)
						return
					}()
					if panicked {
						c.Bucket("defect/lease_set.NewLeaseSet/" + what + ": panics (not judged)")
						continue
					}
					c.Eval(1)
					if cerr != nil || v == nil {
						c.Bucket("defect/lease_set.NewLeaseSet/" + what + ": rejected")
						continue
					}
					c14Chain(c, "lease_set.NewLeaseSet", gen.Shape{"class": what}, nil, v.Validate, v.Bytes, func(b []byte) ([]byte, int, error) {
						p, err := lease_set.ReadLeaseSet(b)
						if err != nil {
							return nil, 0, err
						}
						s, err := p.Bytes()
						return s, 0, err
					})
				}
			}
		}
	})

	// ---------------- LeaseSet2 (and parsed values whose validation succeeds)
	c.Job("leaseset2", n, func(i int, r *core.Rand) {
		m, sh := gen.LeaseSet2(r)
		c.Eval(1)
		reparse := func(b []byte) ([]byte, int, error) {
			p, rem, err := lease_set2.ReadLeaseSet2(b)
			if err != nil {
				return nil, 0, err
			}
			s, err := p.Bytes()
			return s, len(rem), err
		}
		// single-defect variants, each applied to an otherwise valid argument tuple
		valid := m
		valid.Flags &= 7
		if len(valid.Leases) == 0 {
			valid.Leases = []rm.Lease2{gen.Lease2(r)}
		}
		valid.Keys = nil
		for j := 0; j < 1+r.Pick(3); j++ {
			t := []int{4, 0, 5, 6, 7}[r.Pick(5)]
			kl, _ := rm.CryptoLen(t)
			valid.Keys = append(valid.Keys, rm.EncKey{Type: uint16(t), Data: r.Bytes(kl)})
		}
		if valid.Offline == nil {
			valid.Flags &^= 1
		} else {
			valid.Flags |= 1
		}
		sh["flags"] = int(valid.Flags)
		ls, ok, err := lib.BuildLeaseSet2(valid, nil)
		if !ok {
			return
		}
		c.OpResult("lease_set2.NewLeaseSet2", err == nil)
		if err == nil {
			c14Chain(c, "lease_set2.NewLeaseSet2", sh, valid.EncodeUnsigned(), ls.Validate, ls.Bytes, reparse)
		} else {
			c.Violate("lease_set2.NewLeaseSet2", "valid-arguments-rejected", sh, valid.EncodeUnsigned(), firstLineOf(err.Error()))
		}
		// parsed values: validation success => clean round trip
		if p, rem, err := lease_set2.ReadLeaseSet2(m.Encode()); err == nil && len(rem) == 0 && p.Validate() == nil {
			c14RoundTrip(c, "lease_set2.ReadLeaseSet2(valid)", sh, m.Encode(), p.Bytes, reparse)
		}
		try := func(defect string, mut func(x *rm.LeaseSet2)) {
			x := valid
			x.Keys = append([]rm.EncKey{}, valid.Keys...)
			x.Leases = append([]rm.Lease2{}, valid.Leases...)
			mut(&x)
			v, ok, err := lib.BuildLeaseSet2(x, nil)
			if !ok {
				return
			}
			c14Defect(c, "lease_set2.NewLeaseSet2", defect, gen.Shape{}, err != nil, "constructor accepted")
			// the validator on the same shape, reached through the parser where the parser admits it
			// (a key longer than 65,535 bytes has no encoding: the length field would wrap, and the
			// encoding would no longer carry the defect)
			encodable := true
			for _, k := range x.Keys {
				encodable = encodable && len(k.Data) <= 65535
			}
			if !encodable {
				return
			}
			if p, _, perr := lease_set2.ReadLeaseSet2(x.Encode()); perr == nil {
				c14Defect(c, "lease_set2.LeaseSet2.Validate", defect, gen.Shape{}, p.Validate() != nil, "validator accepted a parsed value with the defect")
			}
			_ = v
		}
		switch i % 6 {
		case 0:
			try("key length does not match its type", func(x *rm.LeaseSet2) {
				for len(x.Keys) < 3 {
					x.Keys = append(x.Keys, rm.EncKey{Type: 4, Data: r.Bytes(32)})
				}
				k := r.Pick(len(x.Keys)) // the defective key is not always the first one
				x.Keys[k].Data = r.Bytes(wrongLen(r, len(x.Keys[k].Data)))
				// ... and may come after a key of a type the library does not know (a validation loop
				// that stops at the first key it cannot size leaves the later ones unchecked)
				if k > 0 && r.Chance(1, 2) {
					u := r.Pick(k)
					x.Keys[u] = rm.EncKey{Type: uint16([]int{8, 255, 0xFF01, 65280, 65535}[r.Pick(5)]), Data: r.Bytes(r.Pick(70))}
				}
			})
		case 1:
			try("reserved flag bits set", func(x *rm.LeaseSet2) { x.Flags |= uint16(1) << uint(3+r.Pick(13)) })
		case 2:
			try("more than 16 leases", func(x *rm.LeaseSet2) {
				for len(x.Leases) < 17 {
					x.Leases = append(x.Leases, gen.Lease2(r))
				}
			})
		case 3:
			try("more than 16 keys", func(x *rm.LeaseSet2) {
				for len(x.Keys) < 17 {
					x.Keys = append(x.Keys, rm.EncKey{Type: 4, Data: r.Bytes(32)})
				}
			})
		case 4:
			try("no encryption key", func(x *rm.LeaseSet2) { x.Keys = nil })
		case 5:
			// flag / offline mismatch and declared-length mismatch need the constructor's own argument types
			d, _, _ := lib.BuildDestination(valid.Dest)
			if d == nil {
				return
			}
			l2, _ := lib.BuildLease2(valid.Leases[0])
			keys := []lease_set2.EncryptionKey{{KeyType: 4, KeyLen: 32, KeyData: r.Bytes(32)}}
			st, _ := valid.Dest.Types()
			off, _ := lib.BuildOffline(gen.OfflineOf(r, st, 7), st)
			_, err := lease_set2.NewLeaseSet2(*d, 1, 600, 1, nil, data.Mapping{}, keys, []lease.Lease2{*l2}, nil)
			c14Defect(c, "lease_set2.NewLeaseSet2", "OFFLINE_KEYS flag without offline signature", nil, err != nil, "")
			_, err = lease_set2.NewLeaseSet2(*d, 1, 600, 0, &off, data.Mapping{}, keys, []lease.Lease2{*l2}, nil)
			c14Defect(c, "lease_set2.NewLeaseSet2", "offline signature without OFFLINE_KEYS flag", nil, err != nil, "")
			bad := []lease_set2.EncryptionKey{{KeyType: 4, KeyLen: 31, KeyData: r.Bytes(32)}}
			_, err = lease_set2.NewLeaseSet2(*d, 1, 600, 0, nil, data.Mapping{}, bad, []lease.Lease2{*l2}, nil)
			c14Defect(c, "lease_set2.NewLeaseSet2", "declared key length differs from the data length", nil, err != nil, "")
		}
	})

	// ---------------- EncryptedLeaseSet
	c.Job("encleaseset", n, func(i int, r *core.Rand) {
		m, sh := gen.EncryptedLeaseSet(r)
		st := []int{7, 11}[i%2]
		key, _ := rm.NewSigKey(st, r)
		m.SigType, m.BlindedKey = uint16(st), key.Pub
		if m.Offline != nil {
			o, _ := offlineFor(r, key, 7)
			if i%5 == 2 {
				// boundary values of the offline block's own expiry (every value of the field has an
				// encoding): re-signed so that the block stays authentic
				o.Expires = []uint32{0, 1, 1<<32 - 1}[(i/5)%3]
				o.Sig, _ = key.Sign(o.SignedPart(), r)
				sh["offline_expires"] = o.Expires
			}
			m.Offline = &o
		}
		sh["sig"] = st
		c.Eval(1)
		reparse := func(b []byte) ([]byte, int, error) {
			p, rem, err := encrypted_leaseset.ReadEncryptedLeaseSet(b)
			if err != nil {
				return nil, 0, err
			}
			s, err := p.Bytes()
			return s, len(rem), err
		}
		switch i % 8 {
		case 0: // inner data at and beyond the limit of the 2-byte length field
			ln := []int{65535, 65536, 65537, 70000, 131072 + 61}[r.Pick(5)]
			m.Inner = r.Bytes(ln)
			sh["inner"] = ln
			els, err := lib.BuildEncryptedLeaseSet(m, key.Ed25519Private())
			if ln > 65535 {
				c14Defect(c, "encrypted_leaseset.NewEncryptedLeaseSet", "inner data does not fit the 2-byte length field", gen.Shape{"inner": ln}, err != nil, fmt.Sprintf("%d bytes accepted", ln))
				if err == nil {
					c14Chain(c, "encrypted_leaseset.NewEncryptedLeaseSet", sh, nil, els.Validate, els.Bytes, reparse)
				}
				return
			}
			if err == nil {
				c14Chain(c, "encrypted_leaseset.NewEncryptedLeaseSet", sh, nil, els.Validate, els.Bytes, reparse)
			}
			return
		case 1:
			x := m
			x.Flags |= uint16(1) << uint(2+r.Pick(14))
			_, err := lib.BuildEncryptedLeaseSet(x, key.Ed25519Private())
			c14Defect(c, "encrypted_leaseset.NewEncryptedLeaseSet", "reserved flag bits set", nil, err != nil, "")
			return
		case 2:
			x := m
			x.Offline, x.Flags = nil, m.Flags|1
			_, err := lib.BuildEncryptedLeaseSet(x, key.Ed25519Private())
			c14Defect(c, "encrypted_leaseset.NewEncryptedLeaseSet", "OFFLINE_KEYS flag without offline signature", nil, err != nil, "")
			if m.Offline != nil {
				y := m
				y.Flags &^= 1
				_, err = lib.BuildEncryptedLeaseSet(y, key.Ed25519Private())
				c14Defect(c, "encrypted_leaseset.NewEncryptedLeaseSet", "offline signature without OFFLINE_KEYS flag", nil, err != nil, "")
			}
			return
		case 3:
			x := m
			x.BlindedKey = r.Bytes(wrongLen(r, 32))
			_, err := lib.BuildEncryptedLeaseSet(x, key.Ed25519Private())
			c14Defect(c, "encrypted_leaseset.NewEncryptedLeaseSet", "blinded key length does not match its type", nil, err != nil, "")
			return
		}
		signer := key
		if m.Offline != nil {
			// the content is signed by the transient key in reality; for structure validation any key does
		}
		els, err := lib.BuildEncryptedLeaseSet(m, signer.Ed25519Private())
		c.OpResult("encrypted_leaseset.NewEncryptedLeaseSet", err == nil)
		if err != nil {
			return
		}
		c14Chain(c, "encrypted_leaseset.NewEncryptedLeaseSet", sh, m.EncodeUnsigned(), els.Validate, els.Bytes, reparse)
	})

	// ---------------- OfflineSignature
	c.Job("offline", n, func(i int, r *core.Rand) {
		ds := []int{0, 1, 2, 7, 8, 11}[i%6]
		m := gen.Offline(r, ds)
		if i%7 == 0 {
			m.Expires = 0
		}
		c.Eval(1)
		sh := gen.Shape{"dest_sig": ds, "transient": int(m.SigType), "expires": m.Expires}
		o, err := lib.BuildOffline(m, ds)
		c.OpResult("offline_signature.NewOfflineSignature", err == nil)
		if err == nil {
			c14Chain(c, "offline_signature.NewOfflineSignature", sh, m.Encode(), o.ValidateStructure, func() ([]byte, error) { return o.Bytes(), nil }, func(b []byte) ([]byte, int, error) {
				p, rem, err := offline_signature.ReadOfflineSignature(b, uint16(ds))
				if err != nil {
					return nil, 0, err
				}
				return p.Bytes(), len(rem), nil
			})
		}
		if i%6 == 0 {
			_, err := offline_signature.NewOfflineSignature(1, m.SigType, r.Bytes(wrongLen(r, len(m.TransientKey))), m.Sig, uint16(ds))
			c14Defect(c, "offline_signature.NewOfflineSignature", "transient key length does not match its type", nil, err != nil, "")
			_, err = offline_signature.NewOfflineSignature(1, m.SigType, m.TransientKey, r.Bytes(wrongLen(r, len(m.Sig))), uint16(ds))
			c14Defect(c, "offline_signature.NewOfflineSignature", "signature length does not match the destination type", nil, err != nil, "")
		}
	})

	// ---------------- Signature
	c.Job("signature", n, func(i int, r *core.Rand) {
		st := []int{0, 1, 2, 3, 4, 5, 6, 7, 8, 11}[i%10]
		sl, _ := rm.SigLen(st)
		b := r.Bytes(sl)
		c.Eval(1)
		s, err := signature.NewSignatureFromBytes(b, st)
		c.OpResult("signature.NewSignatureFromBytes", err == nil)
		if err == nil {
			c14Chain(c, "signature.NewSignatureFromBytes", gen.Shape{"sigtype": st}, b, s.Validate, func() ([]byte, error) { return s.Bytes(), nil }, func(x []byte) ([]byte, int, error) {
				p, rem, err := signature.ReadSignature(x, st)
				if err != nil {
					return nil, 0, err
				}
				return p.Bytes(), len(rem), nil
			})
		}
		_, err = signature.NewSignatureFromBytes(r.Bytes(wrongLen(r, sl)), st)
		c14Defect(c, "signature.NewSignatureFromBytes", "signature length does not match its type", gen.Shape{"sigtype": st}, err != nil, "")
	})

	// ---------------- clause (b) for values obtained from the PARSERS, every kind: whatever a parser
	// accepts and the value's own Validate() approves serialises to bytes that parse back, with an
	// empty remainder, to a value with the same serialisation. Inputs: the whole parser workload
	// (well-formed over the lattice, mutated, corner cases, RouterInfos with peer hashes …).
	parserCases(c, c.N(40, 800)/c.QScale+1, func(p lib.Parser) bool {
		return !trivialKind(p.Kind) && p.Kind != "string" && p.Kind != "mapping"
	}, func(pc pcase) {
		out, panicked, _, _ := callParser(c, pc.p, pc.in)
		c.Eval(1)
		if panicked || !out.Accepted || out.Val == nil {
			return
		}
		v := reflect.ValueOf(out.Val)
		m := v.MethodByName("Validate")
		if !m.IsValid() || m.Type().NumIn() != 0 || m.Type().NumOut() != 1 {
			return
		}
		var verr error
		if p, _, _ := c.Call(pc.p.ID()+"->Validate", pc.in, func() {
			if e, ok := m.Call(nil)[0].Interface().(error); ok {
				verr = e
			}
		}); p {
			return
		}
		if verr != nil {
			c.Bucket("parsed-but-invalid/" + pc.p.Kind)
			return
		}
		c.Bucket("parsed-and-valid/" + pc.p.Kind)
		c.Nontrivial([]byte("parsed-valid"), []byte(pc.p.ID()), pc.in)
		sh := pc.fullShape()
		if out.SerErr != nil || len(out.Ser) == 0 {
			c.Violate(pc.p.Name, "valid-value-does-not-serialise", sh, pc.in, fmt.Sprint(out.SerErr))
			return
		}
		again, p2, _, _ := callParser(c, pc.p, out.Ser)
		if p2 {
			return
		}
		switch {
		case !again.Accepted:
			c.Violate(pc.p.Name, "valid-value-bytes-rejected-by-parser", sh, pc.in, "the serialisation of a parsed value that passes Validate() does not parse: "+firstLineOf(fmt.Sprint(again.Err)))
		case pc.p.HasRem && len(again.Rem) != 0:
			c.Violate(pc.p.Name, "valid-value-bytes-leave-a-remainder", sh, pc.in, fmt.Sprintf("%d bytes of the value's own serialisation are left over", len(again.Rem)))
		case !bytes.Equal(again.Ser, out.Ser):
			c.Violate(pc.p.Name, "reparsed-value-serialises-differently", sh, pc.in, describeDiff(out.Ser, again.Ser))
		}
	})
}
