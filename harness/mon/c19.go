package mon

import (
	"bytes"
	"fmt"
	"reflect"
	"time"

	"github.com/go-i2p/common/certificate"
	"github.com/go-i2p/common/data"
	"github.com/go-i2p/common/destination"
	"github.com/go-i2p/common/encrypted_leaseset"
	"github.com/go-i2p/common/key_certificate"
	"github.com/go-i2p/common/keys_and_cert"
	"github.com/go-i2p/common/offline_signature"
	"github.com/go-i2p/common/router_identity"
	"github.com/go-i2p/common/session_key"
	"github.com/go-i2p/common/session_tag"

	"verifharness/core"
	"verifharness/gen"
	"verifharness/lib"
	rm "verifharness/refmodel"
)

// C19 — alternative entry points for the same structure agree.
func init() { register("C19", runC19) }

// entry is the uniform result of one entry point: accepted?, serialisation, remainder.
type entryOut struct {
	name   string
	ok     bool
	ser    []byte
	rem    []byte
	hasRem bool
	whole  bool
	err    error
	val    any
}

func fromParser(c *core.Ctx, p lib.Parser, in []byte) (entryOut, bool) {
	out, panicked, _, _ := callParser(c, p, in)
	return entryOut{name: p.ID(), ok: out.Accepted, ser: out.Ser, rem: out.Rem, hasRem: p.HasRem, whole: p.Whole, err: out.Err, val: out.Val}, panicked
}

// compareEntries applies the oracle to a set of results for the same input.
func compareEntries(c *core.Ctx, class string, in []byte, sh gen.Shape, outs []entryOut) {
	c.Eval(1)
	if len(outs) < 2 {
		return
	}
	// reference entry: the first remainder-returning one if any, else the first
	ref := outs[0]
	for _, o := range outs {
		if o.hasRem {
			ref = o
			break
		}
	}
	judged := false
	for _, o := range outs {
		if o.name == ref.name {
			continue
		}
		s2 := gen.Shape{"class": class, "a": ref.name, "b": o.name}
		for k, v := range sh {
			s2[k] = v
		}
		site := ref.name + " <-> " + o.name
		if o.whole != ref.whole && ref.ok && len(ref.rem) != 0 {
			continue // a whole-input constructor has no remainder concept: not judged when bytes are left over
		}
		if o.whole != ref.whole && !ref.whole && !ref.ok && o.ok {
			// the whole-input entry accepted what the reader rejected
			c.Violate(site, "accept-reject-differs", s2, in, fmt.Sprintf("%s rejects (%v), %s accepts", ref.name, ref.err, o.name))
			continue
		}
		judged = true
		if ref.ok != o.ok {
			c.Violate(site, "accept-reject-differs", s2, in, fmt.Sprintf("%s accepted=%v (%v), %s accepted=%v (%v)", ref.name, ref.ok, ref.err, o.name, o.ok, o.err))
			continue
		}
		if !ref.ok {
			continue
		}
		if !bytes.Equal(ref.ser, o.ser) {
			c.Violate(site, "serialisation-differs", s2, in, describeDiff(ref.ser, o.ser))
			continue
		}
		if ref.hasRem && o.hasRem && !bytes.Equal(ref.rem, o.rem) {
			c.Violate(site, "remainder-differs", s2, in, fmt.Sprintf("remainders of %d and %d bytes", len(ref.rem), len(o.rem)))
		}
	}
	if judged {
		c.Bucket("judged/" + class)
		if ref.ok {
			c.Bucket("judged-accepted/" + class)
			c.Nontrivial([]byte(class), in)
		}
	}
}

// c19AfterBufferReuse: the values the alternative entry points returned for one input still
// serialise identically after the caller has reused (overwritten) the buffer it passed in. Only
// a DISAGREEMENT between entry points is reported here (one value changed, another did not);
// whether values may follow the caller's buffer at all is the subject of C08. Applied to the
// structure kinds C08 lists, for which no entry point is specified to alias its input.
func c19AfterBufferReuse(c *core.Ctx, class, kind string, in []byte, outs []entryOut) {
	switch kind {
	case "sig", "keycert", "cert", "dest", "rident", "dest_ls", "lease", "lease2", "kac":
	default:
		return
	}
	var acc []entryOut
	for _, o := range outs {
		if o.ok && o.val != nil && len(o.ser) > 0 {
			acc = append(acc, o)
		}
	}
	if len(acc) < 2 {
		return
	}
	orig := append([]byte{}, in...)
	for i := range in {
		in[i] = ^in[i]
	}
	var after [][]byte
	for _, o := range acc {
		b, ok := reserialise(reflect.ValueOf(o.val))
		if !ok {
			b = nil
		}
		after = append(after, append([]byte{}, b...))
	}
	copy(in, orig)
	for k := 1; k < len(acc); k++ {
		if after[0] == nil || after[k] == nil {
			continue
		}
		if !bytes.Equal(after[0], after[k]) {
			c.Violate(acc[0].name+" <-> "+acc[k].name, "serialisation-differs-after-caller-reuses-buffer", gen.Shape{"class": class, "a": acc[0].name, "b": acc[k].name}, orig,
				"values that serialised identically differ once the caller overwrote the input buffer: "+describeDiff(after[0], after[k]))
			return
		}
	}
	c.Bucket("agree-after-buffer-reuse/" + class)
	// the same after the caller has overwritten what each value's serialiser handed out (a value
	// that hands out its own storage changes, its twin from another entry point does not)
	var again [][]byte
	for _, o := range acc {
		v := reflect.ValueOf(o.val)
		if isBytesType(v) {
			return
		}
		b, ok := reserialise(v)
		if !ok {
			again = append(again, nil)
			continue
		}
		for i := range b {
			b[i] ^= 0x3C
		}
		b2, ok := reserialise(v)
		if !ok {
			b2 = nil
		}
		again = append(again, append([]byte{}, b2...))
	}
	for k := 1; k < len(acc); k++ {
		if again[0] == nil || again[k] == nil {
			continue
		}
		if !bytes.Equal(again[0], again[k]) {
			c.Violate(acc[0].name+" <-> "+acc[k].name, "serialisation-differs-after-caller-overwrote-an-earlier-serialisation", gen.Shape{"class": class, "a": acc[0].name, "b": acc[k].name}, orig,
				"values that serialised identically differ once the caller overwrote the bytes their serialisers had handed out: "+describeDiff(again[0], again[k]))
			return
		}
	}
	c.Bucket("agree-after-serialisation-overwritten/" + class)
}

// parser groups: entry points that read the same structure from bytes.
var c19Groups = [][]string{
	{"data.ReadI2PString", "data.NewI2PStringFromBytes"},
	{"data.ReadDate", "data.NewDate"},
	{"data.ReadHash", "data.NewHashFromSlice"},
	{"data.ReadMapping", "data.NewMapping"},
	{"data.ReadInteger#4", "data.NewInteger#4"},
	{"key_certificate.NewKeyCertificate", "key_certificate.KeyCertificateFromCertificate(ReadCertificate)"},
	{"destination.ReadDestination", "destination.NewDestinationFromBytes", "lease_set.ReadDestinationFromLeaseSet"},
	{"router_identity.ReadRouterIdentity", "router_identity.NewRouterIdentityFromBytes"},
	{"lease.ReadLease", "lease.NewLeaseFromBytes"},
	{"lease.ReadLease2", "lease.NewLease2FromBytes"},
	{"session_key.ReadSessionKey", "session_key.NewSessionKey"},
	{"session_tag.ReadSessionTag", "session_tag.NewSessionTag", "session_tag.NewSessionTagFromBytes"},
	{"session_tag.ReadECIESSessionTag", "session_tag.NewECIESSessionTag", "session_tag.NewECIESSessionTagFromBytes"},
}

func parserByID(id string) *lib.Parser {
	for _, p := range lib.Parsers() {
		if p.ID() == id {
			pp := p
			return &pp
		}
	}
	return nil
}

func runC19(c *core.Ctx) {
	unit := c.N(600, 15000)
	groups := append([][]string{}, c19Groups...)
	for _, st := range []int{0, 1, 2, 3, 4, 5, 6, 7, 8, 11} {
		groups = append(groups, []string{fmt.Sprintf("signature.ReadSignature#%d", st), fmt.Sprintf("signature.NewSignature#%d", st), fmt.Sprintf("signature.NewSignatureFromBytes#%d", st)})
	}
	for gi, g := range groups {
		var ps []lib.Parser
		for _, id := range g {
			p := parserByID(id)
			if p == nil {
				c.FloorFail("unknown parser " + id)
				continue
			}
			ps = append(ps, *p)
		}
		if len(ps) < 2 {
			continue
		}
		gname := fmt.Sprintf("group%02d/%s", gi, ps[0].Kind)
		kind, arg := ps[0].Kind, ps[0].Arg
		c.Job(gname, unit*weight(kind), func(i int, r *core.Rand) {
			cs := gen.WellFormed(kind, arg, r)
			in := cs.Bytes
			class := "wellformed"
			switch i % 4 {
			case 1:
				other := gen.WellFormed(kind, arg, r)
				in, class = gen.Mutate(r, cs, other.Bytes)
				class = "mutated:" + class
			case 2:
				in, class = append(append([]byte{}, in...), r.Bytes(1+r.Pick(20))...), "extended"
			case 3:
				if r.Chance(1, 2) && len(in) > 0 {
					in, class = in[:r.Pick(len(in))], "truncated"
				} else {
					in, class = r.Bytes(r.Pick(500)), "random"
				}
			}
			var outs []entryOut
			for _, p := range ps {
				o, panicked := fromParser(c, p, in)
				if panicked {
					return
				}
				outs = append(outs, o)
			}
			compareEntries(c, gname, in, gen.Shape{"input": classHead(class)}, outs)
			c19AfterBufferReuse(c, gname, kind, in, outs)
			if i < 2 {
				c.Sample(gen.Shape{"group": g, "input_class": class, "len": len(in)})
			}
		})
	}

	// generic vs key-type-specific keys-and-cert readers, on inputs of the stated key types
	for _, fp := range []struct {
		name   string
		crypto int
	}{{"keys_and_cert.ReadKeysAndCertElgAndEd25519", 0}, {"keys_and_cert.ReadKeysAndCertX25519AndEd25519", 4}} {
		fp := fp
		generic := parserByID("keys_and_cert.ReadKeysAndCert")
		special := parserByID(fp.name)
		c.Job("fastpath/"+fp.name, unit*3, func(i int, r *core.Rand) {
			m, sh := gen.KACOf(r, 7, fp.crypto)
			in := m.Encode()
			class := "wellformed"
			if i%8 == 4 {
				// a whole key field at an extreme value: zero, one, all ones, all ones but the last bit,
				// only the top bit (values a range-checking key constructor refuses)
				in = append([]byte{}, in...)
				fields := [][2]int{{0, 256}, {352, 384}}
				if fp.crypto == 4 {
					fields[0] = [2]int{0, 32}
				}
				f := fields[r.Pick(2)]
				pat := r.Pick(5)
				for k := f[0]; k < f[1]; k++ {
					in[k] = []byte{0, 0, 0xff, 0xff, 0}[pat]
				}
				switch pat {
				case 1:
					in[f[1]-1] = 1
				case 3:
					in[f[1]-1] = 0xfe
				case 4:
					in[f[0]] = 0x80
				}
				a, p1 := fromParser(c, *generic, in)
				b, p2 := fromParser(c, *special, in)
				if !p1 && !p2 {
					compareEntries(c, "fastpath/"+fp.name, in, gen.Shape{"input": "key-field-extreme", "cert": sh["cert"], "field": f[0], "pattern": pat}, []entryOut{a, b})
				}
				return
			}
			switch i % 4 {
			case 1: // mutate anything but the certificate's type declaration (bytes 384..390)
				p := r.Pick(len(in))
				if p >= 384 && p < 391 {
					p = r.Pick(384)
				}
				in = append([]byte{}, in...)
				in[p] ^= byte(1 + r.Pick(255))
				class = "mutated-outside-cert-header"
			case 2:
				in, class = append(append([]byte{}, in...), r.Bytes(1+r.Pick(30))...), "extended"
			case 3:
				in, class = in[:r.Pick(len(in))], "truncated"
			}
			a, p1 := fromParser(c, *generic, in)
			b, p2 := fromParser(c, *special, in)
			if p1 || p2 {
				return
			}
			compareEntries(c, "fastpath/"+fp.name, in, gen.Shape{"input": class, "cert": sh["cert"]}, []entryOut{a, b})
		})
	}

	// destination / router identity: constructors over parsed parts vs the readers
	c.Job("ident-ctors", unit*2, func(i int, r *core.Rand) {
		var m rm.KAC
		var sh gen.Shape
		if i%2 == 0 {
			m, sh = gen.KAC(r, rm.KACSigTypes, rm.KACCryptoTypes) // includes prohibited pairs: both sides must reject
		} else {
			m, sh = gen.KAC(r, rm.RouterSigTypes, rm.IdentCryptoTypes)
		}
		in := m.Encode()
		mk := func(name string, f func() ([]byte, error)) entryOut {
			var b []byte
			var err error
			c.Call(name, in, func() { b, err = f() })
			return entryOut{name: name, ok: err == nil, ser: b, err: err, whole: true}
		}
		rd := mk("destination.ReadDestination", func() ([]byte, error) {
			d, _, err := destination.ReadDestination(in)
			if err != nil {
				return nil, err
			}
			return d.Bytes()
		})
		nd := mk("destination.NewDestination(ReadKeysAndCert)", func() ([]byte, error) {
			k, _, err := keys_and_cert.ReadKeysAndCert(in)
			if err != nil {
				return nil, err
			}
			d, err := destination.NewDestination(k)
			if err != nil {
				return nil, err
			}
			return d.Bytes()
		})
		compareEntries(c, "destination-ctor-vs-reader", in, sh, []entryOut{rd, nd})
		rr := mk("router_identity.ReadRouterIdentity", func() ([]byte, error) {
			d, _, err := router_identity.ReadRouterIdentity(in)
			if err != nil {
				return nil, err
			}
			return d.Bytes()
		})
		n1 := mk("router_identity.NewRouterIdentityFromKeysAndCert(ReadKeysAndCert)", func() ([]byte, error) {
			k, _, err := keys_and_cert.ReadKeysAndCert(in)
			if err != nil {
				return nil, err
			}
			d, err := router_identity.NewRouterIdentityFromKeysAndCert(k)
			if err != nil {
				return nil, err
			}
			return d.Bytes()
		})
		outs := []entryOut{rr, n1}
		if _, _, isKey, ok := m.Cert.KeyTypes(); isKey && ok {
			n2 := mk("router_identity.NewRouterIdentity(parts)", func() ([]byte, error) {
				k, _, err := keys_and_cert.ReadKeysAndCert(in)
				if err != nil {
					return nil, err
				}
				d, err := router_identity.NewRouterIdentity(k.ReceivingPublic, k.SigningPublic, k.Certificate(), k.Padding)
				if err != nil {
					return nil, err
				}
				return d.Bytes()
			})
			outs = append(outs, n2)
		}
		compareEntries(c, "router-identity-ctors-vs-reader", in, sh, outs)
		// a NULL certificate handed to the four-argument constructor: it may refuse (it is documented
		// for KEY certificates) - but when it returns an identity, that identity is the one the reader
		// yields for the same parts
		if _, _, isKey, _ := m.Cert.KeyTypes(); !isKey && rr.ok {
			n3 := mk("router_identity.NewRouterIdentity(parts, NULL certificate)", func() ([]byte, error) {
				k, _, err := keys_and_cert.ReadKeysAndCert(in)
				if err != nil {
					return nil, err
				}
				d, err := router_identity.NewRouterIdentity(k.ReceivingPublic, k.SigningPublic, k.Certificate(), k.Padding)
				if err != nil {
					return nil, err
				}
				return d.Bytes()
			})
			if n3.ok {
				compareEntries(c, "router-identity-ctor-with-null-certificate-vs-reader", in, sh, []entryOut{rr, n3})
			} else {
				c.Bucket("null-certificate-refused-by-constructor")
			}
		}
		// the destination wrapper of a router identity against the destination reader, on inputs both
		// readers accept (RedDSA is a destination type only): the same structure, the same bytes,
		// hash and address
		if rd.ok && rr.ok {
			type view struct {
				ser  []byte
				hash [32]byte
				b32  string
			}
			var a, b view
			var aerr, berr error
			c.Call("destination.ReadDestination", in, func() {
				d, _, err := destination.ReadDestination(in)
				if err != nil {
					aerr = err
					return
				}
				a.ser, aerr = d.Bytes()
				if h, err := d.Hash(); err == nil {
					a.hash = h
				}
				a.b32, _ = d.Base32Address()
			})
			c.Call("router_identity.RouterIdentity.AsDestination", in, func() {
				ri, _, err := router_identity.ReadRouterIdentity(in)
				if err != nil || ri == nil {
					berr = fmt.Errorf("%v", err)
					return
				}
				d := ri.AsDestination()
				b.ser, berr = d.Bytes()
				if h, err := d.Hash(); err == nil {
					b.hash = h
				}
				b.b32, _ = d.Base32Address()
			})
			ea := entryOut{name: "destination.ReadDestination", ok: aerr == nil, ser: append(append(append([]byte{}, a.ser...), a.hash[:]...), a.b32...), err: aerr, whole: true}
			eb := entryOut{name: "router_identity.ReadRouterIdentity.AsDestination", ok: berr == nil, ser: append(append(append([]byte{}, b.ser...), b.hash[:]...), b.b32...), err: berr, whole: true}
			compareEntries(c, "destination-reader-vs-router-identity-wrapper", in, sh, []entryOut{ea, eb})
		}
	})

	// key certificate: five ways to the same certificate
	codes := []int{0, 1, 2, 3, 4, 5, 6, 7, 8, 9, 10, 11, 12, 20, 21, 255, 256, 65279, 65280, 65534, 65535}
	c.Job("keycert-ways", len(codes)*len(codes)+c.N(2000, 40000), func(i int, r *core.Rand) {
		var s, cr int
		if i < len(codes)*len(codes) {
			s, cr = codes[i/len(codes)], codes[i%len(codes)]
		} else {
			s, cr = r.Pick(65536), r.Pick(65536)
		}
		in := rm.KeyCert(s, cr, nil).Encode()
		if i%5 == 4 {
			// a KEY certificate declaring fewer than four payload bytes, followed by the bytes that
			// would have been the rest of the key types: both routes must judge only the declared part
			short := r.Pick(4)
			full := in
			in = append([]byte{5, 0, byte(short)}, full[3:]...)
			var a, b entryOut
			var e1, e2 error
			c.Call("key_certificate.NewKeyCertificate(bytes)", in, func() {
				k, _, err := key_certificate.NewKeyCertificate(in)
				e1 = err
				if err == nil && k != nil {
					a = entryOut{ok: true, ser: k.Bytes()}
				}
			})
			c.Call("key_certificate.KeyCertificateFromCertificate(ReadCertificate)", in, func() {
				ct, _, err := certificate.ReadCertificate(in)
				if err != nil {
					e2 = err
					return
				}
				k, err := key_certificate.KeyCertificateFromCertificate(ct)
				e2 = err
				if err == nil && k != nil {
					b = entryOut{ok: true, ser: k.Bytes()}
				}
			})
			a.name, a.err, a.whole = "key_certificate.NewKeyCertificate(bytes)", e1, true
			b.name, b.err, b.whole = "key_certificate.KeyCertificateFromCertificate(ReadCertificate)", e2, true
			compareEntries(c, "keycert-short-payload-with-trailing-bytes", in, gen.Shape{"sig": s, "crypto": cr, "declared": short}, []entryOut{a, b})
			return
		}
		// each value is serialised twice, the second time after the caller has overwritten what the
		// first call handed out: both serialisations are part of what the entry points must agree on
		twice := func(get func() []byte) []byte {
			b1 := get()
			keep := append([]byte{}, b1...)
			for j := range b1 {
				b1[j] ^= 0x3C
			}
			return append(keep, get()...)
		}
		mk := func(name string, f func() ([]byte, error)) entryOut {
			var b []byte
			var err error
			c.Call(name, in, func() { b, err = f() })
			return entryOut{name: name, ok: err == nil, ser: b, err: err, whole: true}
		}
		a := mk("key_certificate.NewKeyCertificate(bytes)", func() ([]byte, error) {
			k, _, err := key_certificate.NewKeyCertificate(in)
			if err != nil {
				return nil, err
			}
			return twice(k.Bytes), nil
		})
		b := mk("key_certificate.KeyCertificateFromCertificate(ReadCertificate)", func() ([]byte, error) {
			ct, _, err := certificate.ReadCertificate(in)
			if err != nil {
				return nil, err
			}
			k, err := key_certificate.KeyCertificateFromCertificate(ct)
			if err != nil {
				return nil, err
			}
			return twice(k.Bytes), nil
		})
		d := mk("certificate.CertificateBuilder.WithKeyTypes", func() ([]byte, error) {
			bd := certificate.NewCertificateBuilder()
			if _, err := bd.WithKeyTypes(s, cr); err != nil {
				return nil, err
			}
			ct, err := bd.Build()
			if err != nil {
				return nil, err
			}
			return twice(ct.Bytes), nil
		})
		e := mk("certificate.NewCertificateWithType(KEY, BuildKeyTypePayload)", func() ([]byte, error) {
			p, err := certificate.BuildKeyTypePayload(s, cr)
			if err != nil {
				return nil, err
			}
			ct, err := certificate.NewCertificateWithType(certificate.CERT_KEY, p)
			if err != nil {
				return nil, err
			}
			return twice(ct.Bytes), nil
		})
		// the four type-agnostic ways must agree for every code pair
		compareEntries(c, "keycert-bytes-vs-certificate-vs-builder-vs-payload", in, gen.Shape{"sig": s, "crypto": cr}, []entryOut{a, b, d, e})
		// NewKeyCertificateWithTypes restricts the types to the defined ones: where it accepts, it
		// must produce the same bytes
		w := mk("key_certificate.NewKeyCertificateWithTypes", func() ([]byte, error) {
			k, err := key_certificate.NewKeyCertificateWithTypes(s, cr)
			if err != nil {
				return nil, err
			}
			return twice(k.Bytes), nil
		})
		c.Eval(1)
		if w.ok {
			c.Bucket("keycert-withtypes-accepted")
			if !a.ok || !bytes.Equal(w.ser, a.ser) {
				c.Violate("key_certificate.NewKeyCertificateWithTypes <-> key_certificate.NewKeyCertificate(bytes)", "serialisation-differs", gen.Shape{"sig": s, "crypto": cr}, in, describeDiff(a.ser, w.ser))
			}
		}
	})

	// the builder driven through call sequences (including a reused builder) versus the direct
	// constructor with the type and payload those calls document as the outcome:
	//   WithPayload(p), WithKeyTypes(s,c)  => KEY certificate with the 4-byte key-type payload
	//   WithKeyTypes(s,c), WithPayload(p)  => KEY certificate with payload p ("overrides")
	//   WithKeyTypes(s1,c1).Build(), WithKeyTypes(s2,c2).Build() on one builder => second is (s2,c2)
	c.Job("builder-sequences", c.N(1500, 30000), func(i int, r *core.Rand) {
		s, cr := r.Pick(13), r.Pick(9)
		if r.Chance(1, 4) {
			s, cr = r.Pick(65536), r.Pick(65536)
		}
		p := r.Bytes(4 + r.Pick(12))
		if r.Chance(1, 3) {
			p = r.Bytes(r.Pick(4))
		}
		direct := func(payload []byte) entryOut {
			o := entryOut{name: "certificate.NewCertificateWithType(KEY, payload)", whole: true}
			c.Call(o.name, payload, func() {
				ct, err := certificate.NewCertificateWithType(certificate.CERT_KEY, payload)
				o.err = err
				if err == nil && ct != nil {
					o.ok, o.ser = true, ct.Bytes()
				}
			})
			return o
		}
		built := func(name string, steps func(bd *certificate.CertificateBuilder) error) entryOut {
			o := entryOut{name: name, whole: true}
			c.Call(name, p, func() {
				bd := certificate.NewCertificateBuilder()
				if err := steps(bd); err != nil {
					o.err = err
					return
				}
				ct, err := bd.Build()
				o.err = err
				if err == nil && ct != nil {
					o.ok, o.ser = true, ct.Bytes()
				}
			})
			return o
		}
		ktp, kerr := certificate.BuildKeyTypePayload(s, cr)
		sh := gen.Shape{"sig": s, "crypto": cr, "payload_len": len(p)}
		directT := func(t int, payload []byte) entryOut {
			o := entryOut{name: fmt.Sprintf("certificate.NewCertificateWithType(%d, payload)", t), whole: true}
			c.Call(o.name, payload, func() {
				ct, err := certificate.NewCertificateWithType(uint8(t), payload)
				o.err = err
				if err == nil && ct != nil {
					o.ok, o.ser = true, ct.Bytes()
				}
			})
			return o
		}
		switch i % 6 {
		case 5:
			// Build called again (and again) on the same configured builder: every certificate it
			// returns is the one the direct constructor gives for the configured type and payload
			t := []int{1, 3, 5, 4, 0}[r.Pick(5)]
			p1 := r.Bytes(1 + r.Pick(40))
			if t == 4 {
				p1 = r.Bytes([]int{40, 72}[r.Pick(2)])
			}
			if t == 0 {
				p1 = nil
			}
			times := 2 + r.Pick(2)
			b := built(fmt.Sprintf("CertificateBuilder: WithType, WithPayload, Build x%d", times), func(bd *certificate.CertificateBuilder) error {
				if _, err := bd.WithType(uint8(t)); err != nil {
					return err
				}
				if p1 != nil {
					bd.WithPayload(p1)
				}
				for k := 1; k < times; k++ {
					if _, err := bd.Build(); err != nil {
						return err
					}
				}
				return nil
			})
			sh["type"], sh["payload_len"], sh["builds"] = t, len(p1), times
			compareEntries(c, "builder-sequence/built-repeatedly", p1, sh, []entryOut{directT(t, p1), b})
		case 3:
			// a payload set, then replaced — by another payload, by an empty one, by nil — on the same
			// builder, with or without a Build in between: the LAST payload is the certificate's
			t := []int{1, 3, 5, 0, 2}[r.Pick(5)]
			p1 := r.Bytes(1 + r.Pick(12))
			var p2 []byte
			switch r.Pick(4) {
			case 0:
				p2 = nil
			case 1:
				p2 = []byte{}
			case 2:
				p2 = r.Bytes(1 + r.Pick(3))
			default:
				p2 = r.Bytes(4 + r.Pick(40))
			}
			mid := r.Chance(1, 2)
			b := built("CertificateBuilder: WithType, WithPayload(p1), [Build], WithPayload(p2), Build", func(bd *certificate.CertificateBuilder) error {
				if _, err := bd.WithType(uint8(t)); err != nil {
					return err
				}
				bd.WithPayload(p1)
				if mid {
					bd.Build()
				}
				bd.WithPayload(p2)
				return nil
			})
			sh["type"], sh["payload_len"], sh["first_payload_len"], sh["build_in_between"] = t, len(p2), len(p1), mid
			compareEntries(c, "builder-sequence/payload-replaced", p2, sh, []entryOut{directT(t, p2), b})
		case 4:
			// key types built, then an explicit (possibly empty) payload on the reused builder
			if kerr != nil {
				return
			}
			var p2 []byte
			if r.Chance(1, 2) {
				p2 = []byte{}
			}
			if r.Chance(1, 4) {
				p2 = r.Bytes(4 + r.Pick(8))
			}
			b := built("CertificateBuilder reused: WithKeyTypes, Build, WithPayload(p2), Build", func(bd *certificate.CertificateBuilder) error {
				if _, err := bd.WithKeyTypes(s, cr); err != nil {
					return err
				}
				if _, err := bd.Build(); err != nil {
					return err
				}
				bd.WithPayload(p2)
				return nil
			})
			sh["payload_len"] = len(p2)
			compareEntries(c, "builder-sequence/keytypes-built-then-payload", p2, sh, []entryOut{direct(p2), b})
		case 0:
			if kerr != nil {
				return
			}
			b := built("CertificateBuilder: WithPayload, WithKeyTypes, Build", func(bd *certificate.CertificateBuilder) error {
				bd.WithPayload(p)
				_, err := bd.WithKeyTypes(s, cr)
				return err
			})
			compareEntries(c, "builder-sequence/payload-then-keytypes", p, sh, []entryOut{direct(ktp), b})
		case 1:
			b := built("CertificateBuilder: WithKeyTypes, WithPayload, Build", func(bd *certificate.CertificateBuilder) error {
				if _, err := bd.WithKeyTypes(s, cr); err != nil {
					return err
				}
				bd.WithPayload(p)
				return nil
			})
			compareEntries(c, "builder-sequence/keytypes-then-payload", p, sh, []entryOut{direct(p), b})
		default:
			if kerr != nil {
				return
			}
			s0, c0 := r.Pick(13), r.Pick(9)
			b := built("CertificateBuilder reused: WithKeyTypes, Build, WithKeyTypes, Build", func(bd *certificate.CertificateBuilder) error {
				if r.Chance(1, 2) {
					bd.WithPayload(p)
				}
				if _, err := bd.WithKeyTypes(s0, c0); err != nil {
					return err
				}
				if _, err := bd.Build(); err != nil {
					return err
				}
				_, err := bd.WithKeyTypes(s, cr)
				return err
			})
			compareEntries(c, "builder-sequence/reused-builder", p, sh, []entryOut{direct(ktp), b})
		}
	})

	// strings
	c.Job("strings", c.N(3000, 60000), func(i int, r *core.Rand) {
		n := r.Pick(300)
		content := r.Bytes(n)
		mk := func(name string, f func() (data.I2PString, error)) entryOut {
			s, err := f()
			return entryOut{name: name, ok: err == nil, ser: []byte(s), err: err, whole: true}
		}
		outs := []entryOut{
			mk("data.NewI2PString", func() (data.I2PString, error) { return data.NewI2PString(string(content)) }),
			mk("data.ToI2PString", func() (data.I2PString, error) { return data.ToI2PString(string(content)) }),
		}
		if n <= 255 {
			outs = append(outs, mk("data.NewI2PStringFromBytes", func() (data.I2PString, error) {
				return data.NewI2PStringFromBytes(append([]byte{byte(n)}, content...))
			}))
		}
		compareEntries(c, "string-constructors", content, gen.Shape{"len": n}, outs)
	})

	// integers
	c.Job("integers", c.N(6000, 120000), func(i int, r *core.Rand) {
		size := []int{2, 4, 8, 1, 3, 5, 6, 7}[i%8]
		v := int(r.Uint64() >> uint(r.Pick(64)))
		if i%16 == 0 {
			v = -v
		}
		in := []byte(fmt.Sprintf("%d/%d", v, size))
		var outs []entryOut
		it, err := data.NewIntegerFromInt(v, size)
		o := entryOut{name: "data.NewIntegerFromInt", ok: err == nil, err: err, whole: true}
		if err == nil {
			o.ser = it.Bytes()
		}
		outs = append(outs, o)
		b, err := data.EncodeIntN(v, size)
		outs = append(outs, entryOut{name: "data.EncodeIntN", ok: err == nil, ser: b, err: err, whole: true})
		compareEntries(c, "integer-encoders", in, gen.Shape{"size": size}, outs)
		// fixed-width helpers where the value fits
		if v >= 0 && err == nil {
			switch size {
			case 2:
				e := data.EncodeUint16(uint16(v))
				compareEntries(c, "integer-encoders-fixed", in, gen.Shape{"size": size}, []entryOut{{name: "data.EncodeIntN", ok: true, ser: b, whole: true}, {name: "data.EncodeUint16", ok: true, ser: e[:], whole: true}})
			case 4:
				e := data.EncodeUint32(uint32(v))
				compareEntries(c, "integer-encoders-fixed", in, gen.Shape{"size": size}, []entryOut{{name: "data.EncodeIntN", ok: true, ser: b, whole: true}, {name: "data.EncodeUint32", ok: true, ser: e[:], whole: true}})
			case 8:
				e := data.EncodeUint64(uint64(v))
				compareEntries(c, "integer-encoders-fixed", in, gen.Shape{"size": size}, []entryOut{{name: "data.EncodeIntN", ok: true, ser: b, whole: true}, {name: "data.EncodeUint64", ok: true, ser: e[:], whole: true}})
			}
		}
	})

	// hashes, dates, tags, keys built from arrays vs slices vs readers
	c.Job("fixed", c.N(3000, 60000), func(i int, r *core.Rand) {
		b32 := r.Bytes(32)
		var a32 [32]byte
		copy(a32[:], b32)
		h1 := data.NewHash(a32)
		h2, err2 := data.NewHashFromSlice(b32)
		h3, _, err3 := data.ReadHash(b32)
		x1, x2, x3 := h1.Bytes(), h2.Bytes(), h3.Bytes()
		compareEntries(c, "hash-constructors", b32, nil, []entryOut{
			{name: "data.NewHash", ok: true, ser: x1[:], whole: true},
			{name: "data.NewHashFromSlice", ok: err2 == nil, ser: x2[:], whole: true, err: err2},
			{name: "data.ReadHash", ok: err3 == nil, ser: x3[:], whole: true, err: err3}})
		t1 := session_tag.NewSessionTagFromArray(a32)
		t2, e2 := session_tag.NewSessionTagFromBytes(b32)
		t3, _, e3 := session_tag.ReadSessionTag(b32)
		compareEntries(c, "session-tag-constructors", b32, nil, []entryOut{
			{name: "session_tag.NewSessionTagFromArray", ok: true, ser: t1.Bytes(), whole: true},
			{name: "session_tag.NewSessionTagFromBytes", ok: e2 == nil, ser: t2.Bytes(), whole: true, err: e2},
			{name: "session_tag.ReadSessionTag", ok: e3 == nil, ser: t3.Bytes(), whole: true, err: e3}})
		k1 := session_key.NewSessionKeyFromArray(a32)
		k2, _, ke := session_key.ReadSessionKey(b32)
		compareEntries(c, "session-key-constructors", b32, nil, []entryOut{
			{name: "session_key.NewSessionKeyFromArray", ok: true, ser: k1.Bytes(), whole: true},
			{name: "session_key.ReadSessionKey", ok: ke == nil, ser: k2.Bytes(), whole: true, err: ke}})
		var a8 [8]byte
		copy(a8[:], b32)
		g1 := session_tag.NewECIESSessionTagFromArray(a8)
		g2, ge2 := session_tag.NewECIESSessionTagFromBytes(b32[:8])
		g3, _, ge3 := session_tag.ReadECIESSessionTag(b32[:8])
		compareEntries(c, "ecies-tag-constructors", b32[:8], nil, []entryOut{
			{name: "session_tag.NewECIESSessionTagFromArray", ok: true, ser: g1.Bytes(), whole: true},
			{name: "session_tag.NewECIESSessionTagFromBytes", ok: ge2 == nil, ser: g2.Bytes(), whole: true, err: ge2},
			{name: "session_tag.ReadECIESSessionTag", ok: ge3 == nil, ser: g3.Bytes(), whole: true, err: ge3}})
		// dates
		s := int64(r.Uint64() >> uint(12+r.Pick(40)))
		if i%64 == 0 {
			s = -s
		}
		mkd := func(name string, d *data.Date, err error) entryOut {
			o := entryOut{name: name, ok: err == nil && d != nil, err: err, whole: true}
			if o.ok {
				o.ser = d.Bytes()
			}
			return o
		}
		d1, e1 := data.NewDateFromUnix(s)
		var d2 *data.Date
		var e22 error = fmt.Errorf("out of range")
		if s <= (1<<63-1)/1000 && s >= -(1<<63-1)/1000 {
			d2, e22 = data.NewDateFromMillis(s * 1000)
		}
		outs := []entryOut{mkd("data.NewDateFromUnix", d1, e1), mkd("data.NewDateFromMillis(x1000)", d2, e22)}
		if s >= 0 && s <= (1<<63-1)/1000 {
			d3, e33 := data.DateFromTime(time.Unix(s, 0))
			outs = append(outs, mkd("data.DateFromTime(time.Unix)", d3, e33))
		}
		compareEntries(c, "date-constructors", []byte(fmt.Sprint(s)), gen.Shape{"negative": s < 0}, outs)
	})

	// encrypted leaseset: the two constructors with the same arguments
	// an offline signature read from bytes versus one built from the fields just read: the reader
	// and the constructor accept the same (transient type, destination type, key, signature)
	// combinations — every pair of types, whose key and signature lengths mostly differ
	c.Job("offline-read-vs-new", c.N(1200, 24000), func(i int, r *core.Rand) {
		dts := []int{0, 1, 2, 3, 4, 5, 6, 7, 8, 11}
		ds := dts[i%len(dts)]
		tt := dts[(i/len(dts))%len(dts)]
		m := gen.OfflineOf(r, ds, tt)
		if i%7 == 0 {
			m.Expires = []uint32{1, 0xffffffff, 0x80000000}[r.Pick(3)]
		}
		enc := m.Encode()
		c.Eval(1)
		a := entryOut{name: "offline_signature.ReadOfflineSignature", whole: true}
		c.Call(a.name, enc, func() {
			o, rem, err := offline_signature.ReadOfflineSignature(enc, uint16(ds))
			a.err = err
			if err == nil && len(rem) == 0 {
				a.ok, a.ser = true, o.Bytes()
			}
		})
		b := entryOut{name: "offline_signature.NewOfflineSignature", whole: true}
		c.Call(b.name, enc, func() {
			o, err := offline_signature.NewOfflineSignature(m.Expires, m.SigType, m.TransientKey, m.Sig, uint16(ds))
			b.err = err
			if err == nil {
				b.ok, b.ser = true, o.Bytes()
			}
		})
		compareEntries(c, "offline/read-vs-new", enc, gen.Shape{"dest_sig": ds, "transient": tt}, []entryOut{a, b})
	})

	c.Job("els-ctors", c.N(500, 8000), func(i int, r *core.Rand) {
		st := []int{7, 11}[i%2]
		key, _ := rm.NewSigKey(st, r)
		m, sh := gen.EncryptedLeaseSet(r)
		m.SigType, m.BlindedKey, m.Offline, m.Flags = uint16(st), key.Pub, nil, m.Flags&2
		d, _ := gen.KACOf(r, st, 4)
		copy(d.Block[384-32:], key.Pub)
		dest, ok, err := lib.BuildDestination(d)
		if !ok || err != nil {
			return
		}
		a, e1 := encrypted_leaseset.NewEncryptedLeaseSet(m.SigType, m.BlindedKey, m.Published, m.Expires, m.Flags, nil, m.Inner, key.Ed25519Private())
		b, e2 := encrypted_leaseset.NewEncryptedLeaseSetFromDestination(*dest, m.Published, m.Expires, m.Flags, nil, m.Inner, key.Ed25519Private())
		oa := entryOut{name: "encrypted_leaseset.NewEncryptedLeaseSet", ok: e1 == nil, err: e1, whole: true}
		ob := entryOut{name: "encrypted_leaseset.NewEncryptedLeaseSetFromDestination", ok: e2 == nil, err: e2, whole: true}
		if e1 == nil {
			oa.ser, _ = a.Bytes()
		}
		if e2 == nil {
			ob.ser, _ = b.Bytes()
		}
		compareEntries(c, "encrypted-leaseset-constructors", m.Encode(), sh, []entryOut{oa, ob})
	})
}
