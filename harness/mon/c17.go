package mon

import (
	"bytes"
	"fmt"
	"net"
	"strconv"
	"strings"
	"sync"
	"time"

	"github.com/go-i2p/common/data"
	"github.com/go-i2p/common/router_address"

	"verifharness/core"
	"verifharness/gen"
	rm "verifharness/refmodel"
)

// C17 — router address host/port accessors are consistent and never accept a hostname.
func init() { register("C17", runC17) }

var hostPool = []string{
	"1.2.3.4", "0.0.0.0", "255.255.255.255", "127.0.0.1", "10.0.0.1", "192.168.1.1",
	"::1", "::", "2001:db8::1", "2001:0db8:0000:0000:0000:ff00:0042:8329", "fe80::1", "::ffff:1.2.3.4", "::ffff:0102:0304", "1:2:3:4:5:6:7:8", "1:2:3:4:5:6:7::", "::2:3:4:5:6:7:8", "2001:db8::1.2.3.4", "1:2:3:4:5:6:1.2.3.4",
	"localhost", "example.com", "i2p-projekt.i2p", "a", "router", "xn--nxasmq6b.example", "1.2.3", "1.2.3.4.5", "256.1.1.1", "1.2.3.256", "01.2.3.4", "1.2.3.04", "1.2.3.4.", ".1.2.3.4", "1..3.4",
	"1.2.3.4:80", "[::1]", "[::1]:80", "::1%eth0", "fe80::1%1", " 1.2.3.4", "1.2.3.4 ", "1.2.3.4\n", "\t::1", "1.2.3.4/24", "::1/128", "0x7f.0.0.1", "1.2.3.-4", "+1.2.3.4", "１.２.３.４",
	// the longest literals: eight full groups (39 characters), six groups and a dotted quad (up to 45)
	"ffff:ffff:ffff:ffff:ffff:ffff:ffff:ffff", "ffff:ffff:ffff:ffff:ffff:ffff:255.255.255.255", "2001:0db8:85a3:0000:0000:8a2e:192.168.100.200", "0000:0000:0000:0000:0000:ffff:192.168.100.200",
	"0000:0000:0000:0000:0000:0000:0000:0001", "2001:0db8:85a3:08d3:1319:8a2e:0370:7344", "ffff:ffff:ffff:ffff:ffff:ffff:255.255.255.2555", "ffff:ffff:ffff:ffff:ffff:ffff:ffff:ffff:ffff", "00000:0:0:0:0:0:0:1",
	"[", "]", "[]", "[:", "[::", "::]", "[[::1]]", "[1.2.3.4]", "[", ":", ".", "%", "/",
	"", "1:2:3:4:5:6:7:8:9", "1::2::3", ":::", "::g", "12345::1", "1:2:3:4:5:6:7", "::ffff:1.2.3", "::1.2.3.4.5", "1.2.3.4::", "2001:DB8::A", "::FFFF:1.2.3.4", "0:0:0:0:0:ffff:1.2.3.4",
}

var portPool = []string{
	"1", "80", "1234", "65535", "9", "10000", "443",
	"0", "65536", "70000", "99999999999", "9223372036854775807", "9223372036854775808", "18446744073709551616",
	// digit strings that denote k*2^64+p, k*2^32+p, k*2^16+p for a valid port p (an accumulator without overflow check wraps onto p)
	"18446744073709551696", "18446744073709551617", "36893488147419103312", "184467440737095516160080", "4294967376", "4294967297", "8589934672", "65616", "65537", "131152", "4295032831", "18446744073709617151",
	"340282366920938463463374607431768211536", "000000000000000000000080", "00000000000000000000000000000000000000000065535", "000000000000000000000000000000000000000000065536",
	"-1", "-80", "+80", "+0", "-0", "00080", "080", "0080", "000", "0x50", "1e3", "80.0", "80 ", " 80", "80\n", "８０", "", "port", "8 0", "+", "-", "++80", "+-80", "1_000", "65535.", "٨٠",
}

type c17Case struct {
	opts    map[string]string
	hasHost bool
	host    string
	hasPort bool
	port    string
	hasS    bool
	sVal    string
	hasI    bool
	iVal    string
}

// c17Prev: the options of the previous case of this shard (for the replaced-options sequence)
var c17Prev *c17Case

func runC17(c *core.Ctx) {
	n := c.N(12000, 250000)
	c.Job("options", n, func(i int, r *core.Rand) {
		opts := map[string]string{}
		// host / port drawn from the pools (or random bytes), present or absent
		var host, port string
		hasHost, hasPort := r.Chance(9, 10), r.Chance(9, 10)
		if hasHost {
			host = hostPool[r.Pick(len(hostPool))]
			if i < len(hostPool) {
				host = hostPool[i]
			}
			if r.Chance(1, 12) {
				host = string(r.Bytes(1 + r.Pick(12)))
			}
			if r.Chance(1, 12) { // a random syntactically valid literal
				if r.Chance(1, 2) {
					host = fmt.Sprintf("%d.%d.%d.%d", r.Pick(256), r.Pick(256), r.Pick(256), r.Pick(256))
				} else {
					host = fmt.Sprintf("%x:%x::%x:%x", r.Pick(65536), r.Pick(65536), r.Pick(65536), r.Pick(65536))
				}
			}
			opts["host"] = host
		}
		if hasPort {
			port = portPool[r.Pick(len(portPool))]
			if i < len(portPool) {
				port = portPool[i]
			}
			if r.Chance(1, 8) {
				port = strconv.Itoa(r.Pick(70000))
			}
			if r.Chance(1, 16) {
				port = string(r.Bytes(1 + r.Pick(6)))
			}
			opts["port"] = port
		}
		// keys that are prefixes / extensions of the well-known keys, with distinct values
		decoys := []string{"hos", "hostx", "hosts", "Host", "HOST", "por", "portx", "Port", "ho", "p", "ss", "ii", "S", "I", "cap", "capsx", "vv", "h", "host ", " host"}
		for _, dk := range decoys {
			if r.Chance(1, 4) {
				opts[dk] = "decoy-" + dk
			}
		}
		var sVal, iVal string
		hasS, hasI := r.Chance(1, 2), r.Chance(1, 2)
		if hasS {
			ln := []int{32, 32, 32, 31, 33, 0, 16, 64, 44}[r.Pick(9)]
			sVal = string(r.Bytes(ln))
			if r.Chance(1, 8) { // the text forms routers publish: Base64 / Base32 of 32 bytes (44 / 56 / 52 characters)
				sVal = []string{rm.B64Encode(r.Bytes(32)), rm.B32Encode(r.Bytes(32)), rm.B32EncodeNoPad(r.Bytes(32)), rm.B64Encode(r.Bytes(24))}[r.Pick(4)]
			}
			opts["s"] = sVal
		}
		if hasI {
			ln := []int{16, 16, 16, 15, 17, 0, 32, 24}[r.Pick(8)]
			iVal = string(r.Bytes(ln))
			if r.Chance(1, 8) { // Base64 / Base32 of 16 bytes (24 / 32 / 26 characters); Base64 of 12 bytes is 16 characters
				iVal = []string{rm.B64Encode(r.Bytes(16)), rm.B32Encode(r.Bytes(16)), rm.B32EncodeNoPad(r.Bytes(16)), rm.B64Encode(r.Bytes(12)), rm.B32EncodeNoPad(r.Bytes(10))}[r.Pick(5)]
			}
			opts["i"] = iVal
		}
		if r.Chance(1, 3) {
			opts["caps"] = []string{"BC", "6", "4", "46", "B6", "", "C"}[r.Pick(7)]
		}
		style := []string{"NTCP2", "SSU2", "SSU", "ntcp2"}[r.Pick(4)]

		// two construction paths: the constructor and the parser over the reference encoding
		var addrs []struct {
			path string
			ra   *router_address.RouterAddress
		}
		enc := []byte(fmt.Sprintf("%q", opts))
		c.Eval(1)
		if ra, err := router_address.NewRouterAddress(byte(r.Pick(256)), timeZero(), style, opts); err == nil && ra != nil {
			addrs = append(addrs, struct {
				path string
				ra   *router_address.RouterAddress
			}{"router_address.NewRouterAddress", ra})
		}
		var m rm.Mapping
		for k, v := range opts {
			m.Pairs = append(m.Pairs, rm.Pair{K: []byte(k), V: []byte(v)})
		}
		if r.Chance(1, 2) {
			m = sortedMapping(m)
		}
		model := rm.RouterAddress{Cost: 5, Style: []byte(style), Options: m}
		if pa, _, err := router_address.ReadRouterAddress(model.Encode()); err == nil {
			pa := pa
			addrs = append(addrs, struct {
				path string
				ra   *router_address.RouterAddress
			}{"router_address.ReadRouterAddress", &pa})
		}
		for _, a := range addrs {
			a := a
			c.Call("accessors/"+a.path, enc, func() {
				c17Check(c, a.path, a.ra, opts, hasHost, host, hasPort, port, hasS, sVal, hasI, iVal, enc)
			})
		}
		// the accessors describe the options the address holds NOW: after they have all been called
		// once, the (exported) TransportOptions of the same value are replaced by those of another
		// case, and every oracle is applied again to the same value
		if c17Prev != nil && len(addrs) > 0 && r.Chance(1, 3) {
			pv := c17Prev
			a := addrs[r.Pick(len(addrs))]
			ra := a.ra // the SAME value the accessors were just called on
			if nm, err := data.GoMapToMapping(pv.opts); err == nil && nm != nil {
				ra.TransportOptions = nm
				enc2 := []byte(fmt.Sprintf("%q -> %q", opts, pv.opts))
				c.Call("accessors-after-options-replaced/"+a.path, enc2, func() {
					c17Check(c, a.path+" (options replaced after a first round of accessor calls)", ra, pv.opts, pv.hasHost, pv.host, pv.hasPort, pv.port, pv.hasS, pv.sVal, pv.hasI, pv.iVal, enc2)
				})
				c.Bucket("options-replaced-on-a-used-value")
			}
		}
		cp := map[string]string{}
		for k, v := range opts {
			cp[k] = v
		}
		c17Prev = &c17Case{cp, hasHost, host, hasPort, port, hasS, sVal, hasI, iVal}
		c.Nontrivial([]byte("opts"), enc)
		if i < 4 {
			c.Sample(gen.Shape{"host": host, "port": port, "options": len(opts)})
		}
	})
	c.Job("concurrent-accessors", c.N(60, 1200), func(i int, r *core.Rand) { c17Concurrent(c, i, r) })
}

// c17Concurrent: eight addresses queried at the same time, one goroutine each (and every second
// round all goroutines on ONE address): every accessor answers for the options of the address it
// was called on, as it does alone. (The accessors take option keys as arguments; state kept between
// calls - the last key looked up, a parsed port - is shared by all addresses of the process.)
func c17Concurrent(c *core.Ctx, i int, r *core.Rand) {
	const G = 8
	digest := func(ra *router_address.RouterAddress) string {
		var sb strings.Builder
		h, herr := ra.Host()
		p, perr := ra.Port()
		sk, serr := ra.StaticKey()
		iv, ierr := ra.InitializationVector()
		fmt.Fprint(&sb, h, herr != nil, "|", p, perr != nil, "|", ra.HasValidHost(), ra.HasValidPort(), ra.IPVersion(), "|", sk, serr != nil, "|", iv, ierr != nil, "|")
		for _, k := range []string{"host", "port", "s", "i", "caps", "v", "hos", "hostx", "mtu"} {
			fmt.Fprintf(&sb, "%q;", ra.GetOption(data.I2PString(append([]byte{byte(len(k))}, k...))))
		}
		return sb.String()
	}
	var addrs []*router_address.RouterAddress
	for len(addrs) < G {
		opts := map[string]string{}
		if r.Chance(4, 5) {
			opts["host"] = hostPool[r.Pick(len(hostPool))]
		}
		if r.Chance(4, 5) {
			opts["port"] = portPool[r.Pick(len(portPool))]
		}
		if r.Chance(1, 2) {
			opts["s"] = string(r.Bytes([]int{32, 32, 31, 33}[r.Pick(4)]))
		}
		if r.Chance(1, 2) {
			opts["i"] = string(r.Bytes([]int{16, 16, 15, 17}[r.Pick(4)]))
		}
		if r.Chance(1, 2) {
			opts["caps"] = []string{"BC", "6", "4", "46"}[r.Pick(4)]
		}
		ra, err := router_address.NewRouterAddress(5, timeZero(), []string{"NTCP2", "SSU2"}[r.Pick(2)], opts)
		if err != nil || ra == nil {
			continue
		}
		addrs = append(addrs, ra)
	}
	shared := i%2 == 1
	base := make([]string, G)
	for g := range addrs {
		if shared {
			addrs[g] = addrs[0]
		}
		base[g] = digest(addrs[g])
	}
	c.Eval(1)
	c.Nontrivial([]byte("c17-concurrent"), []byte(base[0]), []byte(fmt.Sprint(i)))
	bad := make([]string, G)
	var wg sync.WaitGroup
	start := make(chan struct{})
	for g := 0; g < G; g++ {
		g := g
		wg.Add(1)
		go func() {
			defer wg.Done()
			defer func() {
				if pv := recover(); pv != nil {
					bad[g] = fmt.Sprint("panic: ", pv)
				}
			}()
			<-start
			for k := 0; k < 60 && bad[g] == ""; k++ {
				if got := digest(addrs[g]); got != base[g] {
					bad[g] = fmt.Sprintf("alone: %.300s\nconcurrently: %.300s", base[g], got)
				}
			}
		}()
	}
	close(start)
	wg.Wait()
	for g := range bad {
		if bad[g] != "" {
			c.Violate("router_address.RouterAddress accessors", "answers-differ-under-concurrent-use", gen.Shape{"goroutines": G, "one_shared_address": shared}, []byte(base[g]), bad[g])
			return
		}
	}
	c.Bucket(fmt.Sprintf("concurrent-accessors-ok/shared=%v", shared))
}

func c17Check(c *core.Ctx, path string, ra *router_address.RouterAddress, opts map[string]string, hasHost bool, host string, hasPort bool, port string, hasS bool, sVal string, hasI bool, iVal string, enc []byte) {
	sh := gen.Shape{"path": path}
	// ---- host
	fam, addr := rm.IPLiteral(host)
	wantHostOK := hasHost && fam != 0
	got, err := ra.Host()
	hostOK := err == nil && got != nil
	c.Bucket(fmt.Sprintf("host/%v/expected-ok=%v", hostClass(hasHost, host, fam), wantHostOK))
	if hostOK != wantHostOK {
		c.Violate("router_address.RouterAddress.Host", "accepts-or-rejects-wrongly", gen.Shape{"path": path, "host": host, "present": hasHost, "literal_family": fam}, enc, fmt.Sprintf("Host() ok=%v (%v), reference says IP literal=%v", hostOK, err, fam != 0))
	} else if hostOK {
		ipa, ok := got.(*net.IPAddr)
		if !ok || ipa.Zone != "" || !bytes.Equal(ipa.IP.To16(), addr[:]) {
			c.Violate("router_address.RouterAddress.Host", "returns-different-address", gen.Shape{"path": path, "host": host}, enc, fmt.Sprintf("returned %v", got))
		}
	}
	if ra.HasValidHost() != hostOK {
		c.Violate("router_address.RouterAddress.HasValidHost", "disagrees-with-Host", gen.Shape{"path": path, "host": host, "present": hasHost}, enc, fmt.Sprintf("HasValidHost()=%v, Host() ok=%v", ra.HasValidHost(), hostOK))
	}
	if hostOK {
		v := ra.IPVersion()
		want := "6"
		if fam == 4 {
			want = "4"
		}
		if v != want {
			c.Violate("router_address.RouterAddress.IPVersion", "disagrees-with-address-family", gen.Shape{"path": path, "host": host}, enc, fmt.Sprintf("IPVersion()=%q, family %d", v, fam))
		}
	}
	// ---- port
	strict, lenient, val := rm.PortClass(port)
	p, err := ra.Port()
	portOK := err == nil
	c.Bucket(fmt.Sprintf("port/strict=%v/lenient=%v", strict && hasPort, lenient && hasPort))
	switch {
	case hasPort && strict:
		if !portOK || p != port {
			c.Violate("router_address.RouterAddress.Port", "valid-port-rejected-or-altered", gen.Shape{"path": path, "port": port}, enc, fmt.Sprintf("Port()=%q, %v", p, err))
		}
	case hasPort && lenient:
		// signed / zero-padded decimal: the statement does not define it more narrowly; if it is
		// accepted the result must be the canonical form of the same number
		if portOK && p != strconv.Itoa(val) {
			c.Violate("router_address.RouterAddress.Port", "non-canonical-result", gen.Shape{"path": path, "port": port}, enc, fmt.Sprintf("Port()=%q for %q", p, port))
		}
	default:
		if portOK {
			c.Violate("router_address.RouterAddress.Port", "invalid-port-accepted", gen.Shape{"path": path, "port": port, "present": hasPort}, enc, fmt.Sprintf("Port()=%q", p))
		}
	}
	if portOK {
		if n, e := strconv.Atoi(p); e != nil || n < 1 || n > 65535 || strconv.Itoa(n) != p {
			c.Violate("router_address.RouterAddress.Port", "non-canonical-result", gen.Shape{"path": path, "port": port}, enc, fmt.Sprintf("Port()=%q", p))
		}
	}
	if ra.HasValidPort() != portOK {
		c.Violate("router_address.RouterAddress.HasValidPort", "disagrees-with-Port", gen.Shape{"path": path, "port": port, "present": hasPort}, enc, fmt.Sprintf("HasValidPort()=%v, Port() ok=%v", ra.HasValidPort(), portOK))
	}
	// ---- option lookup returns the value stored under exactly the requested key
	probe := []string{"host", "port", "s", "i", "caps", "v", "hos", "hostx", "por", "portx", "h", "Host", "ss", "cap", "host ", "missing-key"}
	for _, k := range probe {
		ks, _ := data.ToI2PString(k)
		gotv := ra.GetOption(ks)
		want, present := opts[k]
		if present {
			d, err := gotv.Data()
			if gotv == nil || err != nil || d != want {
				c.Violate("router_address.RouterAddress.GetOption", "wrong-value-for-key", gen.Shape{"path": path, "key": k}, enc, fmt.Sprintf("GetOption(%q)=%q err=%v, stored %q", k, d, err, want))
			}
		} else if gotv != nil {
			d, _ := gotv.Data()
			c.Violate("router_address.RouterAddress.GetOption", "value-for-absent-key", gen.Shape{"path": path, "key": k}, enc, fmt.Sprintf("GetOption(%q)=%q though the key is absent", k, d))
		}
		if ra.HasOption(ks) != present || ra.CheckOption(k) != present {
			c.Violate("router_address.RouterAddress.HasOption", "presence-differs", gen.Shape{"path": path, "key": k}, enc, "")
		}
	}
	_ = sh
	// ---- static key / IV
	sk, err := ra.StaticKey()
	if (err == nil) != (hasS && len(sVal) == 32) {
		c.Violate("router_address.RouterAddress.StaticKey", "length-rule", gen.Shape{"path": path, "len": len(sVal), "present": hasS}, enc, fmt.Sprint(err))
	} else if err == nil && string(sk[:]) != sVal {
		c.Violate("router_address.RouterAddress.StaticKey", "wrong-value-for-key", gen.Shape{"path": path}, enc, "")
	}
	iv, err := ra.InitializationVector()
	if (err == nil) != (hasI && len(iVal) == 16) {
		c.Violate("router_address.RouterAddress.InitializationVector", "length-rule", gen.Shape{"path": path, "len": len(iVal), "present": hasI}, enc, fmt.Sprint(err))
	} else if err == nil && string(iv[:]) != iVal {
		c.Violate("router_address.RouterAddress.InitializationVector", "wrong-value-for-key", gen.Shape{"path": path}, enc, "")
	}
}

func hostClass(present bool, host string, fam int) string {
	switch {
	case !present:
		return "absent"
	case host == "":
		return "empty"
	case fam == 4:
		return "ipv4-literal"
	case fam == 6:
		return "ipv6-literal"
	}
	return "not-a-literal"
}

func timeZero() (t time.Time) { return }
