package mon

import (
	"crypto/sha256"
	"fmt"
	"github.com/go-i2p/logger"
	"go.step.sm/crypto/x25519"
	"reflect"
	"runtime"
	"sort"
	"strings"
	"sync"
	"sync/atomic"
	"time"

	"github.com/go-i2p/common/certificate"
	"github.com/go-i2p/common/data"
	"github.com/go-i2p/common/destination"
	"github.com/go-i2p/common/encrypted_leaseset"
	"github.com/go-i2p/common/key_certificate"
	"github.com/go-i2p/common/keys_and_cert"
	"github.com/go-i2p/common/lease"
	"github.com/go-i2p/common/lease_set"
	"github.com/go-i2p/common/lease_set2"
	"github.com/go-i2p/common/meta_leaseset"
	"github.com/go-i2p/common/offline_signature"
	"github.com/go-i2p/common/router_address"
	"github.com/go-i2p/common/router_identity"
	"github.com/go-i2p/common/router_info"
	"github.com/go-i2p/common/signature"

	"verifharness/core"
	"verifharness/gen"
	"verifharness/lib"
	rm "verifharness/refmodel"
)

// C18 — shared values may be read concurrently (the race-detector property).
func init() { register("C18", runC18) }

type sharedValue struct {
	name string
	val  any             // pointer to the shared value
	ops  []func() string // additional read-only operations beyond the reflective accessor sweep
}

// c18FreshName numbers the option names no earlier call has used.
var c18FreshName atomic.Int64

// c18Values builds one parsed and one constructed value per structure type from the stream.
func c18Values(r *core.Rand) []sharedValue {
	var vs []sharedValue
	add := func(name string, v any, ops ...func() string) {
		if v == nil {
			return
		}
		rv := reflect.ValueOf(v)
		if rv.Kind() == reflect.Ptr && rv.IsNil() {
			return
		}
		vs = append(vs, sharedValue{name: name, val: v, ops: ops})
	}
	key, _ := rm.NewSigKey(7, r)
	priv, _ := lib.LibSigningPrivateKey(key)

	// certificates / key certificates (including an unknown key type: first-use paths)
	cm := gen.Cert(r)
	if c, _, err := certificate.ReadCertificate(cm.Encode()); err == nil {
		add("Certificate/parsed", c)
	}
	if c, err := lib.BuildCert(rm.KeyCert(7, 4, r.Bytes(3))); err == nil {
		add("Certificate/constructed", c)
	}
	unknownSig, unknownCr := 12+r.Pick(65000), 8+r.Pick(65000)
	for i, kc := range []rm.Cert{rm.KeyCert(7, 4, nil), rm.KeyCert(unknownSig, unknownCr, r.Bytes(2)), rm.KeyCert(0, 0, nil)} {
		if k, _, err := key_certificate.NewKeyCertificate(kc.Encode()); err == nil {
			k := k
			add(fmt.Sprintf("KeyCertificate/parsed%d", i), k, func() string {
				n, err := k.CryptoPublicKeySize()
				return fmt.Sprint(k.SigningPublicKeySize(), k.SignatureSize(), k.CryptoSize(), n, err != nil)
			})
		}
	}
	if k, err := key_certificate.NewKeyCertificateWithTypes(11, 4); err == nil {
		add("KeyCertificate/constructed", k)
	}
	// identities
	for i, pair := range [][2]int{{7, 4}, {0, 0}, {1, 0}, {11, 4}} {
		m, _ := gen.KACOf(r, pair[0], pair[1])
		if pair[0] == 7 {
			copy(m.Block[384-32:], key.Pub)
		}
		enc := m.Encode()
		if k, _, err := keys_and_cert.ReadKeysAndCert(enc); err == nil {
			add(fmt.Sprintf("KeysAndCert/parsed%d", i), k)
		}
		if k, ok, err := lib.BuildKAC(m); ok && err == nil {
			add(fmt.Sprintf("KeysAndCert/constructed%d", i), k)
		}
		if d, _, err := destination.ReadDestination(enc); err == nil {
			d := d
			secret := r.Bytes(32)
			add(fmt.Sprintf("Destination/parsed%d", i), &d, func() string { return fmt.Sprint(d.Equals(&d)) }, func() string {
				// blinding takes the destination by value and derives a new one: a read of the original
				bd, err := encrypted_leaseset.CreateBlindedDestination(d, secret, time.Unix(1700000000, 0))
				if err != nil {
					return "refused"
				}
				b, _ := bd.Bytes()
				return fmt.Sprintf("%x", sha256.Sum256(b))
			})
		}
		if d, ok, err := lib.BuildDestination(m); ok && err == nil {
			add(fmt.Sprintf("Destination/constructed%d", i), d)
		}
		if pair[0] != 11 {
			if d, _, err := router_identity.ReadRouterIdentity(enc); err == nil {
				d := d
				add(fmt.Sprintf("RouterIdentity/parsed%d", i), d, func() string { return fmt.Sprint(d.Equal(d)) })
			}
			if d, ok, err := lib.BuildRouterIdentity(m, i%2); ok && err == nil {
				add(fmt.Sprintf("RouterIdentity/constructed%d", i), d)
			}
		}
	}
	// mappings
	mm := gen.Mapping(r, 12)
	for len(mm.Pairs) < 2 {
		mm = gen.Mapping(r, 12)
	}
	if m, _, errs := data.ReadMapping(mm.Encode()); len(errs) == 0 {
		m := m
		add("Mapping/parsed", &m, func() string { g, _ := m.ToGoMap(); return fmt.Sprint(len(g)) })
		vals := m.Values()
		add("MappingValues/parsed", &vals)
	}
	if m, err := data.GoMapToMapping(lib.MappingToGo(mm)); err == nil {
		add("Mapping/constructed", m)
	}
	// mappings the lenient parser hands back together with errors or warnings (declared size larger
	// than the data, junk inside the declared extent, more pairs than the limit): their stored size
	// disagrees with their pairs, and they are shared like any other value
	body := mm.Body()
	lenient := [][]byte{
		append([]byte{byte((len(body) + 9) >> 8), byte(len(body) + 9)}, body...),
		append(append([]byte{byte((len(body) + 3) >> 8), byte(len(body) + 3)}, body...), 0x07, 'x', 'y'),
		gen.Corners(core.NewRand(1, "c18-corners"))[1].Bytes,
	}
	{
		var many []byte
		for j := 0; j < 1003; j++ {
			k := fmt.Sprintf("%04d", j)
			many = append(many, byte(len(k)))
			many = append(many, k...)
			many = append(many, '=', 0, ';')
		}
		lenient = append(lenient, append([]byte{byte(len(many) >> 8), byte(len(many))}, many...))
	}
	for i, raw := range lenient {
		m, _, errs := data.ReadMapping(raw)
		if len(errs) == 0 || len(m.Values()) == 0 {
			continue
		}
		add(fmt.Sprintf("Mapping/parsed-with-errors%d", i), &m, func() string { g, _ := m.ToGoMap(); return fmt.Sprint(len(g), len(m.Data())) })
	}
	// router address / router info
	am := gen.RouterAddress(r)
	am.Style = []byte("NTCP2")
	am.Options = rm.Mapping{Pairs: []rm.Pair{{K: []byte("host"), V: []byte("1.2.3.4")}, {K: []byte("port"), V: []byte("1234")}, {K: []byte("s"), V: r.Bytes(32)}, {K: []byte("i"), V: r.Bytes(16)}, {K: []byte("caps"), V: []byte("BC")}}}
	if a, _, err := router_address.ReadRouterAddress(am.Encode()); err == nil {
		a := a
		optionQueries := func() string {
			// option lookups by name: the well-known names, and names no call has asked for before
			// (every call draws fresh ones: first-use paths run inside the concurrent round)
			n := c18FreshName.Add(1)
			fresh := fmt.Sprintf("x-%d", n)
			fk := data.I2PString(append([]byte{byte(len(fresh))}, fresh...))
			hk := data.I2PString("\x04host")
			return fmt.Sprint(a.CheckOption("host"), a.CheckOption("port"), a.CheckOption(fresh), a.CheckOption("ih"+fmt.Sprint(n%5)), a.HasOption(fk), a.HasOption(hk), string(a.GetOption(fk)), string(a.GetOption(hk)))
		}
		add("RouterAddress/parsed", &a, func() string { return fmt.Sprint(a.Equals(a)) }, optionQueries)
	}
	// an address whose (unused, normally all-zero) expiration field is set on the wire: only a parser yields it
	am2 := am
	copy(am2.Expiration[:], r.Bytes(8))
	am2.Expiration[0] |= 1
	if a, _, err := router_address.ReadRouterAddress(am2.Encode()); err == nil {
		a := a
		if o, _, err := router_address.ReadRouterAddress(am2.Encode()); err == nil {
			add("RouterAddress/parsed-with-expiration", &a, func() string { return fmt.Sprint(a.Equals(a), a.Equals(o), o.Equals(a)) })
		}
	}
	if a, err := lib.BuildRouterAddress(am); err == nil {
		a := a
		add("RouterAddress/constructed", a, func() string {
			n := c18FreshName.Add(1)
			fresh := fmt.Sprintf("y-%d", n)
			return fmt.Sprint(a.CheckOption("host"), a.CheckOption(fresh), a.CheckOption("port"), a.Equals(*a))
		})
	}
	rim, _ := gen.RouterInfo(r)
	rim.Ident, _ = identWithKey(r, key, rm.IdentCryptoTypes)
	rim.Addrs = []rm.RouterAddress{am, gen.RouterAddress(r)}
	rim.Addrs[1].Style = []byte("SSU2")
	rim.Options = rm.Mapping{Pairs: []rm.Pair{{K: []byte("caps"), V: []byte("fR")}, {K: []byte("router.version"), V: []byte("0.9.62")}, {K: []byte("netId"), V: []byte("2")}}}
	rim.Published &= 1<<62 - 1
	rim.Sig, _ = key.Sign(rim.EncodeUnsigned(), r)
	if ri, _, err := router_info.ReadRouterInfo(rim.Encode()); err == nil {
		ri := ri
		add("RouterInfo/parsed", &ri)
	}
	if ri, ok, err := lib.BuildRouterInfo(rim, priv, 0); ok && err == nil {
		add("RouterInfo/constructed", ri)
	}
	// leases
	lm, l2m := gen.Lease(r), gen.Lease2(r)
	if l, _, err := lease.ReadLease(lm.Encode()); err == nil {
		l := l
		add("Lease/parsed", &l)
	}
	if l, err := lib.BuildLease2(l2m); err == nil {
		add("Lease2/constructed", l)
	}
	// leasesets (signed by the reference so that Verify runs its full path)
	sc := signedLeaseSet(r, 7)
	if ls, err := lease_set.ReadLeaseSet(sc.bytes); err == nil {
		ls := ls
		add("LeaseSet/parsed", &ls)
	}
	lsm, _ := gen.LeaseSet(r)
	lsm.Dest, _ = identWithKey(r, key, rm.IdentCryptoTypes)
	lsm.SigningKey = r.Bytes(32)
	for len(lsm.Leases) < 3 {
		lsm.Leases = append(lsm.Leases, gen.Lease(r))
	}
	for j := range lsm.Leases { // deliberately not in ascending end-date order
		lsm.Leases[j].EndMs = uint64(1700000000000 + (len(lsm.Leases)-j)*1000)
	}
	if ls, ok, err := lib.BuildLeaseSet(lsm, priv); ok && err == nil {
		add("LeaseSet/constructed", ls)
	}
	for i, off := range []bool{false, true} {
		sc2 := signedLeaseSet2(r, 7, off, 7)
		if ls, _, err := lease_set2.ReadLeaseSet2(sc2.bytes); err == nil {
			ls := ls
			add(fmt.Sprintf("LeaseSet2/parsed%d", i), &ls)
		}
		scm := signedMeta(r, 7, off, 11)
		if ls, _, err := meta_leaseset.ReadMetaLeaseSet(scm.bytes); err == nil {
			ls := ls
			add(fmt.Sprintf("MetaLeaseSet/parsed%d", i), &ls, func() string {
				return fmt.Sprint(len(ls.SortEntriesByCost()), len(ls.FindEntriesByType(3)), len(ls.FindEntriesByType(1)), len(ls.FindEntriesByType(5)), len(ls.FindEntriesByType(0)))
			})
		}
		sce := signedELS(r, 7, off, 7)
		if ls, _, err := encrypted_leaseset.ReadEncryptedLeaseSet(sce.bytes); err == nil {
			ls := ls
			add(fmt.Sprintf("EncryptedLeaseSet/parsed%d", i), &ls)
		}
	}
	// offline block signed by a foreign key, content correctly signed by the transient key: every
	// Verify must fail, alone and under concurrency
	if ls, _, err := lease_set2.ReadLeaseSet2(signedLeaseSet2With(r, 7, true, 7, true).bytes); err == nil {
		ls := ls
		add("LeaseSet2/forged-offline", &ls, func() string { return fmt.Sprint(ls.Verify() == nil) })
	}
	if ls, _, err := meta_leaseset.ReadMetaLeaseSet(signedMetaWith(r, 7, true, 11, true).bytes); err == nil {
		ls := ls
		add("MetaLeaseSet/forged-offline", &ls, func() string { return fmt.Sprint(ls.Verify() == nil) })
	}
	if ls, _, err := encrypted_leaseset.ReadEncryptedLeaseSet(signedELSWith(r, 7, true, 7, true).bytes); err == nil {
		ls := ls
		add("EncryptedLeaseSet/forged-offline", &ls, func() string { return fmt.Sprint(ls.Verify() == nil) })
	}
	// a signature that does NOT verify over content whose options are not in key order (the failure
	// path of a verifier, with a mapping only a parser yields): Verify fails and changes nothing
	unsorted := rm.Mapping{Pairs: []rm.Pair{{K: []byte("zeta"), V: []byte("1")}, {K: []byte("alpha"), V: r.Bytes(5)}, {K: []byte("mid"), V: []byte{}}, {K: []byte("beta"), V: []byte("x")}}}
	if m, _, _, err := rm.DecodeLeaseSet2(signedLeaseSet2(r, 7, false, 7).bytes); err == nil {
		m.Options = unsorted
		if ls, _, err := lease_set2.ReadLeaseSet2(m.Encode()); err == nil {
			ls := ls
			add("LeaseSet2/bad-signature-unsorted-options", &ls, func() string { return fmt.Sprint(ls.Verify() == nil) })
		}
	}
	if m, _, _, err := rm.DecodeMetaLeaseSet(signedMeta(r, 7, false, 7).bytes); err == nil {
		m.Options = unsorted
		if ls, _, err := meta_leaseset.ReadMetaLeaseSet(m.Encode()); err == nil {
			ls := ls
			add("MetaLeaseSet/bad-signature-unsorted-options", &ls, func() string { return fmt.Sprint(ls.Verify() == nil) })
		}
	}
	if m, _, _, err := rm.DecodeRouterInfo(signedRouterInfo(r, 7).bytes); err == nil {
		m.Options = unsorted
		if ri, _, err := router_info.ReadRouterInfo(m.Encode()); err == nil {
			ri := ri
			add("RouterInfo/bad-signature-unsorted-options", &ri)
		}
	}
	// large values (several KiB): code that treats big inputs differently — a pooled buffer above a
	// size threshold, a chunked path — is only reached by these
	signedTweak = func(model any) {
		switch m := model.(type) {
		case *rm.EncryptedLeaseSet:
			m.Inner = r.Bytes(5000 + r.Pick(3000))
		case *rm.LeaseSet2:
			m.Options = gen.Corners(core.NewRand(2, "c18-big"))[1].Model.(rm.Mapping)
			for len(m.Leases) < 16 {
				m.Leases = append(m.Leases, gen.Lease2(r))
			}
		case *rm.RouterInfo:
			for len(m.Addrs) < 40 {
				m.Addrs = append(m.Addrs, am)
			}
		}
	}
	bigE, bigL, bigR := signedELS(r, 7, false, 7), signedLeaseSet2(r, 7, false, 7), signedRouterInfo(r, 7)
	signedTweak = nil
	if ls, _, err := encrypted_leaseset.ReadEncryptedLeaseSet(bigE.bytes); err == nil {
		ls := ls
		add("EncryptedLeaseSet/large", &ls, func() string { return fmt.Sprint(ls.Verify() == nil) })
	}
	if ls, _, err := lease_set2.ReadLeaseSet2(bigL.bytes); err == nil {
		ls := ls
		add("LeaseSet2/large", &ls, func() string { return fmt.Sprint(ls.Verify() == nil) })
	}
	if ri, _, err := router_info.ReadRouterInfo(bigR.bytes); err == nil {
		ri := ri
		add("RouterInfo/large", &ri)
	}
	l2, _ := gen.LeaseSet2(r)
	l2.Dest, _ = identWithKey(r, key, rm.IdentCryptoTypes)
	l2.Offline, l2.Flags = nil, 0
	l2.Keys = []rm.EncKey{{Type: 4, Data: r.Bytes(32)}}
	l2.Leases = []rm.Lease2{gen.Lease2(r), gen.Lease2(r)}
	if ls, ok, err := lib.BuildLeaseSet2(l2, priv); ok && err == nil {
		add("LeaseSet2/constructed", ls)
	}
	// a LeaseSet2 constructed with "no options" said as the zero Mapping (what the constructor's
	// documentation allows): accessors that normalise lazily write to the shared value
	if d, ok, err := lib.BuildDestination(l2.Dest); ok && err == nil {
		var leases []lease.Lease2
		for _, x := range l2.Leases {
			if ll, err := lib.BuildLease2(x); err == nil {
				leases = append(leases, *ll)
			}
		}
		keys := []lease_set2.EncryptionKey{{KeyType: 4, KeyLen: 32, KeyData: r.Bytes(32)}}
		if ls, err := lease_set2.NewLeaseSet2(*d, 1700000000, 600, 0, nil, data.Mapping{}, keys, leases, priv); err == nil {
			ls := ls
			add("LeaseSet2/constructed-zero-options", &ls)
		}
	}
	// an EncryptedLeaseSet whose inner data really is a ciphertext: decrypting (with the right key,
	// with a wrong one) is a read of the shared value like serialising and verifying it
	if inner, _ := gen.LeaseSet2(r); true {
		plain := inner.Encode()
		if blob, rpriv, err := encryptForTest(r, plain); err == nil {
			if els, err := elsWith(blob); err == nil && els != nil {
				wrong, _, _ := rm.X25519KeyPair(r.Bytes(32))
				var cookie [32]byte
				add("EncryptedLeaseSet/decryptable", els, func() string {
					got, err := els.DecryptInnerData(cookie[:], x25519.PrivateKey(rpriv))
					if err != nil || got == nil {
						return "right key: error"
					}
					b, _ := got.Bytes()
					return fmt.Sprintf("right key: %x", sha256.Sum256(b))
				}, func() string {
					_, err := els.DecryptInnerData(cookie[:], x25519.PrivateKey(wrong))
					return fmt.Sprint("wrong key: ", err != nil)
				})
			}
		}
	}
	em, _ := gen.EncryptedLeaseSet(r)
	em.SigType, em.BlindedKey, em.Offline, em.Flags = 7, key.Pub, nil, 0
	if e, err := lib.BuildEncryptedLeaseSet(em, key.Ed25519Private()); err == nil {
		add("EncryptedLeaseSet/constructed", e)
	}
	// offline signature / signature
	om, _ := offlineFor(r, key, 7)
	if o, _, err := offline_signature.ReadOfflineSignature(om.Encode(), 7); err == nil {
		o := o
		add("OfflineSignature/parsed", &o, func() string { ok, err := o.VerifySignature(key.Pub); return fmt.Sprint(ok, err != nil) })
	}
	if o, err := offline_signature.CreateOfflineSignature(om.Expires, 7, om.TransientKey, key.Ed25519Private(), 7); err == nil {
		add("OfflineSignature/constructed", &o)
	}
	if s, _, err := signature.ReadSignature(r.Bytes(64), 7); err == nil {
		s := s
		add("Signature/parsed", &s, func() string { return fmt.Sprint(s.Equal(&s)) })
	}
	if s, err := signature.NewSignatureFromBytes(r.Bytes(40), 0); err == nil {
		add("Signature/constructed", &s)
	}
	// primitives
	str, _ := data.NewI2PString("concurrent")
	add("I2PString/constructed", &str)
	it, _ := data.NewIntegerFromInt(123456, 4)
	add("Integer/constructed", it)
	dt, _ := data.NewDateFromMillis(1700000000123)
	add("Date/constructed", dt)
	h := data.HashData([]byte("x"))
	add("Hash/constructed", &h)
	return vs
}

// packageTables renders the exported package-level lookup maps.
func packageTables() string {
	return lib.Render([]any{key_certificate.SigningKeySizes, key_certificate.CryptoKeySizes, key_certificate.CryptoPublicKeySizes, key_certificate.SignaturePublicKeySizes})
}

// lookups: the size lookups and map reads every parse performs, with known and unknown codes.
func lookups(codes []int) string {
	out := ""
	for _, t := range codes {
		a, e1 := key_certificate.GetKeySizes(t, t%9)
		b, e2 := key_certificate.GetSigningKeySize(t)
		cc, e3 := key_certificate.GetCryptoKeySize(t)
		d, e4 := key_certificate.GetSignatureSize(t)
		e, e5 := signature.SignatureSize(t)
		out += fmt.Sprint(a, e1 != nil, b, e2 != nil, cc, e3 != nil, d, e4 != nil, e, e5 != nil,
			offline_signature.SigningPublicKeySize(uint16(t)), offline_signature.SignatureSize(uint16(t)),
			key_certificate.SigningKeySizes[t], key_certificate.CryptoKeySizes[t], key_certificate.CryptoPublicKeySizes[uint16(t)], key_certificate.SignaturePublicKeySizes[uint16(t)])
	}
	return out
}

func runC18(c *core.Ctx) {
	rounds := c.N(3, 30)
	gcounts := []int{2, 8, 32}
	procs := []int{2, 4, 16}
	var overlapHist [40]int64
	sigs := map[[8]byte]struct{}{}
	var totalCalls, totalRounds int64
	perOp := map[string]int64{}

	c.Job("rounds", rounds*len(gcounts)*len(procs), func(i int, r *core.Rand) {
		G := gcounts[i%len(gcounts)]
		P := procs[(i/len(gcounts))%len(procs)]
		old := runtime.GOMAXPROCS(P)
		defer runtime.GOMAXPROCS(old)
		values := c18Values(r)
		// an identical second set, built from the same stream and never touched sequentially:
		// the concurrent round runs on these, so that first-use effects (lazy initialisation,
		// memoised serialisations) happen under concurrency, while the baseline comes from the
		// first set
		twins := c18Values(core.NewRand(c.Seed, c.Prop, "rounds", i))
		if len(twins) != len(values) {
			twins = values
		}
		codes := []int{0, 1, 7, 11, 4, 3, 12 + r.Pick(60000), 9, 65535, 8 + r.Pick(60000)}
		tablesBefore := packageTables()
		for vi, sv := range values {
			sv := sv
			tw := twins[vi]
			if tw.name != sv.name {
				tw = sv
			}
			// fresh unknown key types whose first size lookups happen inside the concurrent round
			var freshKCs []*key_certificate.KeyCertificate
			for k := 0; k < 3; k++ {
				if kc, _, err := key_certificate.NewKeyCertificate(rm.KeyCert(21+r.Pick(65000), 9+r.Pick(65000), nil).Encode()); err == nil {
					freshKCs = append(freshKCs, kc)
				}
			}
			c.Eval(1)
			// sequential baseline
			var base []lib.Obs
			var baseOps []string
			if p, _, _ := c.Call("baseline/"+sv.name, []byte(sv.name), func() {
				base = lib.Observe(sv.val, lib.ObserveOpts{Depth: 1})
				for _, op := range sv.ops {
					baseOps = append(baseOps, op())
				}
			}); p {
				continue
			}
			baseDigest := lib.Digest(base)
			baseLook := lookups(codes)
			snapBefore := lib.RenderCaps(tw.val)
			// concurrent round
			var wg sync.WaitGroup
			var inFlight, ticket atomic.Int64
			type result struct {
				diff   []string
				opDiff string
				look   bool
				starts []int64
				calls  int64
				maxOv  int64
				pv     any
			}
			results := make([]result, G)
			start := make(chan struct{})
			for g := 0; g < G; g++ {
				g := g
				gr := core.NewRand(c.Seed, "c18g", i, sv.name, g)
				wg.Add(1)
				go func() {
					defer wg.Done()
					defer func() {
						if pv := recover(); pv != nil {
							results[g].pv = pv
						}
					}()
					<-start
					res := &results[g]
					for it := 0; it < 2; it++ {
						cur := inFlight.Add(1)
						if cur > res.maxOv {
							res.maxOv = cur
						}
						res.starts = append(res.starts, ticket.Add(1))
						// seeded perturbation in the client
						switch gr.Pick(4) {
						case 0:
							runtime.Gosched()
						case 1:
							time.Sleep(time.Duration(gr.Pick(50)) * time.Microsecond)
						}
						obs := lib.Observe(tw.val, lib.ObserveOpts{Depth: 1})
						res.calls += int64(len(obs))
						if d := lib.Diff(base, obs); len(d) > 0 && res.diff == nil {
							res.diff = d
						}
						for _, kc := range freshKCs {
							if kc.SigningPublicKeySize() != 0 || kc.SignatureSize() != 0 || kc.CryptoSize() != 0 {
								res.look = true
							}
							if _, err := kc.CryptoPublicKeySize(); err == nil {
								res.look = true
							}
							res.calls += 4
						}
						for k, op := range tw.ops {
							if got := op(); got != baseOps[k] && res.opDiff == "" {
								res.opDiff = fmt.Sprintf("op %d: %q vs %q", k, got, baseOps[k])
							}
							res.calls++
						}
						if lookups(codes) != baseLook {
							res.look = true
						}
						inFlight.Add(-1)
					}
				}()
			}
			close(start)
			wg.Wait()
			sh := gen.Shape{"value": sv.name, "goroutines": G, "gomaxprocs": P}
			var order []int64
			for g := range results {
				res := results[g]
				totalCalls += res.calls
				if res.maxOv < int64(len(overlapHist)) {
					overlapHist[res.maxOv]++
				}
				order = append(order, res.starts...)
				if res.pv != nil {
					c.Violate(sv.name, "panic-under-concurrency", sh, nil, fmt.Sprint(res.pv))
				}
				if res.diff != nil {
					c.Violate(sv.name, "concurrent-result-differs-from-sequential", sh, nil, fmt.Sprintf("accessors %v returned something else than alone", head2(res.diff, 6)))
				}
				if res.opDiff != "" {
					c.Violate(sv.name, "concurrent-result-differs-from-sequential", sh, nil, res.opDiff)
				}
				if res.look {
					c.Violate("size-lookups", "concurrent-result-differs-from-sequential", sh, nil, "")
				}
			}
			// interleaving signature: which goroutine started its k-th sweep in which global order
			type ev struct {
				t int64
				g int
			}
			var evs []ev
			for g := range results {
				for _, t := range results[g].starts {
					evs = append(evs, ev{t, g})
				}
			}
			sort.Slice(evs, func(a, b int) bool { return evs[a].t < evs[b].t })
			hsh := sha256.New()
			for _, e := range evs {
				fmt.Fprintf(hsh, "%d,", e.g)
			}
			var k8 [8]byte
			copy(k8[:], hsh.Sum(nil))
			sigs[k8] = struct{}{}
			totalRounds++
			perOp[sv.name] += int64(len(base) + len(sv.ops))
			// read-only operations mutate neither the receiver ...
			if after := lib.RenderCaps(tw.val); after != snapBefore {
				c.Violate(sv.name, "receiver-mutated-by-read-only-operations", sh, nil, firstDiffStr(snapBefore, after))
			}
			if d2 := lib.Digest(lib.Observe(tw.val, lib.ObserveOpts{Depth: 1})); d2 != baseDigest {
				c.Violate(sv.name, "results-changed-after-concurrent-use", sh, nil, "")
			}
			c.Nontrivial([]byte("c18"), []byte(sv.name), []byte(fmt.Sprint(i)))
		}
		// ... nor package-level state
		if after := packageTables(); after != tablesBefore {
			c.Violate("package-tables", "package-state-mutated-by-read-only-operations", gen.Shape{"goroutines": G}, nil, firstDiffStr(tablesBefore, after))
		}
		if i == 0 {
			names := []string{}
			for _, v := range values {
				names = append(names, v.name)
			}
			c.Sample(gen.Shape{"goroutines": G, "gomaxprocs": P, "shared_values": names, "sweeps_per_goroutine": 2})
		}
	})
	hist := map[string]any{}
	for k, v := range overlapHist {
		if v > 0 {
			hist[fmt.Sprintf("max_in_flight_%02d", k)] = v
		}
	}
	c.SetExtra("goroutine_overlap_histogram", hist)
	c.SetExtra("distinct_interleaving_signatures", int64(len(sigs)))
	c.SetExtra("concurrent_rounds", totalRounds)
	c.SetExtra("concurrent_calls", totalCalls)
	po := map[string]any{}
	for k, v := range perOp {
		po[k] = v
	}
	c.SetExtra("accessors_per_value_per_sweep", po)
	c18Independent(c)
	c18ProcessState(c)
}

func firstDiffStr(a, b string) string {
	i := 0
	for i < len(a) && i < len(b) && a[i] == b[i] {
		i++
	}
	lo := i - 60
	if lo < 0 {
		lo = 0
	}
	ha, hb := i+80, i+80
	if ha > len(a) {
		ha = len(a)
	}
	if hb > len(b) {
		hb = len(b)
	}
	return fmt.Sprintf("before ...%s... after ...%s...", a[lo:ha], b[lo:hb])
}

// c18ProcessState: state the library shares with the rest of the process through its dependencies -
// the one go-i2p logger every package logs to. With debug logging switched on (output discarded),
// goroutines render and query shared values; afterwards the logger's level is what the application
// set it to. (Read-only operations mutate no package-level state - not their own, not the logger's.)
func c18ProcessState(c *core.Ctx) {
	c.Job("process-state", c.N(4, 40), func(i int, r *core.Rand) {
		lg := logger.GetGoI2PLogger()
		if lg == nil {
			return
		}
		before := lg.GetLevel()
		want := []logger.Level{logger.DebugLevel, logger.TraceLevel}[i%2]
		lg.SetLevel(want)
		defer lg.SetLevel(before)
		var vals []sharedValue
		for _, sv := range c18Values(r) {
			if strings.HasPrefix(sv.name, "RouterInfo/") || strings.HasPrefix(sv.name, "RouterAddress/") || strings.HasPrefix(sv.name, "LeaseSet2/parsed") || strings.HasPrefix(sv.name, "Destination/parsed0") {
				vals = append(vals, sv)
			}
		}
		if len(vals) == 0 {
			return
		}
		c.Eval(1)
		c.Nontrivial([]byte("process-state"), []byte(fmt.Sprint(i)))
		const G = 12
		var wg sync.WaitGroup
		start := make(chan struct{})
		for g := 0; g < G; g++ {
			g := g
			wg.Add(1)
			go func() {
				defer wg.Done()
				defer func() { _ = recover() }()
				<-start
				for k := 0; k < 6; k++ {
					sv := vals[(g+k)%len(vals)]
					lib.Observe(sv.val, lib.ObserveOpts{Depth: 1})
					for _, op := range sv.ops {
						op()
					}
				}
			}()
		}
		close(start)
		wg.Wait()
		if got := lg.GetLevel(); got != want {
			c.Violate("process-wide logger", "package-level-state-changed-by-read-only-operations", gen.Shape{"level_set_by_application": fmt.Sprint(want), "level_afterwards": fmt.Sprint(got), "goroutines": G}, nil,
				fmt.Sprintf("the application set the go-i2p logger to level %v; after %d goroutines rendered and queried shared values it is at level %v", want, G, got))
			return
		}
		c.Bucket("process-state/logger-level-unchanged")
	})
}
