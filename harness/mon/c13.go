package mon

import (
	"bytes"
	"fmt"
	"strings"

	"github.com/go-i2p/common/base32"
	"github.com/go-i2p/common/base64"

	"verifharness/core"
	"verifharness/gen"
	rm "verifharness/refmodel"
)

// C13 — I2P base32/base64: decode(encode(x)) = x and only the I2P alphabet is accepted.
func init() { register("C13", runC13) }

func onlyAlphabet(s, alphabet string, pad bool) bool {
	for i := 0; i < len(s); i++ {
		if strings.IndexByte(alphabet, s[i]) >= 0 {
			continue
		}
		if pad && s[i] == '=' {
			continue
		}
		return false
	}
	return true
}

func c13RoundTrip(c *core.Ctx, x []byte) {
	c13RoundTripOnce(c, x)
	// results handed out earlier stay what they were while the codecs work on other input
	// (a decoder or encoder must not hand out storage it reuses for the next call)
	if len(x) == 0 {
		return
	}
	sh := gen.Shape{"len": len(x), "mod5": len(x) % 5, "mod3": len(x) % 3}
	type held struct {
		site string
		got  []byte
	}
	var hs []held
	e, e2, e3 := rm.B32Encode(x), rm.B32EncodeNoPad(x), rm.B64Encode(x)
	for _, d := range c13Decoders() {
		in := e
		switch {
		case d.width == 6:
			in = e3
		case !d.padded:
			in = e2
		}
		if out, err := d.fn(in); err == nil {
			hs = append(hs, held{d.site, out})
		}
	}
	s1, s2, s3 := base32.EncodeToString(x), base32.EncodeToStringNoPadding(x), base64.EncodeToString(x)
	y := make([]byte, len(x))
	for i := range x {
		y[i] = ^x[len(x)-1-i]
	}
	c13RoundTripOnce(c, y)
	for _, h := range hs {
		if !bytes.Equal(h.got, x) {
			c.Violate(h.site, "earlier-result-changed-by-later-call", sh, x, fmt.Sprintf("the %d bytes decoded earlier differ from offset %d after other input was encoded and decoded", len(x), firstDiff(x, h.got)))
		}
	}
	if s1 != e || s2 != e2 || s3 != e3 {
		c.Violate("base32/base64 encoders", "earlier-result-changed-by-later-call", sh, x, "an encoded string changed after other input was encoded")
	}
	c.Bucket("results-retained-across-later-calls")
}

func c13RoundTripOnce(c *core.Ctx, x []byte) {
	c.Eval(1)
	sh := gen.Shape{"len": len(x), "mod5": len(x) % 5, "mod3": len(x) % 3}
	c.Nontrivial([]byte("rt"), x)
	// base32 padded
	e := base32.EncodeToString(x)
	if e != rm.B32Encode(x) {
		c.Violate("base32.EncodeToString", "differs-from-bit-level-encoder", sh, x, fmt.Sprintf("%q vs %q", e, rm.B32Encode(x)))
	}
	if !onlyAlphabet(e, rm.B32Alphabet, true) {
		c.Violate("base32.EncodeToString", "alphabet", sh, x, e)
	}
	if d, err := base32.DecodeString(e); err != nil || !bytes.Equal(d, x) {
		c.Violate("base32.DecodeString", "decode-of-encode-differs", sh, x, fmt.Sprint(err))
	}
	// base32 unpadded
	e2 := base32.EncodeToStringNoPadding(x)
	if e2 != rm.B32EncodeNoPad(x) || !onlyAlphabet(e2, rm.B32Alphabet, false) {
		c.Violate("base32.EncodeToStringNoPadding", "differs-from-bit-level-encoder", sh, x, e2)
	}
	if d, err := base32.DecodeStringNoPadding(e2); err != nil || !bytes.Equal(d, x) {
		c.Violate("base32.DecodeStringNoPadding", "decode-of-encode-differs", sh, x, fmt.Sprint(err))
	}
	// base64
	e3 := base64.EncodeToString(x)
	if e3 != rm.B64Encode(x) || !onlyAlphabet(e3, rm.B64Alphabet, true) {
		c.Violate("base64.EncodeToString", "differs-from-bit-level-encoder", sh, x, e3)
	}
	if d, err := base64.DecodeString(e3); err != nil || !bytes.Equal(d, x) {
		c.Violate("base64.DecodeString", "decode-of-encode-differs", sh, x, fmt.Sprint(err))
	}
	if len(x) > 0 {
		if s, err := base32.EncodeToStringSafe(x); err != nil || s != e {
			c.Violate("base32.EncodeToStringSafe", "differs-from-bit-level-encoder", sh, x, fmt.Sprint(err))
		}
		if s, err := base64.EncodeToStringSafe(x); err != nil || s != e3 {
			c.Violate("base64.EncodeToStringSafe", "differs-from-bit-level-encoder", sh, x, fmt.Sprint(err))
		}
		if d, err := base32.DecodeStringSafe(e); err != nil || !bytes.Equal(d, x) {
			c.Violate("base32.DecodeStringSafe", "decode-of-encode-differs", sh, x, fmt.Sprint(err))
		}
		if d, err := base32.DecodeStringSafeNoPadding(e2); err != nil || !bytes.Equal(d, x) {
			c.Violate("base32.DecodeStringSafeNoPadding", "decode-of-encode-differs", sh, x, fmt.Sprint(err))
		}
		if d, err := base64.DecodeStringSafe(e3); err != nil || !bytes.Equal(d, x) {
			c.Violate("base64.DecodeStringSafe", "decode-of-encode-differs", sh, x, fmt.Sprint(err))
		}
	}
}

type decoder struct {
	site     string
	fn       func(string) ([]byte, error)
	alphabet string
	width    int
	padded   bool
	block    int
	tails    map[int]bool
}

func c13Decoders() []decoder {
	return []decoder{
		{"base32.DecodeString", base32.DecodeString, rm.B32Alphabet, 5, true, 8, rm.B32ValidTail},
		{"base32.DecodeStringSafe", base32.DecodeStringSafe, rm.B32Alphabet, 5, true, 8, rm.B32ValidTail},
		{"base32.DecodeStringNoPadding", base32.DecodeStringNoPadding, rm.B32Alphabet, 5, false, 8, rm.B32ValidTail},
		{"base32.DecodeStringSafeNoPadding", base32.DecodeStringSafeNoPadding, rm.B32Alphabet, 5, false, 8, rm.B32ValidTail},
		{"base64.DecodeString", base64.DecodeString, rm.B64Alphabet, 6, true, 4, rm.B64ValidTail},
		{"base64.DecodeStringSafe", base64.DecodeStringSafe, rm.B64Alphabet, 6, true, 4, rm.B64ValidTail},
	}
}

// c13Judge applies the decoder oracle to an arbitrary string.
func c13Judge(c *core.Ctx, d decoder, s string, class string) {
	c.Eval(1)
	var out []byte
	var err error
	panicked, _, _ := c.Call(d.site, []byte(s), func() { out, err = d.fn(s) })
	if panicked {
		return
	}
	c.OpResult(d.site, err == nil)
	c.Nontrivial([]byte(d.site), []byte(s))
	sh := gen.Shape{"class": class}
	stripped := rm.StripCRLF(s)
	// (a) any byte outside alphabet ∪ {CR, LF} (∪ '=' for padded variants) => rejected
	foreign := false
	for i := 0; i < len(stripped); i++ {
		ch := stripped[i]
		if strings.IndexByte(d.alphabet, ch) >= 0 || (d.padded && ch == '=') {
			continue
		}
		foreign = true
	}
	if !d.padded && strings.IndexByte(stripped, '=') >= 0 {
		foreign = true
	}
	if foreign {
		if err == nil {
			c.Violate(d.site, "foreign-character-accepted", sh, []byte(s), fmt.Sprintf("decoded to %d bytes", len(out)))
		}
		c.Bucket("rejected-foreign/" + d.site)
		return
	}
	// (b) padding shape
	var symbols string
	wellFormed := true
	if d.padded {
		symbols, wellFormed = rm.PaddedShape(stripped, d.block, d.tails)
	} else {
		symbols = stripped
		if !(len(symbols)%d.block == 0 || d.tails[len(symbols)%d.block]) {
			// an impossible symbol count in an unpadded string: there is no padding that could
			// be malformed, and the statement does not speak about such strings
			c.Bucket("unjudged-impossible-unpadded-length/" + d.site)
			return
		}
	}
	if !wellFormed {
		if err == nil {
			c.Violate(d.site, "malformed-padding-accepted", sh, []byte(s), fmt.Sprintf("decoded to %d bytes", len(out)))
		}
		c.Bucket("rejected-padding/" + d.site)
		return
	}
	ref, ok, canonical := rm.B32DecodeNoPad(symbols)
	if d.width == 6 {
		ref, ok, canonical = rm.B64DecodeNoPad(symbols)
	}
	if !ok {
		if err == nil {
			c.Violate(d.site, "impossible-length-accepted", sh, []byte(s), "")
		}
		return
	}
	if !canonical {
		// non-zero trailing bits: the statement does not speak about these strings
		c.Bucket("unjudged-trailing-bits/" + d.site)
		return
	}
	if strings.HasSuffix(d.site, "Safe") || strings.Contains(d.site, "SafeNoPadding") {
		if len(s) == 0 {
			if err == nil {
				c.Violate(d.site, "empty-accepted", sh, nil, "")
			}
			return
		}
	}
	// (c) canonical encoding, possibly with CR/LF inside: accepted with the same bytes
	if err != nil || !bytes.Equal(out, ref) {
		c.Violate(d.site, "canonical-encoding-rejected-or-differs", sh, []byte(s), fmt.Sprintf("err=%v", err))
		return
	}
	c.Bucket("accepted-canonical/" + d.site)
}

func runC13(c *core.Ctx) {
	// exhaustive: all byte strings of length <= 2
	c.Job("exhaustive-len0-2", 1+256+65536, func(i int, r *core.Rand) {
		var x []byte
		switch {
		case i == 0:
			x = []byte{}
		case i <= 256:
			x = []byte{byte(i - 1)}
		default:
			v := i - 257
			x = []byte{byte(v >> 8), byte(v)}
		}
		c13RoundTrip(c, x)
	})
	c.Exhaustive("encode/decode round trip of all 65,793 byte strings of length 0..2")
	if c.Thorough() {
		// length 3 (one full base64 quantum): every string as well
		c.Job("exhaustive-len3", 1<<24, func(i int, r *core.Rand) {
			c13RoundTripOnce(c, []byte{byte(i >> 16), byte(i >> 8), byte(i)})
		})
		c.Exhaustive("encode/decode round trip of all 16,777,216 byte strings of length 3")
	}
	c.Job("random", c.N(6000, 120000), func(i int, r *core.Rand) {
		n := i % 64 // every length residue mod 5 and mod 3 many times
		if i%16 == 15 {
			n = 64 + r.Pick(8192)
		}
		c13RoundTrip(c, r.Bytes(n))
	})

	decs := c13Decoders()
	// decoders over the full byte alphabet
	c.Job("decoders-random", c.N(20000, 400000), func(i int, r *core.Rand) {
		d := decs[i%len(decs)]
		var s string
		switch (i / len(decs)) % 6 {
		case 0: // arbitrary bytes
			s = string(r.Bytes(r.Pick(24)))
		case 1: // canonical encoding with one foreign byte
			x := r.Bytes(r.Pick(40))
			b := []byte(encodeFor(d, x))
			if len(b) > 0 {
				b[r.Pick(len(b))] = byte(r.Pick(256))
			}
			s = string(b)
		case 2: // canonical encoding with CR/LF inserted
			x := r.Bytes(r.Pick(60))
			e := encodeFor(d, x)
			var sb strings.Builder
			for j := 0; j < len(e); j++ {
				if r.Chance(1, 6) {
					sb.WriteString([]string{"\n", "\r\n", "\r"}[r.Pick(3)])
				}
				sb.WriteByte(e[j])
			}
			// ... and after the last character (after the padding, if any)
			for k := r.Pick(14); k > 0 && r.Chance(2, 3); k-- {
				sb.WriteString([]string{"\n", "\r\n", "\r"}[r.Pick(3)])
			}
			s = sb.String()
		case 3: // padding manipulations
			x := r.Bytes(1 + r.Pick(30))
			e := strings.TrimRight(encodeFor(d, x), "=")
			switch r.Pick(5) {
			case 0:
				s = e + strings.Repeat("=", r.Pick(10))
			case 1:
				s = e[:r.Pick(len(e)+1)] + "=" + e
			case 2:
				s = "=" + e
			case 3:
				s = e + "=" + string(d.alphabet[r.Pick(len(d.alphabet))])
			default:
				s = e
			}
		case 4: // symbols only, arbitrary count (impossible lengths, trailing bits)
			n := r.Pick(40)
			b := make([]byte, n)
			for j := range b {
				b[j] = d.alphabet[r.Pick(len(d.alphabet))]
			}
			s = string(b)
		default: // the other encoding's alphabet / upper case
			x := r.Bytes(1 + r.Pick(30))
			if d.width == 5 {
				s = strings.ToUpper(rm.B32Encode(x))
				if r.Chance(1, 2) {
					s = rm.B64Encode(x)
				}
			} else {
				s = strings.NewReplacer("-", "+", "~", "/").Replace(rm.B64Encode(x))
				if r.Chance(1, 2) {
					s = rm.B32Encode(x)
				}
			}
		}
		c13Judge(c, d, s, []string{"arbitrary", "one-foreign-byte", "crlf-inserted", "padding", "symbols", "other-alphabet"}[(i/len(decs))%6])
	})
	// every single byte value at every position of an otherwise canonical string of more than one
	// quantum (the standard decoders treat some bytes differently near the end of the input),
	// for every decoder
	probe := []byte("0123456789abcdef0123") // 20 bytes: 32 base32 symbols, 27 base64 symbols + 1 pad
	c.Job("every-byte-value-every-position", 256*len(decs), func(i int, r *core.Rand) {
		d := decs[i%len(decs)]
		ch := byte(i / len(decs))
		e := []byte(encodeFor(d, probe))
		for pos := 0; pos < len(e); pos++ {
			x := append([]byte{}, e...)
			x[pos] = ch
			c13Judge(c, d, string(x), "every-byte-value")
			// the same string followed by line breaks, which the decoders skip: the verdict
			// must not depend on how far a byte is from the end of the raw string
			c13Judge(c, d, string(x)+"\n\n\n\n\n\n\n\n\n", "every-byte-value+trailing-lf")
			c13Judge(c, d, string(x)+"\r\n\r\n\r\n\r\n", "every-byte-value+trailing-crlf")
		}
	})
	c.Exhaustive("each of the 256 byte values substituted at every position of a canonical multi-quantum encoding, for every decoder")

	// data after the padding at every offset up to several KiB (a decoder that works in chunks
	// applies "nothing follows the padding" per chunk): a padded encoding of n bytes followed by a
	// second encoding, for every n that needs padding
	c.Job("data-after-padding-at-every-offset", 4600, func(i int, r *core.Rand) {
		n := i + 1
		x, y := r.Bytes(n), r.Bytes(1+r.Pick(9))
		for _, d := range decs {
			if !d.padded {
				continue
			}
			e := encodeFor(d, x)
			if !strings.HasSuffix(e, "=") {
				continue
			}
			c13Judge(c, d, e+encodeFor(d, y), "data-after-padding")
			if i%8 == 0 {
				c13Judge(c, d, e+"\r\n"+encodeFor(d, y), "data-after-padding+crlf")
			}
		}
	})
	c.Exhaustive("a padded encoding of n bytes followed by a second encoding, every n in 1..4600 that needs padding, every padded decoder")

	// a foreign byte (or a multi-byte white-space character) INSERTED into a canonical encoding that
	// also contains line breaks: the decoders skip CR and LF and nothing else
	inserts := [][]byte{{0xC2, 0x85}, {0xC2, 0xA0}, {0xE2, 0x80, 0xA8}, {0xE2, 0x80, 0xA9}, {0xE3, 0x80, 0x80}, {0xE2, 0x80, 0x83}, {0xEF, 0xBB, 0xBF}}
	for b := 0; b < 256; b++ {
		inserts = append(inserts, []byte{byte(b)})
	}
	c.Job("inserted-bytes-with-line-breaks", len(inserts)*len(decs)*c.N(2, 20), func(i int, r *core.Rand) {
		d := decs[i%len(decs)]
		ins := inserts[(i/len(decs))%len(inserts)]
		e := encodeFor(d, r.Bytes(3+r.Pick(40)))
		for _, brk := range []string{"", "\n", "\r\n"} {
			pos := r.Pick(len(e) + 1)
			bp := r.Pick(len(e) + 1)
			var sb strings.Builder
			for j := 0; j <= len(e); j++ {
				if j == bp {
					sb.WriteString(brk)
				}
				if j == pos {
					sb.Write(ins)
				}
				if j < len(e) {
					sb.WriteByte(e[j])
				}
			}
			c13Judge(c, d, sb.String(), "inserted-byte")
			c13Judge(c, d, sb.String()+brk, "inserted-byte")
			// ... and at the very start and the very end (what a trimming decoder would strip)
			c13Judge(c, d, string(ins)+e+brk, "inserted-byte-at-start")
			c13Judge(c, d, e+brk+string(ins), "inserted-byte-at-end")
			c13Judge(c, d, string(ins)+brk+e+string(ins), "inserted-byte-at-both-ends")
		}
	})

	// text that surrounds base32 / base64 strings where they occur in practice (host-name suffixes,
	// URL parts, address-book syntax, escapes, labels): as prefix, as suffix and as both, around
	// canonical encodings of the sizes that occur (nothing, a hash, an identity) - a decoder that
	// strips what it "knows" accepts characters outside the alphabet
	decor := []string{".b32.i2p", ".i2p", "b32.i2p", ".b32", ".B32.I2P", ".I2P", ".b32.i2p.", ".b32.i2p\n", ".b32.i2p ", ".onion", "http://", "https://", "i2p://", "b32:", "b64:", "base32:", "base64:",
		"/", ":", "?", "&", "#", "%3D", "%3d", "%0A", "%20", "=", "==", "===", "======", "~", "-", "+", "_", ".", ",", ";", "\"", "'", "<", ">", "[", "]", "(", ")", "{", "}", "0x", "\\n", "\\",
		" ", "\t", "\x00", "\v", "\f", "\u00a0", "\ufeff", "=\n", "\n=", "AAAA", "aaaa", "host=", "&i2paddresshelper=", "?i2paddresshelper=", ".b32.i2p:80", ".b32.i2p/", "@", "!", "$", "*", "|", "^", "`"}
	sizes := []int{0, 1, 2, 3, 4, 5, 16, 20, 32, 33, 35, 64, 387, 391}
	c.Job("surrounding-text", len(decor)*len(decs)*c.N(1, 6), func(i int, r *core.Rand) {
		d := decs[i%len(decs)]
		tok := decor[(i/len(decs))%len(decor)]
		for _, n := range sizes {
			e := encodeFor(d, r.Bytes(n))
			c13Judge(c, d, e+tok, "surrounding-text/suffix")
			c13Judge(c, d, tok+e, "surrounding-text/prefix")
			c13Judge(c, d, tok+e+tok, "surrounding-text/both")
			if len(e) > 2 {
				k := 1 + r.Pick(len(e)-1)
				c13Judge(c, d, e[:k]+tok+e[k:], "surrounding-text/inside")
			}
		}
	})

	// the encoders are functions of the CONTENT of their argument: the caller refills the same
	// buffer and encodes again (every length up to 80, where a cache of "the last input" would sit)
	c.Job("same-buffer-refilled", 81*c.N(2, 20), func(i int, r *core.Rand) {
		n := i % 81
		buf := r.Bytes(n)
		c.Eval(1)
		for round := 0; round < 3; round++ {
			want32, want32n, want64 := rm.B32Encode(buf), rm.B32EncodeNoPad(buf), rm.B64Encode(buf)
			got := []string{base32.EncodeToString(buf), base32.EncodeToStringNoPadding(buf), base64.EncodeToString(buf)}
			if n > 0 {
				s1, _ := base32.EncodeToStringSafe(buf)
				s2, _ := base64.EncodeToStringSafe(buf)
				got = append(got, s1, s2)
			}
			for k, w := range []string{want32, want32n, want64, want32, want64}[:len(got)] {
				if got[k] != w {
					c.Violate([]string{"base32.EncodeToString", "base32.EncodeToStringNoPadding", "base64.EncodeToString", "base32.EncodeToStringSafe", "base64.EncodeToStringSafe"}[k],
						"differs-from-bit-level-encoder", gen.Shape{"len": n, "class": "same-buffer-refilled", "round": round}, buf, fmt.Sprintf("%q, expected %q", got[k], w))
				}
			}
			copy(buf, r.Bytes(n)) // the same backing array, other content
		}
		c.Nontrivial([]byte("refill"), []byte(fmt.Sprint(i)))
	})

	// every input length: canonical encodings of 0..90 bytes with 1..4 line breaks ("\n" and "\r\n")
	// at arbitrary places, so that every total string length up to ~150 occurs with every number of
	// symbols that can produce it (a fast path keyed on the raw length must still skip line breaks)
	c.Job("line-breaks-at-every-total-length", 91*4*2*c.N(3, 30), func(i int, r *core.Rand) {
		n := i % 91
		k := 1 + (i/91)%4
		brk := []string{"\n", "\r\n"}[(i/364)%2]
		x := r.Bytes(n)
		for _, d := range decs {
			e := encodeFor(d, x)
			cut := make([]int, k)
			for j := range cut {
				cut[j] = r.Pick(len(e) + 1)
			}
			var sb strings.Builder
			for j := 0; j <= len(e); j++ {
				for _, cj := range cut {
					if cj == j {
						sb.WriteString(brk)
					}
				}
				if j < len(e) {
					sb.WriteByte(e[j])
				}
			}
			c13Judge(c, d, sb.String(), fmt.Sprintf("line-breaks/total-%d", sb.Len()))
		}
	})

	// size-guarded variants at their documented limits
	c.Job("limits", 1, func(i int, r *core.Rand) {
		c.Eval(1)
		big := make([]byte, base32.MAX_ENCODE_SIZE+1)
		for j := range big {
			big[j] = byte(j * 31)
		}
		if _, err := base32.EncodeToStringSafe(nil); err == nil {
			c.Violate("base32.EncodeToStringSafe", "empty-accepted", nil, nil, "")
		}
		if _, err := base64.EncodeToStringSafe(nil); err == nil {
			c.Violate("base64.EncodeToStringSafe", "empty-accepted", nil, nil, "")
		}
		for _, f := range []struct {
			site string
			fn   func(string) ([]byte, error)
		}{{"base32.DecodeStringSafe", base32.DecodeStringSafe}, {"base32.DecodeStringSafeNoPadding", base32.DecodeStringSafeNoPadding}, {"base64.DecodeStringSafe", base64.DecodeStringSafe}} {
			if _, err := f.fn(""); err == nil {
				c.Violate(f.site, "empty-accepted", nil, nil, "")
			}
		}
		s32, err := base32.EncodeToStringSafe(big[:base32.MAX_ENCODE_SIZE])
		if err != nil {
			c.Violate("base32.EncodeToStringSafe", "limit-size-rejected", gen.Shape{"len": base32.MAX_ENCODE_SIZE}, nil, err.Error())
		} else if d, err := base32.DecodeStringSafe(s32); err != nil || !bytes.Equal(d, big[:base32.MAX_ENCODE_SIZE]) {
			c.Violate("base32.DecodeStringSafe", "limit-size-rejected", gen.Shape{"len": len(s32)}, nil, fmt.Sprint(err))
		}
		if _, err := base32.EncodeToStringSafe(big); err == nil {
			c.Violate("base32.EncodeToStringSafe", "oversize-accepted", gen.Shape{"len": len(big)}, nil, "")
		}
		s64, err := base64.EncodeToStringSafe(big[:base64.MAX_ENCODE_SIZE])
		if err != nil {
			c.Violate("base64.EncodeToStringSafe", "limit-size-rejected", gen.Shape{"len": base64.MAX_ENCODE_SIZE}, nil, err.Error())
		} else if d, err := base64.DecodeStringSafe(s64); err != nil || !bytes.Equal(d, big[:base64.MAX_ENCODE_SIZE]) {
			c.Violate("base64.DecodeStringSafe", "limit-size-rejected", gen.Shape{"len": len(s64)}, nil, fmt.Sprint(err))
		}
		if _, err := base64.EncodeToStringSafe(big); err == nil {
			c.Violate("base64.EncodeToStringSafe", "oversize-accepted", gen.Shape{"len": len(big)}, nil, "")
		}
		// decode limits: exactly MAX_DECODE_SIZE characters accepted (when well-formed), +1 rejected
		mk := func(n int, alphabet string) string { return strings.Repeat(string(alphabet[0]), n) }
		if _, err := base32.DecodeStringSafeNoPadding(mk(base32.MAX_DECODE_SIZE+1, rm.B32Alphabet)); err == nil {
			c.Violate("base32.DecodeStringSafeNoPadding", "oversize-accepted", gen.Shape{"len": base32.MAX_DECODE_SIZE + 1}, nil, "")
		}
		if _, err := base32.DecodeStringSafe(mk(base32.MAX_DECODE_SIZE+1, rm.B32Alphabet)); err == nil {
			c.Violate("base32.DecodeStringSafe", "oversize-accepted", gen.Shape{"len": base32.MAX_DECODE_SIZE + 1}, nil, "")
		}
		if _, err := base64.DecodeStringSafe(mk(base64.MAX_DECODE_SIZE+4, rm.B64Alphabet)); err == nil {
			c.Violate("base64.DecodeStringSafe", "oversize-accepted", gen.Shape{"len": base64.MAX_DECODE_SIZE + 4}, nil, "")
		}
		// exactly the limit is accepted by every guarded decoder (a well-formed string of that length)
		if d, err := base32.DecodeStringSafeNoPadding(mk(base32.MAX_DECODE_SIZE, rm.B32Alphabet)); err != nil || len(d) != base32.MAX_DECODE_SIZE/8*5 {
			c.Violate("base32.DecodeStringSafeNoPadding", "limit-size-rejected", gen.Shape{"len": base32.MAX_DECODE_SIZE}, nil, fmt.Sprint(err))
		}
		if d, err := base32.DecodeStringSafe(mk(base32.MAX_DECODE_SIZE, rm.B32Alphabet)); err != nil || len(d) != base32.MAX_DECODE_SIZE/8*5 {
			c.Violate("base32.DecodeStringSafe", "limit-size-rejected", gen.Shape{"len": base32.MAX_DECODE_SIZE}, nil, fmt.Sprint(err))
		}
		if base64.MAX_DECODE_SIZE%4 == 0 {
			if d, err := base64.DecodeStringSafe(mk(base64.MAX_DECODE_SIZE, rm.B64Alphabet)); err != nil || len(d) != base64.MAX_DECODE_SIZE/4*3 {
				c.Violate("base64.DecodeStringSafe", "limit-size-rejected", gen.Shape{"len": base64.MAX_DECODE_SIZE}, nil, fmt.Sprint(err))
			}
		}
		// the unguarded unpadded decoder has no limit and accepts the empty string
		if d, err := base32.DecodeStringNoPadding(""); err != nil || len(d) != 0 {
			c.Violate("base32.DecodeStringNoPadding", "canonical-encoding-rejected-or-differs", gen.Shape{"len": 0}, nil, fmt.Sprint(err))
		}
		if d, err := base32.DecodeStringNoPadding(mk(base32.MAX_DECODE_SIZE+8, rm.B32Alphabet)); err != nil || len(d) != (base32.MAX_DECODE_SIZE+8)/8*5 {
			c.Violate("base32.DecodeStringNoPadding", "canonical-encoding-rejected-or-differs", gen.Shape{"len": base32.MAX_DECODE_SIZE + 8}, nil, fmt.Sprint(err))
		}
		// the limit is on the length of the INPUT: line breaks count, although they decode to nothing
		for _, f := range []struct {
			site  string
			fn    func(string) ([]byte, error)
			max   int
			alpha string
		}{{"base32.DecodeStringSafe", base32.DecodeStringSafe, base32.MAX_DECODE_SIZE, rm.B32Alphabet}, {"base32.DecodeStringSafeNoPadding", base32.DecodeStringSafeNoPadding, base32.MAX_DECODE_SIZE, rm.B32Alphabet},
			{"base64.DecodeStringSafe", base64.DecodeStringSafe, base64.MAX_DECODE_SIZE, rm.B64Alphabet}} {
			if _, err := f.fn(mk(f.max, f.alpha) + "\n"); err == nil {
				c.Violate(f.site, "oversize-accepted", gen.Shape{"len": f.max + 1, "class": "limit characters followed by a line break"}, nil, "")
			}
			if _, err := f.fn(strings.Repeat("\n", f.max+1)); err == nil {
				c.Violate(f.site, "oversize-accepted", gen.Shape{"len": f.max + 1, "class": "only line breaks"}, nil, "")
			}
			if _, err := f.fn(" " + mk(f.max, f.alpha)); err == nil {
				c.Violate(f.site, "oversize-accepted", gen.Shape{"len": f.max + 1, "class": "leading space"}, nil, "")
			}
		}
		if len(s32) <= base32.MAX_DECODE_SIZE+8 { // the encoding of MAX_ENCODE_SIZE bytes is within the decode limit (checked above by decoding it)
			c.Bucket("limits-checked")
		}
		c.Nontrivial([]byte("limits"), []byte{1})
		c.Nontrivial([]byte("limits"), []byte{2})
	})
}

func encodeFor(d decoder, x []byte) string {
	switch {
	case d.width == 6:
		return rm.B64Encode(x)
	case d.padded:
		return rm.B32Encode(x)
	default:
		return rm.B32EncodeNoPad(x)
	}
}
