package mon

import (
	stded25519 "crypto/ed25519"
	"fmt"
	"go.step.sm/crypto/x25519"
	"runtime"

	"github.com/go-i2p/common/encrypted_leaseset"
	"github.com/go-i2p/common/lease_set"
	"github.com/go-i2p/common/lease_set2"
	"github.com/go-i2p/common/offline_signature"
	"github.com/go-i2p/common/router_info"

	"verifharness/core"
	"verifharness/gen"
	"verifharness/lib"
	rm "verifharness/refmodel"
)

// C06 — whatever the library signs it also verifies, before and after the wire.
func init() { register("C06", runC06) }

// c06Outcome evaluates one constructor output.
//
//	verify1: Verify() of the constructed value; ser: its bytes; reparse: parse + Verify().
func c06Outcome(c *core.Ctx, site string, sh gen.Shape, subject any, verify1 func() error, ser func() ([]byte, error), reparse func(b []byte) (remLen int, verr error, perr error)) {
	c.Nontrivial([]byte(site), []byte(fmt.Sprint(sh)), []byte(fmt.Sprint(c.Summary().Evaluations)))
	var v1 error
	panicked, _, _ := c.Call(site+".Verify", nil, func() { v1 = verify1() })
	if panicked {
		return
	}
	if v1 != nil {
		c.Violate(site, "constructed-does-not-verify", sh, nil, firstLineOf(v1.Error()))
		return
	}
	// querying the value (every argument-free accessor) must not change what it verifies as
	if subject != nil {
		c.Call(site+".accessors", nil, func() { lib.Observe(subject, lib.ObserveOpts{Depth: 1}) })
		var v2 error
		if p, _, _ := c.Call(site+".Verify(again)", nil, func() { v2 = verify1() }); !p && v2 != nil {
			c.Violate(site, "does-not-verify-after-being-queried", sh, nil, firstLineOf(v2.Error()))
			return
		}
	}
	b, err := ser()
	if err != nil {
		c.Violate(site, "constructed-does-not-serialise", sh, nil, firstLineOf(err.Error()))
		return
	}
	var remLen int
	var verr, perr error
	panicked, _, _ = c.Call(site+".reparse", b, func() { remLen, verr, perr = reparse(b) })
	if panicked {
		return
	}
	if perr != nil {
		c.Violate(site, "constructed-bytes-rejected-by-parser", sh, b, firstLineOf(perr.Error()))
		return
	}
	if remLen != 0 {
		c.Violate(site, "constructed-bytes-leave-remainder", sh, b, fmt.Sprintf("%d bytes left", remLen))
		return
	}
	if verr != nil {
		c.Violate(site, "does-not-verify-after-wire", sh, b, firstLineOf(verr.Error()))
		return
	}
	c.Bucket("verified-before-and-after-wire/" + site)
	c.Sample(gen.Shape{"op": site, "shape": sh, "len": len(b)})
}

func boolErr(ok bool, err error) error {
	if err != nil {
		return err
	}
	if !ok {
		return fmt.Errorf("verification returned false")
	}
	return nil
}

func runC06(c *core.Ctx) {
	n := c.N(400, 12000)

	// --- RouterInfo (the library signs with Ed25519 only)
	c.Job("NewRouterInfo", n, func(i int, r *core.Rand) {
		key, _ := rm.NewSigKey(7, r)
		priv, _ := lib.LibSigningPrivateKey(key)
		m, sh := gen.RouterInfo(r)
		var ish gen.Shape
		m.Ident, ish = identWithKey(r, key, rm.IdentCryptoTypes)
		sh["crypto"], sh["cert"] = ish["crypto"], ish["cert"]
		m.Published &= 1<<62 - 1
		switch i % 8 {
		case 0:
			m.Addrs = nil
		case 1:
			for len(m.Addrs) < 60 {
				m.Addrs = append(m.Addrs, gen.RouterAddress(r))
			}
		case 2:
			m.Options = rm.Mapping{Pairs: []rm.Pair{{K: []byte("a"), V: []byte{}}}}
		case 3:
			m.Options = gen.Mapping(r, 40)
		case 4:
			// boundary timestamps: the epoch itself (the all-zero Date), one millisecond after it
			m.Published = uint64(i/8) % 2
			sh["published"] = int(m.Published)
		}
		for j := range m.Addrs {
			if len(m.Addrs[j].Style) == 0 {
				m.Addrs[j].Style = []byte("NTCP2")
			}
		}
		sh["addrs"], sh["opts"], sh["sig"] = len(m.Addrs), len(m.Options.Pairs), 7
		c.Eval(1)
		var ri *router_info.RouterInfo
		var ok bool
		var err error
		panicked, _, _ := c.Call("router_info.NewRouterInfo", nil, func() { ri, ok, err = lib.BuildRouterInfo(m, priv, i%2) })
		if panicked || !ok {
			return
		}
		c.OpResult("router_info.NewRouterInfo", err == nil)
		if err != nil {
			return
		}
		c06Outcome(c, "router_info.NewRouterInfo", sh, ri,
			func() error { return boolErr(ri.VerifySignature()) },
			func() ([]byte, error) { return ri.Bytes() },
			func(b []byte) (int, error, error) {
				p, rem, perr := router_info.ReadRouterInfo(b)
				if perr != nil {
					return 0, nil, perr
				}
				return len(rem), boolErr(p.VerifySignature()), nil
			})
	})

	// --- LeaseSet: every signer type NewLeaseSet accepts
	for _, st := range []int{7, 11, 0, 1} {
		st := st
		c.Job(fmt.Sprintf("NewLeaseSet/sig%d", st), n, func(i int, r *core.Rand) {
			key, _ := rm.NewSigKey(st, r)
			priv, err := lib.LibSigningPrivateKey(key)
			if err != nil {
				return
			}
			m, sh := gen.LeaseSet(r)
			var ish gen.Shape
			m.Dest, ish = identWithKey(r, key, rm.IdentCryptoTypes)
			sh["sig"], sh["crypto"], sh["cert"] = ish["sig"], ish["crypto"], ish["cert"]
			pl, _ := rm.SigPubLen(st)
			m.SigningKey = r.Bytes(pl)
			if st == 0 {
				gen.DSAInRange(m.SigningKey)
			}
			for j := range m.Leases {
				m.Leases[j].EndMs &= 1<<62 - 1
			}
			c.Eval(1)
			var ls *lease_set.LeaseSet
			var ok bool
			panicked, _, _ := c.Call("lease_set.NewLeaseSet", nil, func() { ls, ok, err = lib.BuildLeaseSet(m, priv) })
			if panicked || !ok {
				return
			}
			c.OpResult("lease_set.NewLeaseSet", err == nil)
			if err != nil {
				c.Bucket("constructor-error/NewLeaseSet/" + firstLineOf(err.Error()))
				return
			}
			c06Outcome(c, "lease_set.NewLeaseSet", sh, ls,
				func() error { return ls.Verify() },
				func() ([]byte, error) { return ls.Bytes() },
				func(b []byte) (int, error, error) {
					p, perr := lease_set.ReadLeaseSet(b)
					if perr != nil {
						return 0, nil, perr
					}
					return 0, p.Verify(), nil
				})
		})
	}

	// --- LeaseSet2, with and without offline keys
	for _, st := range []int{7, 11, 0} {
		for _, off := range []bool{false, true} {
			st, off := st, off
			c.Job(fmt.Sprintf("NewLeaseSet2/sig%d-offline%v", st, off), n, func(i int, r *core.Rand) {
				key, _ := rm.NewSigKey(st, r)
				m, sh := gen.LeaseSet2(r)
				var ish gen.Shape
				m.Dest, ish = identWithKey(r, key, rm.IdentCryptoTypes)
				sh["sig"], sh["crypto"], sh["cert"] = ish["sig"], ish["crypto"], ish["cert"]
				m.Offline, m.Flags = nil, m.Flags&6
				signer := key
				if off {
					// every transient type the library can sign with (Ed25519, RedDSA, DSA-SHA1, Ed25519ph)
					tt := []int{7, 11, 0, 8}[i%4]
					o, tk := offlineFor(r, key, tt)
					m.Offline, signer = &o, tk
					m.Flags |= 1
					sh["transient"] = tt
				}
				sh["offline"] = off
				if len(m.Leases) == 0 {
					m.Leases = []rm.Lease2{gen.Lease2(r)}
				}
				// keys the validator accepts
				for j := range m.Keys {
					if n, ok := rm.CryptoLen(int(m.Keys[j].Type)); ok {
						m.Keys[j].Data = r.Bytes(n)
					}
				}
				priv, _ := lib.LibSigningPrivateKey(signer)
				// every representation of the signing key the constructor documents: the library's
				// private-key type, a Signer made from it, the standard library's ed25519.PrivateKey
				var keyArg any = priv
				sh["key_repr"] = "types.SigningPrivateKey"
				if signer.Type == 7 && priv != nil {
					switch (i / 4) % 3 {
					case 1:
						if sg, err := priv.NewSigner(); err == nil {
							keyArg = sg
							sh["key_repr"] = "types.Signer"
						}
					case 2:
						keyArg = stded25519.PrivateKey(append([]byte{}, signer.Ed25519Private()...))
						sh["key_repr"] = "crypto/ed25519.PrivateKey"
					}
				}
				// 16 keys / 16 leases: the largest counts the structure admits
				if i%16 == 5 {
					for len(m.Leases) < 16 {
						m.Leases = append(m.Leases, gen.Lease2(r))
					}
					sh["leases"] = 16
				}
				if i%32 == 7 {
					// a key of a type the library does not know, as long as the two-byte key length allows
					m.Keys = append(m.Keys, rm.EncKey{Type: []uint16{255, 65280, 65535}[r.Pick(3)], Data: r.Bytes(65535 - r.Pick(5))})
					sh["long_unknown_key"] = true
				}
				if i%16 == 11 {
					for len(m.Keys) < 16 {
						m.Keys = append(m.Keys, rm.EncKey{Type: 4, Data: r.Bytes(32)})
					}
					sh["keys"] = 16
				}
				c.Eval(1)
				var ls *lease_set2.LeaseSet2
				var ok bool
				var err error
				panicked, _, _ := c.Call("lease_set2.NewLeaseSet2", nil, func() { ls, ok, err = lib.BuildLeaseSet2(m, keyArg) })
				if panicked || !ok {
					return
				}
				c.OpResult("lease_set2.NewLeaseSet2", err == nil)
				if err != nil {
					return
				}
				c06Outcome(c, "lease_set2.NewLeaseSet2", sh, ls,
					func() error { return ls.Verify() },
					func() ([]byte, error) { return ls.Bytes() },
					func(b []byte) (int, error, error) {
						p, rem, perr := lease_set2.ReadLeaseSet2(b)
						if perr != nil {
							return 0, nil, perr
						}
						return len(rem), p.Verify(), nil
					})
				// the other wire a LeaseSet2 travels on: encrypted inside an EncryptedLeaseSet. What the
				// recipient decrypts verifies like the original (and keeps verifying after a further call)
				if i%3 == 0 && ls.Verify() == nil {
					priv, pub, _ := rm.X25519KeyPair(r.Bytes(32))
					var cookie [32]byte
					copy(cookie[:], r.Bytes(32))
					var inner *lease_set2.LeaseSet2
					var derr error
					p, _, _ := c.Call("encrypted_leaseset.DecryptInnerData(signed LeaseSet2)", nil, func() {
						blob, err := encrypted_leaseset.EncryptInnerLeaseSet2(ls, cookie, x25519.PublicKey(pub))
						if err != nil {
							derr = err
							return
						}
						els, err := elsWith(blob)
						if err != nil {
							derr = err
							return
						}
						inner, derr = els.DecryptInnerData(cookie[:], x25519.PrivateKey(priv))
					})
					if !p && derr == nil && inner != nil {
						c.Eval(1)
						verr := inner.Verify()
						if verr == nil {
							rm.X25519KeyPair(r.Bytes(32)) // unrelated work in between
							runtime.GC()
							verr = inner.Verify()
						}
						if verr != nil {
							c.Violate("lease_set2.NewLeaseSet2", "does-not-verify-after-wire", sh, nil, "signed LeaseSet2 encrypted into an EncryptedLeaseSet and decrypted again: "+firstLineOf(verr.Error()))
						} else {
							c.Bucket("verified-after-encrypted-wire/lease_set2.NewLeaseSet2")
						}
					}
				}
			})
		}
	}

	// --- EncryptedLeaseSet: both constructors, every accepted key representation, offline keys
	for _, st := range []int{7, 11, 8} {
		for _, off := range []bool{false, true} {
			st, off := st, off
			c.Job(fmt.Sprintf("NewEncryptedLeaseSet/sig%d-offline%v", st, off), n, func(i int, r *core.Rand) {
				key, _ := rm.NewSigKey(st, r)
				m, sh := gen.EncryptedLeaseSet(r)
				m.SigType, m.BlindedKey = uint16(st), key.Pub
				m.Offline, m.Flags = nil, m.Flags&2
				signer := key
				if off && st == 8 {
					// no offline block for an Ed25519ph identity: the library's CreateOfflineSignature
					// refuses that identity type, so there is nothing the LIBRARY signed to judge
					// (a block made by the reference with real Ed25519ph is not the library's output)
					return
				}
				if off {
					o, tk := offlineFor(r, key, []int{7, 11, 8}[i%3])
					m.Offline, signer = &o, tk
					m.Flags |= 1
				}
				sh["sig"], sh["offline"] = st, off
				var sk any
				switch i % 4 {
				case 0:
					sk = signer.Ed25519Private()
				case 1:
					var a [64]byte
					copy(a[:], signer.Ed25519Private())
					sk = a
				case 2:
					sk = []byte(signer.Ed25519Private())
				default:
					p, _ := lib.LibSigningPrivateKey(signer)
					sk = p
				}
				sh["keyrepr"] = i % 4
				c.Eval(1)
				var els *encrypted_leaseset.EncryptedLeaseSet
				var err error
				site := "encrypted_leaseset.NewEncryptedLeaseSet"
				panicked, _, _ := c.Call(site, nil, func() {
					if i%3 == 2 {
						site = "encrypted_leaseset.NewEncryptedLeaseSetFromDestination"
						d, sh2 := gen.KACOf(r, st, 4)
						_ = sh2
						copy(d.Block[384-32:], key.Pub)
						dest, ok, derr := lib.BuildDestination(d)
						if !ok || derr != nil {
							err = fmt.Errorf("destination: %v", derr)
							return
						}
						var offp *offline_signature.OfflineSignature
						if m.Offline != nil {
							o, oerr := lib.BuildOffline(*m.Offline, st)
							if oerr != nil {
								err = oerr
								return
							}
							offp = &o
						}
						els, err = encrypted_leaseset.NewEncryptedLeaseSetFromDestination(*dest, m.Published, m.Expires, m.Flags, offp, m.Inner, sk)
						return
					}
					els, err = lib.BuildEncryptedLeaseSet(m, sk)
				})
				if panicked {
					return
				}
				c.OpResult(site, err == nil)
				if err != nil {
					c.Bucket("constructor-error/" + site)
					return
				}
				c06Outcome(c, site, sh, els,
					func() error { return els.Verify() },
					func() ([]byte, error) { return els.Bytes() },
					func(b []byte) (int, error, error) {
						p, rem, perr := encrypted_leaseset.ReadEncryptedLeaseSet(b)
						if perr != nil {
							return 0, nil, perr
						}
						return len(rem), p.Verify(), nil
					})
			})
		}
	}

	// --- CreateOfflineSignature
	c.Job("CreateOfflineSignature", n, func(i int, r *core.Rand) {
		dt := []int{7, 11, 8}[i%3]
		tt := []int{7, 11, 0, 1, 2, 3, 4, 5, 6, 8}[(i/3)%10]
		key, _ := rm.NewSigKey(dt, r)
		kl, _ := rm.SigPubLen(tt)
		tkey := r.Bytes(kl)
		exp := r.Uint32() | 1
		sh := gen.Shape{"dest_sig": dt, "transient": tt}
		c.Eval(1)
		var os offline_signature.OfflineSignature
		var err error
		site := "offline_signature.CreateOfflineSignature"
		panicked, _, _ := c.Call(site, nil, func() {
			os, err = offline_signature.CreateOfflineSignature(exp, uint16(tt), tkey, key.Ed25519Private(), uint16(dt))
		})
		if panicked {
			return
		}
		c.OpResult(site, err == nil)
		if err != nil {
			c.Bucket(fmt.Sprintf("constructor-error/CreateOfflineSignature/dest%d", dt))
			return
		}
		c06Outcome(c, site, sh, &os,
			func() error { return boolErr(os.VerifySignature(key.Pub)) },
			func() ([]byte, error) { return os.Bytes(), nil },
			func(b []byte) (int, error, error) {
				p, rem, perr := offline_signature.ReadOfflineSignature(b, uint16(dt))
				if perr != nil {
					return 0, nil, perr
				}
				return len(rem), boolErr(p.VerifySignature(key.Pub)), nil
			})
	})
}
