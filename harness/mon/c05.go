package mon

import (
	"bytes"
	"fmt"

	"github.com/go-i2p/common/encrypted_leaseset"
	"github.com/go-i2p/common/lease_set"
	"github.com/go-i2p/common/lease_set2"
	"github.com/go-i2p/common/meta_leaseset"
	"github.com/go-i2p/common/offline_signature"
	"github.com/go-i2p/common/router_info"

	"verifharness/core"
	"verifharness/gen"
	"verifharness/lib"
	rm "verifharness/refmodel"
)

// C05 — successful verification implies authenticity under the identity's own key.
func init() { register("C05", runC05) }

type verifyAdapter struct {
	kind string
	site string
	// lib parses in and, when parsing succeeds, verifies. consumed is the number of bytes the
	// parser consumed (-1 when the entry point has no remainder).
	lib func(in []byte) (parsed bool, verified bool, consumed int)
	ref func(in []byte) (rm.VerifyResult, error)
}

var verifyAdapters = map[string]verifyAdapter{
	"rinfo": {"rinfo", "router_info.RouterInfo.VerifySignature", func(in []byte) (bool, bool, int) {
		ri, rem, err := router_info.ReadRouterInfo(in)
		if err != nil {
			return false, false, 0
		}
		ok, verr := ri.VerifySignature()
		return true, ok && verr == nil, len(in) - len(rem)
	}, rm.VerifyRouterInfoBytes},
	"leaseset": {"leaseset", "lease_set.LeaseSet.Verify", func(in []byte) (bool, bool, int) {
		ls, err := lease_set.ReadLeaseSet(in)
		if err != nil {
			return false, false, 0
		}
		return true, ls.Verify() == nil, -1
	}, rm.VerifyLeaseSetBytes},
	"leaseset2": {"leaseset2", "lease_set2.LeaseSet2.Verify", func(in []byte) (bool, bool, int) {
		ls, rem, err := lease_set2.ReadLeaseSet2(in)
		if err != nil {
			return false, false, 0
		}
		return true, ls.Verify() == nil, len(in) - len(rem)
	}, rm.VerifyLeaseSet2Bytes},
	"metaleaseset": {"metaleaseset", "meta_leaseset.MetaLeaseSet.Verify", func(in []byte) (bool, bool, int) {
		ls, rem, err := meta_leaseset.ReadMetaLeaseSet(in)
		if err != nil {
			return false, false, 0
		}
		return true, ls.Verify() == nil, len(in) - len(rem)
	}, rm.VerifyMetaLeaseSetBytes},
	"encleaseset": {"encleaseset", "encrypted_leaseset.EncryptedLeaseSet.Verify", func(in []byte) (bool, bool, int) {
		ls, rem, err := encrypted_leaseset.ReadEncryptedLeaseSet(in)
		if err != nil {
			return false, false, 0
		}
		return true, ls.Verify() == nil, len(in) - len(rem)
	}, rm.VerifyEncryptedLeaseSetBytes},
}

// heldValue is a parsed signed structure the caller keeps: the value itself (a pointer), its
// verification and its serialisation.
type heldValue struct {
	val    any
	verify func() bool
	ser    func() ([]byte, error)
}

var holdAdapters = map[string]func(in []byte) (heldValue, bool){
	"rinfo": func(in []byte) (heldValue, bool) {
		v, _, err := router_info.ReadRouterInfo(in)
		return heldValue{&v, func() bool { ok, e := v.VerifySignature(); return ok && e == nil }, func() ([]byte, error) { return v.Bytes() }}, err == nil
	},
	"leaseset": func(in []byte) (heldValue, bool) {
		v, err := lease_set.ReadLeaseSet(in)
		return heldValue{&v, func() bool { return v.Verify() == nil }, func() ([]byte, error) { return v.Bytes() }}, err == nil
	},
	"leaseset2": func(in []byte) (heldValue, bool) {
		v, _, err := lease_set2.ReadLeaseSet2(in)
		return heldValue{&v, func() bool { return v.Verify() == nil }, func() ([]byte, error) { return v.Bytes() }}, err == nil
	},
	"metaleaseset": func(in []byte) (heldValue, bool) {
		v, _, err := meta_leaseset.ReadMetaLeaseSet(in)
		return heldValue{&v, func() bool { return v.Verify() == nil }, func() ([]byte, error) { return v.Bytes() }}, err == nil
	},
	"encleaseset": func(in []byte) (heldValue, bool) {
		v, _, err := encrypted_leaseset.ReadEncryptedLeaseSet(in)
		return heldValue{&v, func() bool { return v.Verify() == nil }, func() ([]byte, error) { return v.Bytes() }}, err == nil
	},
}

// c05Edited: a value that verified is then EDITED by its holder through the public surface
// (exported fields, what accessors hand out, RouterInfo.AddAddress). Whenever verification still
// reports success afterwards, the signature must be valid over what the value now serialises to -
// success that survives a change of content is success over bytes the value no longer is.
func c05Edited(c *core.Ctx, va verifyAdapter, sc signedCase, r *core.Rand) {
	hold := holdAdapters[va.kind]
	if hold == nil {
		return
	}
	for mode := 0; mode < 3; mode++ {
		if mode == 2 && va.kind != "rinfo" {
			continue
		}
		var hv heldValue
		var parsed, before, after bool
		var edits int
		var b []byte
		var serr error
		quiet := func(f func()) (panicked bool) {
			defer func() {
				if recover() != nil {
					panicked = true
				}
			}()
			f()
			return false
		}
		// a value its holder has damaged may do anything but report success: panics are not judged here
		if quiet(func() {
			hv, parsed = hold(sc.bytes)
			if !parsed {
				return
			}
			before = hv.verify()
			if !before {
				return
			}
			switch mode {
			case 0:
				edits = lib.ScribbleExported(hv.val)
			case 1:
				edits = lib.ScribbleViaAccessors(hv.val)
			default:
				ri := hv.val.(*router_info.RouterInfo)
				for try := 0; try < 12 && edits == 0; try++ {
					if ra, err := lib.BuildRouterAddress(gen.RouterAddress(r)); err == nil && ra != nil && ri.AddAddress(ra) == nil {
						edits = 1
					}
				}
			}
			if edits == 0 {
				return
			}
			after = hv.verify()
			if after {
				b, serr = hv.ser()
			}
		}) || !parsed || !before || edits == 0 {
			continue
		}
		c.Eval(1)
		what := []string{"exported-fields", "accessor-results", "AddAddress"}[mode]
		c.Bucket("edited-after-verification/" + va.kind + "/" + what + map[bool]string{true: "/still-verifies", false: "/no-longer-verifies"}[after])
		if !after || serr != nil {
			continue
		}
		s2 := gen.Shape{"derivation": "value-edited-after-verification/" + what, "kind": va.kind}
		for k, v := range sc.shape {
			s2[k] = v
		}
		if res, err := va.ref(b); err != nil || !res.Valid {
			c.Violate(va.site, "verifies-after-its-content-was-changed", s2, sc.bytes,
				fmt.Sprintf("%d edit(s) through %s; the value now serialises to %d bytes (read from %d) over which the signature is not valid (%v %s), yet verification reports success", edits, what, len(b), len(sc.bytes), err, res.Reason))
		}
	}
}

// c05Check applies the oracle to one (possibly adversarial) input.
func c05Check(c *core.Ctx, va verifyAdapter, in []byte, sh gen.Shape, derivation string) (libOK bool) {
	var parsed, verified bool
	// for one input in four (chosen by its content, so that a case replays identically) the value is
	// QUERIED between parsing and verifying - every argument-free accessor, as a consumer that looks
	// at leases, expirations and options before it checks the signature would: what is verified is
	// still the bytes the value was read from
	queried := false
	if hold := holdAdapters[va.kind]; hold != nil && len(in) > 8 && (in[len(in)/2]^in[len(in)-1]^in[7])&3 == 1 {
		queried = true
	}
	panicked, _, _ := c.Call(va.site, in, func() {
		if !queried {
			parsed, verified, _ = va.lib(in)
			return
		}
		hv, ok := holdAdapters[va.kind](in)
		if !ok {
			return
		}
		parsed = true
		lib.Observe(hv.val, lib.ObserveOpts{Depth: 1})
		verified = hv.verify()
	})
	if queried {
		derivation += "+queried-before-verification"
	}
	c.Eval(1)
	if panicked {
		return false
	}
	c.OpResult(va.site, parsed && verified)
	if !parsed {
		c.Bucket("unparsed/" + va.kind + "/" + derivation)
		return false
	}
	c.Nontrivial([]byte(va.site), in)
	if !verified {
		c.Bucket("lib-rejects/" + va.kind + "/" + derivation)
		return false
	}
	c.Bucket("lib-accepts/" + va.kind + "/" + derivation)
	res, err := va.ref(in)
	s2 := gen.Shape{"derivation": derivation, "kind": va.kind}
	for k, v := range sh {
		s2[k] = v
	}
	if err != nil {
		c.Violate(va.site, "verified-but-unframeable", s2, in, fmt.Sprintf("library verification succeeded on bytes the reference cannot frame: %v", err))
		return true
	}
	if !res.Valid {
		c.Violate(va.site, "verified-but-not-authentic", s2, in, "library reports success; independent check over the raw bytes: "+res.Reason)
	}
	return true
}

func flipMasks(c *core.Ctx) []byte { return []byte{0x01, 0x80, 0xff} }

func runC05(c *core.Ctx) {
	n := c.N(48, 640)  // signed originals per (kind, type) class
	full := c.N(4, 80) // of those, how many get the every-byte-position sweep

	type class struct {
		name string
		kind string
		make func(r *core.Rand) signedCase
	}
	var classes []class
	for _, st := range []int{7, 0, 1, 2} {
		st := st
		classes = append(classes, class{fmt.Sprintf("rinfo/sig%d", st), "rinfo", func(r *core.Rand) signedCase { return signedRouterInfo(r, st) }})
	}
	for _, st := range []int{7, 11, 0, 1, 2} {
		st := st
		classes = append(classes, class{fmt.Sprintf("leaseset/sig%d", st), "leaseset", func(r *core.Rand) signedCase { return signedLeaseSet(r, st) }})
		classes = append(classes, class{fmt.Sprintf("leaseset2/sig%d", st), "leaseset2", func(r *core.Rand) signedCase { return signedLeaseSet2(r, st, false, 0) }})
		classes = append(classes, class{fmt.Sprintf("metaleaseset/sig%d", st), "metaleaseset", func(r *core.Rand) signedCase { return signedMeta(r, st, false, 0) }})
	}
	for _, st := range []int{7, 11, 0} {
		for _, tt := range []int{7, 11, 0, 1} {
			st, tt := st, tt
			classes = append(classes, class{fmt.Sprintf("leaseset2-offline/sig%d-t%d", st, tt), "leaseset2", func(r *core.Rand) signedCase { return signedLeaseSet2(r, st, true, tt) }})
			classes = append(classes, class{fmt.Sprintf("metaleaseset-offline/sig%d-t%d", st, tt), "metaleaseset", func(r *core.Rand) signedCase { return signedMeta(r, st, true, tt) }})
		}
	}
	for _, st := range []int{7, 11, 0} {
		st := st
		classes = append(classes, class{fmt.Sprintf("encleaseset/sig%d", st), "encleaseset", func(r *core.Rand) signedCase { return signedELS(r, st, false, 0) }})
		for _, tt := range []int{7, 11, 0} {
			tt := tt
			classes = append(classes, class{fmt.Sprintf("encleaseset-offline/sig%d-t%d", st, tt), "encleaseset", func(r *core.Rand) signedCase { return signedELS(r, st, true, tt) }})
		}
	}

	for _, cl := range classes {
		cl := cl
		va := verifyAdapters[cl.kind]
		c.Job("signed/"+cl.name, n, func(i int, r *core.Rand) {
			sc := cl.make(r)
			sc.shape["class"] = cl.name
			// sanity: the reference accepts its own signed original
			res, err := va.ref(sc.bytes)
			if err != nil || !res.Valid {
				c.FloorFail(fmt.Sprintf("reference rejects its own signed %s: %v %s", cl.name, err, res.Reason))
				return
			}
			if c05Check(c, va, sc.bytes, sc.shape, "original") {
				c.Bucket("original-verified-by-both/" + cl.name)
				c.Sample(gen.Shape{"class": cl.name, "len": len(sc.bytes), "original_verified_by_library": true})
			} else {
				c.Bucket("original-not-verified-by-library/" + cl.name)
			}
			if (i+i/16)%4 == 0 { // one case in four, spread over all shards
				c05Edited(c, va, sc, r)
			}
			// bit flips: every byte position for the first `full` cases, a stratified sample otherwise
			positions := []int{}
			if i < full {
				for p := 0; p < len(sc.bytes); p++ {
					positions = append(positions, p)
				}
			} else {
				for k := 0; k < 24; k++ {
					positions = append(positions, r.Pick(len(sc.bytes)))
				}
				for p := len(sc.bytes) - 70; p < len(sc.bytes); p += 7 {
					if p >= 0 {
						positions = append(positions, p)
					}
				}
			}
			for _, p := range positions {
				for _, m := range flipMasks(c) {
					b := append([]byte{}, sc.bytes...)
					b[p] ^= m
					c05Check(c, va, b, sc.shape, "bitflip")
				}
			}
			c.BucketN("bitflip-positions/"+cl.kind, int64(len(positions)))
			// multi-byte edits and insertions
			for k := 0; k < 6; k++ {
				b := append([]byte{}, sc.bytes...)
				p := r.Pick(len(b))
				ins := r.Bytes(1 + r.Pick(5))
				b = append(append(append([]byte{}, b[:p]...), ins...), b[p:]...)
				c05Check(c, va, b, sc.shape, "insert")
				b2 := append([]byte{}, sc.bytes...)
				p = r.Pick(len(b2))
				copy(b2[p:], r.Bytes(2+r.Pick(6)))
				c05Check(c, va, b2, sc.shape, "overwrite")
			}
			// appended bytes must not matter for readers with remainder; checked as-is
			c05Check(c, va, append(append([]byte{}, sc.bytes...), r.Bytes(1+r.Pick(40))...), sc.shape, "append")
			// structure-aware forgeries
			for _, d := range forgeries(r, sc) {
				c05Check(c, va, d.bytes, sc.shape, d.name)
			}
			// bytes inserted as the payload of the identity's NULL certificate (length field
			// rewritten to match): the structure still frames, the signed content has changed
			if cl.kind != "encleaseset" && len(sc.bytes) > 387 && sc.bytes[384] == 0 && sc.bytes[385] == 0 && sc.bytes[386] == 0 {
				n := 1 + r.Pick(64)
				f := append([]byte{}, sc.bytes[:385]...)
				f = append(f, byte(n>>8), byte(n))
				f = append(f, r.Bytes(n)...)
				f = append(f, sc.bytes[387:]...)
				c05Check(c, va, f, sc.shape, "bytes-inserted-into-null-certificate-payload")
				c.Bucket("forgery/null-certificate-payload-inserted/" + cl.kind)
			}
		})
	}

	// Structures signed by the LIBRARY's own constructors: when signer and verifier share a
	// mistake (both sign/verify the wrong bytes) reference-signed originals only show up as
	// "library rejects"; library-signed ones show the library accepting what is not authentic.
	c.Job("library-signed", c.N(240, 6000), func(i int, r *core.Rand) {
		key, _ := rm.NewSigKey([]int{7, 11}[i%2], r)
		switch (i / 2) % 5 {
		case 0: // CreateOfflineSignature with every transient type (incl. keys longer than 128 bytes)
			dt := key.Type
			tt := []int{7, 11, 0, 1, 2, 3, 4, 5, 6, 8}[(i/10)%10]
			kl, _ := rm.SigPubLen(tt)
			tkey := r.Bytes(kl)
			os, err := offline_signature.CreateOfflineSignature(r.Uint32()|1, uint16(tt), tkey, key.Ed25519Private(), uint16(dt))
			if err != nil {
				return
			}
			enc := os.Bytes()
			sh := gen.Shape{"class": "library-signed/offline", "dest_sig": dt, "transient": tt}
			judge := func(b []byte, derivation string) {
				c.Eval(1)
				po, rem, err := offline_signature.ReadOfflineSignature(b, uint16(dt))
				if err != nil {
					return
				}
				ok, verr := po.VerifySignature(key.Pub)
				c.Nontrivial([]byte("libsigned-offline"), b)
				if !ok || verr != nil {
					return
				}
				c.Bucket("lib-accepts/library-signed-offline/" + derivation)
				ro, _, derr := rm.DecodeOffline(b[:len(b)-len(rem)], dt)
				s2 := gen.Shape{"derivation": derivation}
				for k, v := range sh {
					s2[k] = v
				}
				if derr != nil {
					c.Violate("offline_signature.OfflineSignature.VerifySignature", "verified-but-unframeable", s2, b, derr.Error())
				} else if res := rm.VerifyOffline(ro, dt, key.Pub); !res.Valid {
					c.Violate("offline_signature.OfflineSignature.VerifySignature", "verified-but-not-authentic", s2, b, "library-created offline signature verifies in the library but not independently: "+res.Reason)
				}
			}
			judge(enc, "original")
			for p := 0; p < len(enc); p++ {
				b := append([]byte{}, enc...)
				b[p] ^= 1 << uint(r.Pick(8))
				judge(b, "bitflip")
			}
		case 1: // NewRouterInfo
			m, sh := gen.RouterInfo(r)
			k7, _ := rm.NewSigKey(7, r)
			priv, _ := lib.LibSigningPrivateKey(k7)
			m.Ident, _ = identWithKey(r, k7, rm.IdentCryptoTypes)
			m.Published &= 1<<62 - 1
			for j := range m.Addrs {
				if len(m.Addrs[j].Style) == 0 {
					m.Addrs[j].Style = []byte("NTCP2")
				}
			}
			ri, ok, err := lib.BuildRouterInfo(m, priv, 0)
			if !ok || err != nil {
				return
			}
			b, err := ri.Bytes()
			if err != nil {
				return
			}
			sh["class"] = "library-signed/rinfo"
			c05LibSigned(c, verifyAdapters["rinfo"], b, sh, r)
		case 2: // NewLeaseSet
			m, sh := gen.LeaseSet(r)
			priv, err := lib.LibSigningPrivateKey(key)
			if err != nil {
				return
			}
			m.Dest, _ = identWithKey(r, key, rm.IdentCryptoTypes)
			m.SigningKey = r.Bytes(32)
			for j := range m.Leases {
				m.Leases[j].EndMs &= 1<<62 - 1
			}
			ls, ok, err := lib.BuildLeaseSet(m, priv)
			if !ok || err != nil {
				return
			}
			b, err := ls.Bytes()
			if err != nil {
				return
			}
			sh["class"] = "library-signed/leaseset"
			c05LibSigned(c, verifyAdapters["leaseset"], b, sh, r)
		case 3: // NewLeaseSet2, with and without offline keys
			m, sh := gen.LeaseSet2(r)
			m.Dest, _ = identWithKey(r, key, rm.IdentCryptoTypes)
			m.Offline, m.Flags = nil, m.Flags&6
			signer := key
			if i%4 < 2 {
				o, tk := offlineFor(r, key, []int{7, 11, 8}[(i/4)%3])
				m.Offline, signer = &o, tk
				m.Flags |= 1
			}
			sh["signing_key_type"] = signer.Type
			if len(m.Leases) == 0 {
				m.Leases = []rm.Lease2{gen.Lease2(r)}
			}
			for j := range m.Keys {
				if n, ok := rm.CryptoLen(int(m.Keys[j].Type)); ok {
					m.Keys[j].Data = r.Bytes(n)
				}
			}
			priv, _ := lib.LibSigningPrivateKey(signer)
			ls, ok, err := lib.BuildLeaseSet2(m, priv)
			if !ok || err != nil {
				return
			}
			b, err := ls.Bytes()
			if err != nil {
				return
			}
			sh["class"] = "library-signed/leaseset2"
			c05LibSigned(c, verifyAdapters["leaseset2"], b, sh, r)
		default: // NewEncryptedLeaseSet
			m, sh := gen.EncryptedLeaseSet(r)
			if (i/10)%3 == 2 {
				// blinded key of type 8 (EdDSA_SHA512_Ed25519ph), or a type-8 transient key below
				key, _ = rm.NewSigKey([]int{8, 7}[(i/30)%2], r)
			}
			m.SigType, m.BlindedKey = uint16(key.Type), key.Pub
			m.Offline, m.Flags = nil, m.Flags&2
			signer := key
			if i%4 < 2 && key.Type != 8 {
				tt := 7
				if (i/10)%3 == 2 {
					tt = 8
				}
				o, tk := offlineFor(r, key, tt)
				m.Offline, signer = &o, tk
				m.Flags |= 1
			}
			els, err := lib.BuildEncryptedLeaseSet(m, signer.Ed25519Private())
			if err != nil {
				return
			}
			b, err := els.Bytes()
			if err != nil {
				return
			}
			sh["class"] = "library-signed/encleaseset"
			sh["sig"], sh["offline"], sh["signing_key_type"] = key.Type, m.Offline != nil, signer.Type
			delete(sh, "transient")
			if m.Offline != nil {
				sh["transient"] = int(m.Offline.SigType)
			}
			c05LibSigned(c, verifyAdapters["encleaseset"], b, sh, r)
		}
	})

	// stand-alone offline signatures: every destination type x transient type, all byte positions
	c.Job("offline", c.N(300, 6000), func(i int, r *core.Rand) {
		dts := []int{7, 11, 8, 0, 1}
		tts := []int{7, 11, 0, 1, 2, 3, 4, 5, 6, 8}
		dt := dts[i%len(dts)]
		tt := tts[(i/len(dts))%len(tts)]
		key, _ := rm.NewSigKey(dt, r)
		o := rm.Offline{Expires: r.Uint32() | 1, SigType: uint16(tt)}
		kl, _ := rm.SigPubLen(tt)
		o.TransientKey = r.Bytes(kl)
		o.Sig, _ = key.Sign(o.SignedPart(), r)
		enc := o.Encode()
		sh := gen.Shape{"class": "offline", "dest_sig": dt, "transient": tt}
		check := func(b []byte, destKey []byte, derivation string) bool {
			var parsed, ok bool
			var consumed int
			site := "offline_signature.OfflineSignature.VerifySignature"
			panicked, _, _ := c.Call(site, b, func() {
				os, rem, err := offline_signature.ReadOfflineSignature(b, uint16(dt))
				if err != nil {
					return
				}
				parsed, consumed = true, len(b)-len(rem)
				v, verr := os.VerifySignature(destKey)
				ok = v && verr == nil
			})
			c.Eval(1)
			if panicked || !parsed {
				return false
			}
			c.OpResult(site, ok)
			c.Nontrivial([]byte(site), b, destKey)
			if !ok {
				c.Bucket("lib-rejects/offline/" + derivation)
				return false
			}
			c.Bucket("lib-accepts/offline/" + derivation)
			ro, _, err := rm.DecodeOffline(b[:consumed], dt)
			s2 := gen.Shape{"derivation": derivation, "kind": "offline"}
			for k, v := range sh {
				s2[k] = v
			}
			if err != nil {
				c.Violate(site, "verified-but-unframeable", s2, b, err.Error())
				return true
			}
			if res := rm.VerifyOffline(ro, dt, destKey); !res.Valid {
				c.Violate(site, "verified-but-not-authentic", s2, b, "library reports success; independent check: "+res.Reason)
			}
			return true
		}
		if check(enc, key.Pub, "original") {
			c.Bucket(fmt.Sprintf("original-verified-by-both/offline/dest%d-t%d", dt, tt))
		}
		for p := 0; p < len(enc); p++ {
			for _, m := range flipMasks(c) {
				b := append([]byte{}, enc...)
				b[p] ^= m
				check(b, key.Pub, "bitflip")
			}
		}
		other, _ := rm.NewSigKey(dt, r)
		check(enc, other.Pub, "other-identity-key")
		// transient type swapped between same-size types
		if tt == 7 || tt == 11 || tt == 8 {
			b := append([]byte{}, enc...)
			b[5] = map[int]byte{7: 11, 11: 7, 8: 7}[tt]
			check(b, key.Pub, "transient-type-changed")
		}
	})
}

// c05LibSigned judges a library-signed structure and single-bit edits at every byte position.
func c05LibSigned(c *core.Ctx, va verifyAdapter, b []byte, sh gen.Shape, r *core.Rand) {
	if c05Check(c, va, b, sh, "library-signed-original") {
		c.Bucket("library-signed-verified-by-both/" + va.kind)
	}
	for p := 0; p < len(b); p++ {
		x := append([]byte{}, b...)
		x[p] ^= 1 << uint(r.Pick(8))
		c05Check(c, va, x, sh, "library-signed-bitflip")
	}
}

type forgery struct {
	name  string
	bytes []byte
}

// forgeries derives structure-aware attacks from a validly signed original.
func forgeries(r *core.Rand, sc signedCase) []forgery {
	var out []forgery
	attackerType := sc.destSigType
	if attackerType != 7 && attackerType != 11 && attackerType != 0 {
		attackerType = 7
	}
	attacker, _ := rm.NewSigKey(attackerType, r)
	switch sc.kind {
	case "rinfo":
		m, _, _, err := rm.DecodeRouterInfo(sc.bytes)
		if err != nil {
			return nil
		}
		// signature by another key of the same type
		if other, err := rm.NewSigKey(sc.destSigType, r); err == nil {
			f := m
			f.Sig, _ = other.Sign(f.EncodeUnsigned(), r)
			out = append(out, forgery{"signed-by-other-key", f.Encode()})
		}
		// content changed (an option added), signature kept
		f := m
		f.Options = rm.Mapping{Pairs: append(append([]rm.Pair{}, m.Options.Pairs...), rm.Pair{K: []byte("zzzz"), V: []byte("1")})}
		out = append(out, forgery{"content-changed-signature-kept", f.Encode()})
		out = append(out, forgery{"empty-key-pair-spliced-into-options", func() []byte { g := m; g.Options = withEmptyKeyPair(m.Options); return g.Encode() }()})
		{
			g := m
			g.Options = junkTail(r, m.Options)
			out = append(out, forgery{"bytes-added-inside-options-extent-signature-kept", g.Encode()})
		}
		if len(m.Addrs) > 0 {
			g := m
			g.Addrs = append([]rm.RouterAddress{}, m.Addrs...)
			ai := r.Pick(len(g.Addrs))
			g.Addrs[ai].Options = junkTail(r, m.Addrs[ai].Options)
			out = append(out, forgery{"bytes-added-inside-address-options-extent-signature-kept", g.Encode()})
		}
		if pm := permuted(r, m.Options); pm != nil {
			g := m
			g.Options = *pm
			out = append(out, forgery{"option-pairs-reordered-signature-kept", g.Encode()})
		}
		for ai := range m.Addrs {
			if pm := permuted(r, m.Addrs[ai].Options); pm != nil {
				g := m
				g.Addrs = append([]rm.RouterAddress{}, m.Addrs...)
				g.Addrs[ai].Options = *pm
				out = append(out, forgery{"address-option-pairs-reordered-signature-kept", g.Encode()})
				break
			}
		}
		if len(m.Addrs) >= 2 {
			g := m
			g.Addrs = append([]rm.RouterAddress{}, m.Addrs...)
			g.Addrs[0], g.Addrs[1] = g.Addrs[1], g.Addrs[0]
			if !bytes.Equal(g.Encode(), m.Encode()) {
				out = append(out, forgery{"addresses-reordered-signature-kept", g.Encode()})
			}
		}
		if k2, ok := longerKeyCert(r, m.Ident); ok {
			g := m
			g.Ident = k2
			out = append(out, forgery{"key-certificate-lengthened-signature-kept", g.Encode()})
		}
		// peer_size altered, signature kept
		f2 := m
		f2.PeerSize = byte(1 + r.Pick(255))
		out = append(out, forgery{"peer-size-changed", f2.Encode()})
		// published altered
		f3 := m
		f3.Published ^= 1 << uint(r.Pick(64))
		out = append(out, forgery{"published-changed", f3.Encode()})
	case "leaseset":
		m, _, err := rm.DecodeLeaseSet(sc.bytes)
		if err != nil {
			return nil
		}
		// attacker places its own key in the revocation (signing_key) field and signs with it
		if a2, err := rm.NewSigKey(sc.destSigType, r); err == nil {
			f := m
			f.SigningKey = a2.Pub
			f.Sig, _ = a2.Sign(f.EncodeUnsigned(), r)
			out = append(out, forgery{"signed-by-revocation-key", f.Encode()})
		}
		f := m
		if len(f.Leases) > 0 {
			f.Leases = append([]rm.Lease{}, m.Leases...)
			f.Leases[0].TunnelID ^= 1
			out = append(out, forgery{"lease-changed-signature-kept", f.Encode()})
		}
		f2 := m
		f2.EncKey = append([]byte{}, m.EncKey...)
		f2.EncKey[100] ^= 1
		out = append(out, forgery{"enckey-changed-signature-kept", f2.Encode()})
		if len(m.Leases) >= 2 {
			g := m
			g.Leases = append([]rm.Lease{}, m.Leases...)
			g.Leases[0], g.Leases[len(g.Leases)-1] = g.Leases[len(g.Leases)-1], g.Leases[0]
			if !bytes.Equal(g.Encode(), m.Encode()) {
				out = append(out, forgery{"leases-reordered-signature-kept", g.Encode()})
			}
		}
		if len(m.Leases) < 16 {
			g := m
			g.Leases = append(append([]rm.Lease{}, m.Leases...), gen.Lease(r))
			out = append(out, forgery{"lease-added-signature-kept", g.Encode()})
		}
	case "leaseset2":
		m, _, _, err := rm.DecodeLeaseSet2(sc.bytes)
		if err != nil {
			return nil
		}
		resign := func(f rm.LeaseSet2, k *rm.SigKey, prefix []byte) []byte {
			f.Sig, _ = k.Sign(append(append([]byte{}, prefix...), f.EncodeUnsigned()...), r)
			return f.Encode()
		}
		for _, fg := range offlineForgeries(r, sc, attacker, m.Offline) {
			f := m
			f.Flags |= 1
			o := fg.off
			f.Offline = &o
			out = append(out, forgery{fg.name, resign(f, fg.signer, []byte{rm.StoreLeaseSet2})})
		}
		signer := sc.identKey
		if sc.transient != nil {
			signer = sc.transient
			// a genuine offline block transplanted under another destination of the same type
			if b, err := rm.NewSigKey(sc.destSigType, r); err == nil {
				f := m
				copy(f.Dest.Block[384-len(b.Pub):], b.Pub)
				out = append(out, forgery{"offline-transplanted-to-other-destination", resign(f, sc.transient, []byte{rm.StoreLeaseSet2})})
			}
		}
		out = append(out, forgery{"wrong-store-prefix-7", resign(m, signer, []byte{rm.StoreMetaLeaseSet})})
		out = append(out, forgery{"wrong-store-prefix-5", resign(m, signer, []byte{rm.StoreEncryptedLS})})
		out = append(out, forgery{"no-store-prefix", resign(m, signer, nil)})
		out = append(out, forgery{"signed-by-attacker-key", resign(m, attacker, []byte{rm.StoreLeaseSet2})})
		f := m
		f.Published ^= 1
		out = append(out, forgery{"published-changed-signature-kept", f.Encode()})
		f2 := m
		f2.Flags ^= 2
		out = append(out, forgery{"flags-changed-signature-kept", f2.Encode()})
		out = append(out, forgery{"empty-key-pair-spliced-into-options", func() []byte { g := m; g.Options = withEmptyKeyPair(m.Options); return g.Encode() }()})
		if pm := permuted(r, m.Options); pm != nil {
			g := m
			g.Options = *pm
			out = append(out, forgery{"option-pairs-reordered-signature-kept", g.Encode()})
		}
		{
			g := m
			g.Options = junkTail(r, m.Options)
			out = append(out, forgery{"bytes-added-inside-options-extent-signature-kept", g.Encode()})
		}
		// complete key entries of a type the library does not know inserted (count raised with them):
		// before the genuine keys, between them, after them
		if len(m.Keys) < 16 {
			for _, pos := range []int{0, len(m.Keys) / 2, len(m.Keys)} {
				g := m
				extra := rm.EncKey{Type: uint16([]int{8, 9, 255, 0xFF01, 65280, 65535}[r.Pick(6)]), Data: r.Bytes([]int{0, 1, 32, 33, 256}[r.Pick(5)])}
				g.Keys = append(append(append([]rm.EncKey{}, m.Keys[:pos]...), extra), m.Keys[pos:]...)
				out = append(out, forgery{fmt.Sprintf("unknown-type-key-entry-inserted-at-%d-signature-kept", pos), g.Encode()})
			}
		}
		if len(m.Keys) >= 2 {
			g := m
			g.Keys = append([]rm.EncKey{}, m.Keys...)
			g.Keys[0], g.Keys[len(g.Keys)-1] = g.Keys[len(g.Keys)-1], g.Keys[0]
			if !bytes.Equal(g.Encode(), m.Encode()) {
				out = append(out, forgery{"keys-reordered-signature-kept", g.Encode()})
			}
		}
		if len(m.Leases) >= 2 {
			g := m
			g.Leases = append([]rm.Lease2{}, m.Leases...)
			g.Leases[0], g.Leases[len(g.Leases)-1] = g.Leases[len(g.Leases)-1], g.Leases[0]
			if !bytes.Equal(g.Encode(), m.Encode()) {
				out = append(out, forgery{"leases-reordered-signature-kept", g.Encode()})
			}
		}
		if k2, ok := longerKeyCert(r, m.Dest); ok {
			g := m
			g.Dest = k2
			out = append(out, forgery{"key-certificate-lengthened-signature-kept", g.Encode()})
		}
	case "metaleaseset":
		m, _, _, err := rm.DecodeMetaLeaseSet(sc.bytes)
		if err != nil {
			return nil
		}
		resign := func(f rm.MetaLeaseSet, k *rm.SigKey, prefix []byte) []byte {
			f.Sig, _ = k.Sign(append(append([]byte{}, prefix...), f.EncodeUnsigned()...), r)
			return f.Encode()
		}
		for _, fg := range offlineForgeries(r, sc, attacker, m.Offline) {
			f := m
			f.Flags |= 1
			o := fg.off
			f.Offline = &o
			out = append(out, forgery{fg.name, resign(f, fg.signer, []byte{rm.StoreMetaLeaseSet})})
		}
		signer := sc.identKey
		if sc.transient != nil {
			signer = sc.transient
		}
		out = append(out, forgery{"empty-key-pair-spliced-into-options", func() []byte { g := m; g.Options = withEmptyKeyPair(m.Options); return g.Encode() }()})
		out = append(out, forgery{"wrong-store-prefix-3", resign(m, signer, []byte{rm.StoreLeaseSet2})})
		out = append(out, forgery{"no-store-prefix", resign(m, signer, nil)})
		out = append(out, forgery{"signed-by-attacker-key", resign(m, attacker, []byte{rm.StoreMetaLeaseSet})})
		if len(m.Entries) > 0 {
			f := m
			f.Entries = append([]rm.MetaEntry{}, m.Entries...)
			f.Entries[0].Cost ^= 1
			out = append(out, forgery{"entry-changed-signature-kept", f.Encode()})
		}
		if pm := permuted(r, m.Options); pm != nil {
			g := m
			g.Options = *pm
			out = append(out, forgery{"option-pairs-reordered-signature-kept", g.Encode()})
		}
		{
			g := m
			g.Options = junkTail(r, m.Options)
			out = append(out, forgery{"bytes-added-inside-options-extent-signature-kept", g.Encode()})
		}
		if len(m.Entries) > 0 {
			g := m
			g.Entries = append([]rm.MetaEntry{}, m.Entries...)
			ei := r.Pick(len(g.Entries))
			g.Entries[ei].Props = junkTail(r, m.Entries[ei].Props)
			out = append(out, forgery{"bytes-added-inside-entry-properties-extent-signature-kept", g.Encode()})
			// any bit of the flags word, the reserved ones included
			g2 := m
			g2.Flags ^= uint16(1) << uint(1+r.Pick(15))
			out = append(out, forgery{"flag-bit-changed-signature-kept", g2.Encode()})
		}
		for ei := range m.Entries {
			if pm := permuted(r, m.Entries[ei].Props); pm != nil {
				g := m
				g.Entries = append([]rm.MetaEntry{}, m.Entries...)
				g.Entries[ei].Props = *pm
				out = append(out, forgery{"entry-property-pairs-reordered-signature-kept", g.Encode()})
				break
			}
		}
		if len(m.Entries) >= 2 {
			g := m
			g.Entries = append([]rm.MetaEntry{}, m.Entries...)
			g.Entries[0], g.Entries[len(g.Entries)-1] = g.Entries[len(g.Entries)-1], g.Entries[0]
			if !bytes.Equal(g.Encode(), m.Encode()) {
				out = append(out, forgery{"entries-reordered-signature-kept", g.Encode()})
			}
		}
		if k2, ok := longerKeyCert(r, m.Dest); ok {
			g := m
			g.Dest = k2
			out = append(out, forgery{"key-certificate-lengthened-signature-kept", g.Encode()})
		}
	case "encleaseset":
		m, _, err := rm.DecodeEncryptedLeaseSet(sc.bytes)
		if err != nil {
			return nil
		}
		resign := func(f rm.EncryptedLeaseSet, k *rm.SigKey, prefix []byte) []byte {
			f.Sig, _ = k.Sign(append(append([]byte{}, prefix...), f.EncodeUnsigned()...), r)
			return f.Encode()
		}
		for _, fg := range offlineForgeries(r, sc, attacker, m.Offline) {
			f := m
			f.Flags |= 1
			o := fg.off
			f.Offline = &o
			out = append(out, forgery{fg.name, resign(f, fg.signer, []byte{rm.StoreEncryptedLS})})
		}
		signer := sc.identKey
		if sc.transient != nil {
			signer = sc.transient
		}
		out = append(out, forgery{"wrong-store-prefix-3", resign(m, signer, []byte{rm.StoreLeaseSet2})})
		out = append(out, forgery{"no-store-prefix", resign(m, signer, nil)})
		if attacker.Type == int(m.SigType) {
			out = append(out, forgery{"signed-by-attacker-key", resign(m, attacker, []byte{rm.StoreEncryptedLS})})
		}
		f := m
		f.Inner = append([]byte{}, m.Inner...)
		f.Inner[len(f.Inner)/2] ^= 0x10
		out = append(out, forgery{"inner-changed-signature-kept", f.Encode()})
	}
	return out
}

// permuted returns the mapping with its pairs in another order (nil when it has fewer than two
// pairs): a well-formed rearrangement of signed content, which a parser that sorts what it reads
// maps back onto the signed form.
func permuted(r *core.Rand, m rm.Mapping) *rm.Mapping {
	if m.Raw != nil || len(m.Pairs) < 2 {
		return nil
	}
	out := rm.Mapping{Pairs: append([]rm.Pair{}, m.Pairs...)}
	i := r.Pick(len(out.Pairs) - 1)
	j := i + 1 + r.Pick(len(out.Pairs)-i-1)
	out.Pairs[i], out.Pairs[j] = out.Pairs[j], out.Pairs[i]
	if bytes.Equal(out.Body(), m.Body()) {
		return nil
	}
	return &out
}

// junkTail returns the mapping with a few bytes added behind its last pair INSIDE the declared extent
// (the size field grows with them): what a lenient pair loop stops at and drops.
func junkTail(r *core.Rand, m rm.Mapping) rm.Mapping {
	n := []int{1, 2, 3, 1, 2, 3, 4, 7}[r.Pick(8)]
	tail := r.Bytes(n)
	if r.Chance(1, 3) {
		tail = []byte{0, '=', 0, ';', 1, 'x', '=', 1}[:n] // the beginning of further pairs
	}
	return rm.Mapping{Raw: append(append([]byte{}, m.Body()...), tail...)}
}

// longerKeyCert: the identity's KEY certificate with bytes added behind the key types and the
// length field raised accordingly (a coordinated edit; flipping the length alone misframes).
func longerKeyCert(r *core.Rand, k rm.KAC) (rm.KAC, bool) {
	if k.Cert.Type != rm.CertKey || len(k.Cert.Payload) < 4 {
		return k, false
	}
	k.Cert.Payload = append(append([]byte{}, k.Cert.Payload...), r.Bytes(1+r.Pick(6))...)
	return k, true
}

type offForgery struct {
	name   string
	off    rm.Offline
	signer *rm.SigKey
}

// offlineForgeries: offline blocks that do NOT carry the identity's authorisation, each with
// the (attacker-held) transient key that signs the content.
func offlineForgeries(r *core.Rand, sc signedCase, attacker *rm.SigKey, existing *rm.Offline) []offForgery {
	var out []offForgery
	sl, _ := rm.SigLen(sc.destSigType)
	tk, _ := rm.NewSigKey(7, r)
	// 1. garbage offline signature
	out = append(out, offForgery{"offline-garbage-signature", rm.Offline{Expires: 0x7fffffff, SigType: 7, TransientKey: tk.Pub, Sig: r.Bytes(sl)}, tk})
	// 2. offline block signed by the attacker's identity key instead of the victim's
	if attacker.Type == sc.destSigType {
		o := rm.Offline{Expires: 0x7fffffff, SigType: 7, TransientKey: tk.Pub}
		o.Sig, _ = attacker.Sign(o.SignedPart(), r)
		out = append(out, offForgery{"offline-signed-by-other-identity", o, tk})
	}
	// 3. a genuine offline block of the victim, but with the transient key swapped for the attacker's
	if existing != nil && sc.transient != nil && (sc.transient.Type == 7 || sc.transient.Type == 11) {
		o := *existing
		o.TransientKey = tk.Pub
		o.SigType = 7
		out = append(out, offForgery{"offline-transient-key-replaced", o, tk})
		// 4. expiry extended
		o2 := *existing
		o2.Expires ^= 0x40000000
		out = append(out, offForgery{"offline-expiry-changed", o2, sc.transient})
		// 5. transient type relabelled (Ed25519 <-> RedDSA share sizes)
		o3 := *existing
		if o3.SigType == 7 {
			o3.SigType = 11
		} else {
			o3.SigType = 7
		}
		out = append(out, offForgery{"offline-transient-type-changed", o3, sc.transient})
	}
	return out
}

// withEmptyKeyPair returns the mapping with one more pair in front whose key is the empty string
// (which sorts first, so the result is still in canonical order): a change of content that a
// serialiser dropping such pairs would hide from the signature check.
func withEmptyKeyPair(m rm.Mapping) rm.Mapping {
	body := append([]byte{0, '=', 1, 'x', ';'}, m.Body()...)
	return rm.Mapping{Raw: body}
}
