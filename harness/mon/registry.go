// Package mon holds one monitor per property. A monitor generates its workload from the
// context's PRNG streams, drives the library through package lib, applies the oracle from
// package refmodel and records what it observed.
package mon

import "verifharness/core"

var Monitors = map[string]func(*core.Ctx){}

func register(id string, f func(*core.Ctx)) { Monitors[id] = f }
