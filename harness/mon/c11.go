package mon

import (
	"bytes"
	"encoding/binary"
	"fmt"
	"sort"

	"github.com/go-i2p/common/data"
	"github.com/go-i2p/common/lease_set2"
	"github.com/go-i2p/common/meta_leaseset"
	"github.com/go-i2p/common/router_address"
	"github.com/go-i2p/common/router_info"

	"verifharness/core"
	"verifharness/gen"
	"verifharness/lib"
	rm "verifharness/refmodel"
)

// C11 — Mapping: map -> bytes -> map is the identity and the encoding is canonical.
func init() { register("C11", runC11) }

func mapSize(g map[string]string) int {
	n := 0
	for k, v := range g {
		n += len(k) + len(v) + 4
	}
	return n
}

func refEncodeMap(g map[string]string) []byte {
	keys := make([]string, 0, len(g))
	for k := range g {
		keys = append(keys, k)
	}
	sort.Strings(keys) // bytewise
	var m rm.Mapping
	for _, k := range keys {
		m.Pairs = append(m.Pairs, rm.Pair{K: []byte(k), V: []byte(g[k])})
	}
	return m.Encode()
}

func genGoMap(r *core.Rand, i int) (map[string]string, string) {
	g := map[string]string{}
	class := "mixed"
	n := r.Pick(8)
	switch i % 12 {
	case 0:
		class, n = "one-char-key-empty-value", 1
		g[string([]byte{byte('a' + r.Pick(26))})] = ""
		return g, class
	case 1:
		class, n = "empty-key", 1+r.Pick(3)
		g[""] = string(r.Bytes(r.Pick(4)))
	case 2:
		class = "255-byte-strings"
		g[string(r.Bytes(255))] = string(r.Bytes(255))
		n = r.Pick(3)
		if r.Chance(1, 2) {
			// keys at and just below the limit with short values, alone or last in sort order
			class = "longest-keys-short-values"
			g = map[string]string{}
			kl := 253 + r.Pick(3)
			k := r.Bytes(kl)
			if r.Chance(1, 2) {
				k[0] = 0xff // sorts last
			}
			g[string(k)] = string(r.Bytes(r.Pick(3)))
			if r.Chance(1, 2) {
				g[string(utf8OfLen(r, 253+r.Pick(3)))] = string(utf8OfLen(r, r.Pick(256)))
			}
		}
	case 3:
		class = "delimiters-in-strings"
		g["a=b"] = "c;d"
		g[";"] = "="
		g["=;"] = ";="
		g["\x00"] = "\x00\x00"
	case 4:
		class = "non-utf8-keys" // keys whose order differs between bytewise and rune-wise comparison
		g["\xff"] = "1"
		g["\xef\xbf\xbe"] = "2"
		g["\xc0"] = "3"
		g["\xfe\xff"] = "4"
		g["\xf0\x90\x80\x80"] = "5"
		g["\xee\x80\x80"] = "6"
		n = r.Pick(4)
	case 5:
		class = "many-pairs"
		n = 200 + r.Pick(780)
	case 8:
		class = "more-than-1000-pairs"
		n = 1001 + r.Pick(2500)
		for len(g) < n {
			g[fmt.Sprintf("%x", len(g))] = string(r.Bytes(r.Pick(3)))
		}
		return g, class
	case 6:
		class = "prefix-keys"
		for _, k := range []string{"a", "aa", "aaa", "ab", "b", "", "a\x00", "a\xff"} {
			if r.Chance(2, 3) {
				g[k] = string(r.Bytes(r.Pick(3)))
			}
		}
	case 7:
		class = "all-empty-values"
		n = 1 + r.Pick(10)
		for j := 0; j < n; j++ {
			g[string(r.Bytes(1+r.Pick(3)))] = ""
		}
		return g, class
	}
	for len(g) < n {
		var k []byte
		if r.Chance(1, 2) {
			k = r.Bytes(1 + r.Pick(12))
		} else {
			k = []byte(fmt.Sprintf("k%05d", r.Pick(100000)))
		}
		var v []byte
		switch r.Pick(4) {
		case 0:
			v = nil
		case 1:
			v = r.Bytes(r.Pick(255))
		default:
			v = r.Bytes(r.Pick(12))
		}
		g[string(k)] = string(v)
	}
	// now and then all members of a hash-collision group among the keys (distinct strings that a
	// set keyed by a 32-bit hash of the key takes for duplicates)
	if r.Chance(1, 10) {
		for _, k := range gen.CollisionGroups[r.Pick(len(gen.CollisionGroups))] {
			if _, ok := g[k]; !ok {
				g[k] = string(r.Bytes(r.Pick(6)))
			}
		}
		class += "+collision-group"
	}
	return g, class
}

func runC11(c *core.Ctx) {
	n := c.N(6000, 120000)
	c.Job("maps", n, func(i int, r *core.Rand) {
		g, class := genGoMap(r, i)
		c11Map(c, g, class, r)
	})

	// totals around the 65,535 limit: exact sizes 65,520 .. 65,560 with different pair counts
	sizes := []int{}
	for s := 65500; s <= 65700; s++ {
		sizes = append(sizes, s)
	}
	pairCounts := []int{257, 300, 512, 128, 999, 1000}
	c.Job("limit", len(sizes)*len(pairCounts), func(i int, r *core.Rand) {
		target := sizes[i%len(sizes)]
		pairs := pairCounts[i/len(sizes)]
		g := mapOfExactSize(r, target, pairs)
		if mapSize(g) != target {
			c.FloorFail(fmt.Sprintf("generator produced size %d for target %d", mapSize(g), target))
			return
		}
		c11Map(c, g, fmt.Sprintf("limit-size/%dpairs", pairs), r)
	})
	c.Exhaustive("every total size 65,500..65,700 at six pair counts")

	// oversize strings
	c.Job("oversize-strings", c.N(200, 2000), func(i int, r *core.Rand) {
		g, _ := genGoMap(r, 11)
		ln := 256 + r.Pick(600)
		if i%8 < 2 {
			ln = 256 + r.Pick(3)
		}
		over := r.Bytes(ln)
		if (i/2)%2 == 1 {
			over = utf8OfLen(r, ln) // fewer than 256 characters, more than 255 bytes
		}
		if i%2 == 0 {
			g[string(over)] = "v"
		} else {
			g["k"] = string(over)
		}
		c.Eval(1)
		m, err := data.GoMapToMapping(g)
		c.OpResult("data.GoMapToMapping", err == nil)
		c.Nontrivial([]byte("over"), []byte(fmt.Sprint(ln, i)))
		if err == nil {
			c.Violate("data.GoMapToMapping", "oversize-string-accepted", gen.Shape{"class": "oversize-string", "len": ln}, m.Data()[:20], fmt.Sprintf("a %d-byte string was accepted", ln))
		}
	})

	// byte strings fed to the mapping parser: accepted without error => re-serialises identically
	// A mapping parsed from the caller's buffer, and a second mapping DERIVED from it (its parsed
	// keys reused with other values, converted and serialised): neither the source mapping, nor the
	// bytes of the caller's buffer — the mapping's own and those that follow it — may change.
	// (A serialiser that appends behind a parsed key writes into the buffer the key was cut from.)
	c.Job("derived-mapping", c.N(1500, 30000), func(i int, r *core.Rand) {
		m := gen.Mapping(r, 12)
		if len(m.Pairs) == 0 {
			return
		}
		enc := m.Encode()
		whole := append(append([]byte{}, enc...), r.Bytes(40+r.Pick(60))...)
		before := append([]byte{}, whole...)
		c.Eval(1)
		var pm data.Mapping
		var errs []error
		if p, _, _ := c.Call("data.ReadMapping", whole, func() { pm, _, errs = data.ReadMapping(whole) }); p || !lib.MappingAccepted(errs) {
			return
		}
		src := append([]byte{}, pm.Data()...)
		sh := gen.Shape{"pairs": len(m.Pairs), "class": "derived-mapping"}
		c.Call("derive: ValuesToMapping(parsed keys, new values).Data()", whole, func() {
			var nv data.MappingValues
			for _, pair := range pm.Values() {
				v, err := data.NewI2PString(string(r.Bytes(r.Pick(20))))
				if err != nil {
					continue
				}
				nv = append(nv, [2]data.I2PString{pair[0], v})
			}
			if dm, err := data.ValuesToMapping(nv); err == nil && dm != nil {
				dm.Data()
				dm.ToGoMap()
			}
			// (the parsed mapping's own slice is NOT handed to ValuesToMapping: the converter is
			// documented to sort its argument, which is then the caller's doing)
		})
		c.Nontrivial([]byte("derived"), enc)
		if !bytes.Equal(whole, before) {
			c.Violate("data.ValuesToMapping", "callers-buffer-written-by-a-derived-mapping", sh, before, "after a mapping derived from the parsed one was serialised, the caller's input buffer differs at offset "+fmt.Sprint(firstDiff(before, whole)))
			return
		}
		if after := pm.Data(); !bytes.Equal(after, src) {
			c.Violate("data.ValuesToMapping", "source-mapping-changed-by-a-derived-mapping", sh, before, describeDiff(src, after))
			return
		}
		c.Bucket("derived-mapping-left-source-intact")
	})

	// ---- mappings where they occur in practice: as the options / properties field of a
	// RouterAddress, RouterInfo, LeaseSet2 or MetaLeaseSet (each container feeds the mapping
	// parser itself and filters what it reports). (a) the canonical bytes of a Go map placed in
	// every container parse back, without error, to exactly that map and re-serialise to exactly
	// those bytes; (b) whatever mapping bytes a container accepts re-serialise to the bytes they
	// were read from, with and without more data following the container.
	c.Job("embedded", c.N(4000, 80000), func(i int, r *core.Rand) {
		canonical := i%2 == 0
		var g map[string]string
		var mb []byte
		class := ""
		if canonical {
			for {
				g, class = genGoMap(r, r.Pick(12))
				if len(g) <= 900 && mapSize(g) <= 20000 {
					break
				}
			}
			mb = refEncodeMap(g)
		} else {
			switch r.Pick(4) {
			case 0:
				mb, _ = gen.MappingWithJunk(r)
				class = "junk-in-extent"
			case 1:
				m := gen.Mapping(r, 8)
				if len(m.Pairs) > 0 {
					m.Pairs = append(m.Pairs, m.Pairs[r.Pick(len(m.Pairs))])
				}
				mb, class = m.Encode(), "duplicate-key"
			case 2:
				m := gen.Mapping(r, 8)
				mb = m.Encode()
				if len(mb) > 3 { // one delimiter damaged
					k := 2 + r.Pick(len(mb)-2)
					mb[k] ^= byte(1 + r.Pick(255))
				}
				class = "damaged-byte"
			default:
				m := gen.Mapping(r, 8)
				mb = m.Encode()
				class = "unsorted-or-odd"
			}
		}
		extent := 2 + int(binary.BigEndian.Uint16(mb))
		if extent > len(mb) {
			return
		}
		mb = mb[:extent]
		raw := rm.Mapping{Raw: mb[2:]}
		var tail []byte
		switch r.Pick(4) {
		case 1:
			tail = r.Bytes(1 + r.Pick(8))
		case 2:
			tail = gen.RouterAddress(r).Encode()
		case 3:
			tail = []byte{0}
		}
		type ctx struct {
			site string
			in   []byte
			opts func() (data.Mapping, bool) // the mapping as the container exposes it; false when rejected
		}
		var ctxs []ctx
		switch (i / 2) % 5 {
		case 0:
			a := gen.RouterAddress(r)
			a.Options = raw
			in := append(a.Encode(), tail...)
			ctxs = append(ctxs, ctx{"router_address.ReadRouterAddress", in, func() (data.Mapping, bool) {
				ra, _, err := router_address.ReadRouterAddress(in)
				if err != nil {
					return data.Mapping{}, false
				}
				return ra.Options(), true
			}})
		case 1:
			ri, _ := gen.RouterInfo(r)
			ri.Options = raw
			ri.PeerSize, ri.PeerHashes = 0, nil
			in := append(ri.Encode(), tail...)
			ctxs = append(ctxs, ctx{"router_info.ReadRouterInfo", in, func() (data.Mapping, bool) {
				v, _, err := router_info.ReadRouterInfo(in)
				if err != nil {
					return data.Mapping{}, false
				}
				return v.Options(), true
			}})
			if len(ri.Addrs) > 0 {
				// ... and as the options of an address inside a RouterInfo (always followed by more data)
				k := r.Pick(len(ri.Addrs))
				ri2 := ri
				ri2.Addrs = append([]rm.RouterAddress{}, ri.Addrs...)
				ri2.Options = gen.SmallMapping(r)
				ri2.Addrs[k].Options = raw
				in2 := append(ri2.Encode(), tail...)
				ctxs = append(ctxs, ctx{"router_info.ReadRouterInfo(address options)", in2, func() (data.Mapping, bool) {
					v, _, err := router_info.ReadRouterInfo(in2)
					if err != nil || len(v.RouterAddresses()) <= k {
						return data.Mapping{}, false
					}
					return v.RouterAddresses()[k].Options(), true
				}})
			}
		case 2:
			l, _ := gen.LeaseSet2(r)
			l.Options = raw
			in := append(l.Encode(), tail...)
			ctxs = append(ctxs, ctx{"lease_set2.ReadLeaseSet2", in, func() (data.Mapping, bool) {
				v, _, err := lease_set2.ReadLeaseSet2(in)
				if err != nil {
					return data.Mapping{}, false
				}
				return v.Options(), true
			}})
		case 3:
			l, _ := gen.MetaLeaseSet(r)
			l.Options = raw
			in := append(l.Encode(), tail...)
			ctxs = append(ctxs, ctx{"meta_leaseset.ReadMetaLeaseSet", in, func() (data.Mapping, bool) {
				v, _, err := meta_leaseset.ReadMetaLeaseSet(in)
				if err != nil {
					return data.Mapping{}, false
				}
				return v.Options(), true
			}})
		default:
			l, _ := gen.MetaLeaseSet(r)
			if len(l.Entries) == 0 {
				l.Entries = []rm.MetaEntry{{}}
			}
			k := r.Pick(len(l.Entries))
			l.Entries = append([]rm.MetaEntry{}, l.Entries...)
			l.Entries[k].Props = raw
			in := append(l.Encode(), tail...)
			ctxs = append(ctxs, ctx{"meta_leaseset.ReadMetaLeaseSet(entry properties)", in, func() (data.Mapping, bool) {
				v, _, err := meta_leaseset.ReadMetaLeaseSet(in)
				if err != nil || len(v.Entries()) <= k {
					return data.Mapping{}, false
				}
				e := v.Entries()[k]
				return e.Properties(), true
			}})
		}
		for _, x := range ctxs {
			c.Eval(1)
			sh := gen.Shape{"class": class, "canonical": canonical, "tail": len(tail), "body": len(mb) - 2}
			var mp data.Mapping
			var ok bool
			panicked, _, _ := c.Call(x.site, x.in, func() { mp, ok = x.opts() })
			if panicked {
				continue
			}
			c.OpResult(x.site, ok)
			if !ok {
				if canonical {
					c.Violate(x.site, "canonical-mapping-rejected-as-embedded-field", sh, x.in, "the canonical encoding of a Go map within the limits is refused in this position")
				}
				continue
			}
			c.Nontrivial([]byte("embedded"), []byte(x.site), x.in)
			if ser := mp.Data(); !bytes.Equal(ser, mb) {
				c.Violate(x.site, "parsed-without-error-but-reserialises-differently", sh, x.in, describeDiff(mb, ser))
				continue
			}
			if canonical {
				back, err := mp.ToGoMap()
				same := err == nil && len(back) == len(g)
				for k, v := range g {
					if bv, ok := back[k]; !ok || bv != v {
						same = false
					}
				}
				if !same {
					c.Violate(x.site, "map-differs-after-round-trip", sh, x.in, fmt.Sprintf("%d pairs in, %d pairs out, %v", len(g), len(back), err))
				}
			}
		}
	})

	c.Job("parser", c.N(20000, 400000), func(i int, r *core.Rand) {
		var in []byte
		class := ""
		switch i % 5 {
		case 0:
			m := gen.Mapping(r, 40)
			in, class = m.Encode(), "wellformed"
		case 1:
			in, _ = gen.MappingWithJunk(r)
			class = "junk-in-extent"
		case 2:
			m := gen.Mapping(r, 12)
			cs := gen.WellFormed("mapping", 0, r)
			in, _ = gen.Mutate(r, gen.Case{Bytes: m.Encode(), Ctrl: cs.Ctrl}, cs.Bytes)
			class = "mutated"
		case 3:
			in, class = r.Bytes(r.Pick(60)), "random"
		default: // duplicate keys, odd orders
			m := gen.Mapping(r, 6)
			if len(m.Pairs) > 0 {
				m.Pairs = append(m.Pairs, m.Pairs[r.Pick(len(m.Pairs))])
			}
			in, class = m.Encode(), "duplicate-key"
		}
		c.Eval(1)
		var mp data.Mapping
		var rem []byte
		var errs []error
		panicked, _, _ := c.Call("data.ReadMapping", in, func() { mp, rem, errs = data.ReadMapping(in) })
		if panicked {
			return
		}
		c.OpResult("data.ReadMapping", len(errs) == 0)
		if len(errs) != 0 {
			return
		}
		c.Nontrivial([]byte("parser"), in)
		consumed := in[:len(in)-len(rem)]
		if i%2 == 1 {
			// the read-only queries a caller makes before serialising leave the mapping as it was read
			mp.HasDuplicateKeys()
			mp.ToGoMap()
			mp.Values()
			mp.IsValid()
			_ = lib.Observe(&mp, lib.ObserveOpts{Depth: 1})
		}
		if ser := mp.Data(); !bytes.Equal(ser, consumed) {
			c.Violate("data.ReadMapping", "parsed-without-error-but-reserialises-differently", gen.Shape{"class": class}, in, describeDiff(consumed, ser))
		}
		if len(consumed) >= 2 && int(binary.BigEndian.Uint16(consumed)) != len(consumed)-2 {
			c.Violate("data.ReadMapping", "size-field-differs-from-extent", gen.Shape{"class": class}, in, "")
		}
	})
}

// mapOfExactSize builds a map whose encoded body is exactly target bytes using `pairs` pairs.
func mapOfExactSize(r *core.Rand, target, pairs int) map[string]string {
	g := map[string]string{}
	// each pair costs 4 + len(k) + len(v); the string bytes are spread over keys (>= 6 bytes,
	// unique by a numeric prefix) and values, each at most 255 bytes
	rest := target - 4*pairs
	per := rest / pairs
	extra := rest - per*pairs
	for j := 0; j < pairs; j++ {
		tot := per
		if j < extra {
			tot++
		}
		if tot < 6 {
			tot = 6
		}
		vl := tot - 6
		if vl > 255 {
			vl = 255
		}
		kl := tot - vl
		if kl > 255 {
			kl = 255 // cannot reach the target with this pair count; the caller detects the mismatch
		}
		k := append([]byte(fmt.Sprintf("%06d", j)), r.Bytes(kl-6)...)
		g[string(k)] = string(r.Bytes(vl))
	}
	return g
}

func c11Map(c *core.Ctx, g map[string]string, class string, r *core.Rand) {
	c.Eval(1)
	size := mapSize(g)
	sh := gen.Shape{"class": class, "pairs": len(g), "body": size}
	ref := refEncodeMap(g)
	var m *data.Mapping
	var err error
	panicked, _, _ := c.Call("data.GoMapToMapping", ref[:min(len(ref), 4096)], func() { m, err = data.GoMapToMapping(g) })
	if panicked {
		return
	}
	c.OpResult("data.GoMapToMapping", err == nil)
	c.Bucket("class/" + classHead(class))
	if size > 65535 {
		if err == nil {
			d := m.Data()
			c.Violate("data.GoMapToMapping", "oversize-accepted", sh, head(d, 64), fmt.Sprintf("a map of %d body bytes was converted; Data() is %d bytes with size field %d", size, len(d), binary.BigEndian.Uint16(d)))
		}
		c.Nontrivial([]byte("map"), []byte(class), ref[:min(len(ref), 300)], []byte(fmt.Sprint(size)))
		return
	}
	if err != nil || m == nil {
		c.Violate("data.GoMapToMapping", "in-limit-map-rejected", sh, head(ref, 64), fmt.Sprint(err))
		return
	}
	c.Nontrivial([]byte("map"), ref)
	d := m.Data()
	// size field and sorted canonical form (the reference encodes sorted by key, bytewise)
	if len(d) < 2 || int(binary.BigEndian.Uint16(d)) != len(d)-2 {
		c.Violate("data.Mapping.Data", "size-field-differs-from-extent", sh, head(d, 64), "")
		return
	}
	if !bytes.Equal(d, ref) {
		c.Violate("data.GoMapToMapping", "not-canonical-sorted-encoding", sh, head(d, 200), describeDiff(ref, d))
		return
	}
	// determinism over repeated conversions (map iteration order is randomised by Go)
	reps := 16
	if len(g) > 100 {
		reps = 3
	}
	for k := 0; k < reps; k++ {
		m2, err := data.GoMapToMapping(g)
		if err != nil || !bytes.Equal(m2.Data(), d) {
			c.Violate("data.GoMapToMapping", "non-deterministic-encoding", sh, head(d, 200), fmt.Sprintf("conversion %d differs", k))
			return
		}
	}
	// ValuesToMapping in a shuffled input order
	var pairs []rm.Pair
	for k, v := range g {
		pairs = append(pairs, rm.Pair{K: []byte(k), V: []byte(v)})
	}
	r.Shuffle(len(pairs), func(a, b int) { pairs[a], pairs[b] = pairs[b], pairs[a] })
	if m3, err := lib.BuildMappingValues(rm.Mapping{Pairs: pairs}); err != nil || !bytes.Equal(m3.Data(), d) {
		c.Violate("data.ValuesToMapping", "not-canonical-sorted-encoding", sh, head(d, 200), fmt.Sprint(err))
		return
	}
	// calling Data() twice gives the same bytes (no hidden mutation), also after the caller has
	// overwritten the bytes it was handed the first time
	first := m.Data()
	for j := range first {
		first[j] ^= 0x5A
	}
	if !bytes.Equal(m.Data(), d) {
		c.Violate("data.Mapping.Data", "second-call-differs", sh, head(d, 200), "Data() after the caller overwrote the previous result")
		return
	}
	// parse back without ANY error, to the same map, re-serialising identically
	p, rem, errs := data.ReadMapping(d)
	if len(errs) != 0 {
		c.Violate("data.ReadMapping", "constructed-mapping-does-not-parse-cleanly", sh, head(d, 200), firstLineOf(errs[0].Error()))
		return
	}
	if len(rem) != 0 {
		c.Violate("data.ReadMapping", "remainder-after-constructed-mapping", sh, head(d, 200), "")
		return
	}
	back, err := p.ToGoMap()
	if err != nil || len(back) != len(g) {
		c.Violate("data.Mapping.ToGoMap", "map-differs-after-round-trip", sh, head(d, 200), fmt.Sprintf("%d pairs in, %d pairs out, %v", len(g), len(back), err))
		return
	}
	for k, v := range g {
		if bv, ok := back[k]; !ok || bv != v {
			c.Violate("data.Mapping.ToGoMap", "map-differs-after-round-trip", sh, head(d, 200), fmt.Sprintf("key %q: %q -> %q (present %v)", k, v, bv, ok))
			return
		}
	}
	if !bytes.Equal(p.Data(), d) {
		c.Violate("data.ReadMapping", "parsed-without-error-but-reserialises-differently", sh, head(d, 200), "")
		return
	}
	// the Go map that was handed out is the caller's: it does not change when the buffer the
	// mapping was read from is reused (Go strings are immutable; a view into the buffer is not)
	for j := range d {
		d[j] ^= 0x77
	}
	for k, v := range g {
		if bv, ok := back[k]; !ok || bv != v {
			c.Violate("data.Mapping.ToGoMap", "map-differs-after-round-trip", sh, nil, fmt.Sprintf("after the caller reused the buffer the mapping was read from, key %q maps to %q (present %v) instead of %q", k, bv, ok, v))
			return
		}
	}
	for j := range d {
		d[j] ^= 0x77
	}
	c.Sample(gen.Shape{"class": class, "pairs": len(g), "body_bytes": size})
}
