package mon

import (
	"bytes"
	"encoding/binary"
	"fmt"
	"math"
	"math/big"
	"time"

	"github.com/go-i2p/common/data"
	"github.com/go-i2p/common/encrypted_leaseset"
	"github.com/go-i2p/common/lease"
	"github.com/go-i2p/common/lease_set"
	"github.com/go-i2p/common/lease_set2"
	"github.com/go-i2p/common/meta_leaseset"
	"github.com/go-i2p/common/offline_signature"

	"verifharness/core"
	"verifharness/gen"
	"verifharness/lib"
	rm "verifharness/refmodel"
)

// C15 — expiry arithmetic is exact over the whole range of the wire fields.
func init() { register("C15", runC15) }

// unixMsBig is the exact millisecond value of a time.Time as a big integer.
func unixMsBig(t time.Time) *big.Int {
	s := new(big.Int).Mul(big.NewInt(t.Unix()), big.NewInt(1000))
	return s.Add(s, big.NewInt(int64(t.Nanosecond()/1000000)))
}

func runC15(c *core.Ctx) {
	pubs := []uint32{0, 1, 1<<31 - 1, 1 << 31, 1<<31 + 1, 1<<32 - 1, 1<<32 - 2, 1<<32 - 65535, 1<<32 - 65536, 1<<32 - 65537, 1700000000}
	for p := uint32(0); p < 40; p++ {
		pubs = append(pubs, 1<<32-1-65535+p*3500)
	}
	offs := []uint16{0, 1, 2, 599, 600, 65534, 65535, 32768}

	// published + expires for LeaseSet2 / MetaLeaseSet / EncryptedLeaseSet, via the parsers
	total := len(pubs)*len(offs) + c.N(3000, 60000)
	c.Job("published-plus-expires", total, func(i int, r *core.Rand) {
		var pub uint32
		var off uint16
		if i < len(pubs)*len(offs) {
			pub, off = pubs[i/len(offs)], offs[i%len(offs)]
		} else {
			pub, off = r.Uint32(), uint16(r.Pick(65536))
		}
		want := new(big.Int).Add(big.NewInt(int64(pub)), big.NewInt(int64(off)))
		want.Mul(want, big.NewInt(1000))
		sh := gen.Shape{"published": pub, "expires": off, "sum_crosses_2^32": uint64(pub)+uint64(off) > 1<<32-1}
		in := []byte(fmt.Sprintf("%d+%d", pub, off))
		c.Eval(1)
		c.Nontrivial([]byte("pe"), in)
		check := func(site string, pt, et time.Time) {
			if unixMsBig(pt).Cmp(new(big.Int).Mul(big.NewInt(int64(pub)), big.NewInt(1000))) != 0 {
				c.Violate(site+".PublishedTime", "published-time-inexact", sh, in, fmt.Sprintf("published %d s, PublishedTime() = %v", pub, pt.Unix()))
			}
			if unixMsBig(et).Cmp(want) != 0 {
				c.Violate(site+".ExpirationTime", "expiration-inexact", sh, in, fmt.Sprintf("published %d + expires %d, ExpirationTime() = %d s", pub, off, et.Unix()))
			}
		}
		// LeaseSet2
		l2, _ := gen.LeaseSet2(r)
		l2.Published, l2.Expires = pub, off
		if p, _, err := lease_set2.ReadLeaseSet2(l2.Encode()); err == nil {
			c.Call("LeaseSet2 times", in, func() { check("lease_set2.LeaseSet2", p.PublishedTime(), p.ExpirationTime()) })
			if p.Published() != pub || p.Expires() != off {
				c.Violate("lease_set2.LeaseSet2.Published", "field-differs", sh, in, "")
			}
			c.Bucket("ls2-checked")
		}
		ml, _ := gen.MetaLeaseSet(r)
		ml.Published, ml.Expires = pub, off
		if p, _, err := meta_leaseset.ReadMetaLeaseSet(ml.Encode()); err == nil {
			c.Call("MetaLeaseSet times", in, func() { check("meta_leaseset.MetaLeaseSet", p.PublishedTime(), p.ExpirationTime()) })
			c.Bucket("meta-checked")
			for j, e := range p.Entries() {
				if j < len(ml.Entries) {
					wantE := new(big.Int).Mul(big.NewInt(int64(ml.Entries[j].Expires)), big.NewInt(1000))
					if unixMsBig(e.ExpiresTime()).Cmp(wantE) != 0 {
						c.Violate("meta_leaseset.MetaLeaseSetEntry.ExpiresTime", "expiration-inexact", gen.Shape{"expires": ml.Entries[j].Expires}, in, "")
					}
				}
			}
		}
		if off != 0 {
			el, _ := gen.EncryptedLeaseSet(r)
			el.Published, el.Expires = pub, off
			if p, _, err := encrypted_leaseset.ReadEncryptedLeaseSet(el.Encode()); err == nil {
				c.Call("EncryptedLeaseSet times", in, func() { check("encrypted_leaseset.EncryptedLeaseSet", p.PublishedTime(), p.ExpirationTime()) })
				c.Bucket("els-checked")
			}
		}
	})
	c.Exhaustive(fmt.Sprintf("all %d boundary (published, expires) combinations", len(pubs)*len(offs)))

	// the same arithmetic on values built through the constructors (NewLeaseSet2, both
	// EncryptedLeaseSet constructors): the fields handed over are the fields stored, at every
	// boundary, and the times derived from them are exact
	c.Job("published-plus-expires-constructed", len(pubs)*len(offs)+c.N(150, 3000), func(i int, r *core.Rand) {
		var pub uint32
		var off uint16
		if i < len(pubs)*len(offs) {
			pub, off = pubs[i/len(offs)], offs[i%len(offs)]
		} else {
			pub, off = r.Uint32(), uint16(r.Pick(65536))
		}
		want := new(big.Int).Add(big.NewInt(int64(pub)), big.NewInt(int64(off)))
		want.Mul(want, big.NewInt(1000))
		sh := gen.Shape{"published": pub, "expires": off, "constructed": true}
		in := []byte(fmt.Sprintf("ctor %d+%d", pub, off))
		c.Eval(1)
		c.Nontrivial([]byte("pe-ctor"), in)
		check := func(site string, gotPub uint32, gotOff uint16, pt, et time.Time) {
			if gotPub != pub || gotOff != off {
				c.Violate(site, "field-differs", sh, in, fmt.Sprintf("constructed with published %d, expires %d; the value reports %d, %d", pub, off, gotPub, gotOff))
				return
			}
			if unixMsBig(pt).Cmp(new(big.Int).Mul(big.NewInt(int64(pub)), big.NewInt(1000))) != 0 {
				c.Violate(site+".PublishedTime", "published-time-inexact", sh, in, fmt.Sprintf("published %d s, PublishedTime() = %v", pub, pt.Unix()))
			}
			if unixMsBig(et).Cmp(want) != 0 {
				c.Violate(site+".ExpirationTime", "expiration-inexact", sh, in, fmt.Sprintf("published %d + expires %d, ExpirationTime() = %d s", pub, off, et.Unix()))
			}
		}
		l2, _ := gen.LeaseSet2(r)
		l2.Published, l2.Expires, l2.Flags, l2.Offline = pub, off, l2.Flags&6, nil
		if len(l2.Leases) == 0 {
			l2.Leases = []rm.Lease2{gen.Lease2(r)}
		}
		l2.Keys = []rm.EncKey{{Type: 4, Data: r.Bytes(32)}}
		if p, ok, err := lib.BuildLeaseSet2(l2, nil); ok && err == nil {
			c.Call("LeaseSet2 times (constructed)", in, func() {
				check("lease_set2.NewLeaseSet2", p.Published(), p.Expires(), p.PublishedTime(), p.ExpirationTime())
			})
			c.Bucket("ls2-constructed-checked")
		}
		st := []int{7, 11}[i%2]
		key, _ := rm.NewSigKey(st, r)
		el, _ := gen.EncryptedLeaseSet(r)
		el.SigType, el.BlindedKey, el.Offline, el.Flags = uint16(st), key.Pub, nil, el.Flags&2
		el.Published, el.Expires = pub, off
		if a, err := encrypted_leaseset.NewEncryptedLeaseSet(el.SigType, el.BlindedKey, pub, off, el.Flags, nil, el.Inner, key.Ed25519Private()); err == nil {
			c.Call("EncryptedLeaseSet times (constructed)", in, func() {
				check("encrypted_leaseset.NewEncryptedLeaseSet", a.Published(), a.Expires(), a.PublishedTime(), a.ExpirationTime())
			})
			c.Bucket("els-constructed-checked")
		}
		d, _ := gen.KACOf(r, st, 4)
		copy(d.Block[384-32:], key.Pub)
		if dest, ok, err := lib.BuildDestination(d); ok && err == nil {
			if b, err := encrypted_leaseset.NewEncryptedLeaseSetFromDestination(*dest, pub, off, el.Flags, nil, el.Inner, key.Ed25519Private()); err == nil {
				c.Call("EncryptedLeaseSet times (constructed from destination)", in, func() {
					check("encrypted_leaseset.NewEncryptedLeaseSetFromDestination", b.Published(), b.Expires(), b.PublishedTime(), b.ExpirationTime())
				})
				c.Bucket("els-from-destination-checked")
			}
		}
	})

	// Lease / Lease2 time conversions and the 32-bit constructor's range check
	secs := []int64{-1, -1 << 31, 0, 1, 1<<31 - 1, 1 << 31, 1<<32 - 1, 1 << 32, 1<<32 + 1, 1 << 33, 1 << 40, 1 << 62 / 1000,
		1 << 53, 1 << 54, 1<<54 + 12345, 1 << 60, 1 << 61, 1<<61 + 12345, 1 << 62, 1<<62 + 1<<32, 1<<63 - 1, -1 << 62, -1 << 63,
		(1<<63-1)/1000 + 1, (1<<63-1)/1000 + 1<<32 + 7, 18446744073709551 /* 2^64/1000 */, 18446744073709552, 18446744073709551 + 1<<31}
	c.Job("lease2-ctor", len(secs)+c.N(4000, 80000), func(i int, r *core.Rand) {
		var s int64
		if i < len(secs) {
			s = secs[i]
		} else {
			s = int64(r.Uint64()>>uint(1+r.Pick(63))) - int64(r.Pick(3))
			if r.Chance(1, 8) {
				s = -s
			}
			if r.Chance(1, 4) {
				// within a day either side of the two ends of the range (where a bound computed in
				// local time is off by the zone offset)
				s = []int64{0, 1 << 32}[r.Pick(2)] + int64(r.Pick(2*86400+1)) - 86400
			}
		}
		c.Eval(1)
		in := []byte(fmt.Sprint(s))
		sh := gen.Shape{"in_range": s >= 0 && s <= 1<<32-1}
		var gw data.Hash
		gw[0] = 1
		nanos := int64(r.Pick(1000000000))
		// the instant is what counts, not the Location it is expressed in
		at := time.Unix(s, nanos)
		switch (i / 3) % 4 {
		case 1:
			at = at.UTC()
			sh["location"] = "UTC"
		case 2:
			off := (r.Pick(26*4+1) - 12*4) * 900 // UTC-12:00 .. UTC+14:00 in quarter hours
			at = at.In(time.FixedZone("zone", off))
			sh["location"] = fmt.Sprintf("fixed%+d", off)
		case 3:
			for _, name := range []string{"America/New_York", "Asia/Kolkata", "Pacific/Kiritimati", "Pacific/Pago_Pago"}[r.Pick(4):] {
				if loc, err := time.LoadLocation(name); err == nil {
					at = at.In(loc)
					sh["location"] = name
					break
				}
			}
		}
		l, err := lease.NewLease2(gw, 7, at)
		c.OpResult("lease.NewLease2", err == nil)
		c.Nontrivial([]byte("l2ctor"), in)
		if s >= 0 && s <= 1<<32-1 {
			if err != nil || l == nil {
				c.Violate("lease.NewLease2", "in-range-time-rejected", sh, in, fmt.Sprint(err))
				return
			}
			if uint64(l.EndDate()) != uint64(s) {
				c.Violate("lease.NewLease2", "stored-value-differs", sh, in, fmt.Sprintf("unix %d stored as %d", s, l.EndDate()))
			}
		} else if err == nil {
			c.Violate("lease.NewLease2", "out-of-range-time-stored", sh, in, fmt.Sprintf("unix %d accepted and stored as %d", s, l.EndDate()))
		}
	})

	c.Job("lease-times", c.N(6000, 120000), func(i int, r *core.Rand) {
		c.Eval(1)
		// Lease2: every 32-bit end date
		e := r.Uint32()
		switch i {
		case 0:
			e = 0
		case 1:
			e = 1<<32 - 1
		case 2:
			e = 1 << 31
		case 3:
			e = 1<<31 - 1
		}
		m2 := gen.Lease2(r)
		m2.EndS = e
		p2, _, err := lease.ReadLease2(m2.Encode())
		in := m2.Encode()
		if err == nil {
			sh := gen.Shape{"end_s": e}
			wantMs := new(big.Int).Mul(big.NewInt(int64(e)), big.NewInt(1000))
			if p2.EndDate() != e {
				c.Violate("lease.Lease2.EndDate", "field-differs", sh, in, "")
			}
			if unixMsBig(p2.Time()).Cmp(wantMs) != 0 {
				c.Violate("lease.Lease2.Time", "time-inexact", sh, in, fmt.Sprintf("end %d s, Time() = %d", e, p2.Time().Unix()))
			}
			d := p2.Date()
			if rm.BigFromBytes(d[:]).Cmp(wantMs) != 0 {
				c.Violate("lease.Lease2.Date", "time-inexact", sh, in, fmt.Sprintf("end %d s, Date() = %x", e, d[:]))
			}
		}
		// Lease: millisecond dates below 2^63
		ms := r.Uint64() >> uint(1+r.Pick(40))
		switch i {
		case 4:
			ms = 1<<63 - 1
		case 5:
			ms = 0
		case 6:
			ms = 1 << 62
		}
		m1 := gen.Lease(r)
		m1.EndMs = ms
		p1, _, err := lease.ReadLease(m1.Encode())
		if err == nil {
			sh := gen.Shape{"end_ms_bits": big.NewInt(0).SetUint64(ms).BitLen()}
			if unixMsBig(p1.Time()).Cmp(new(big.Int).SetUint64(ms)) != 0 {
				c.Violate("lease.Lease.Time", "time-inexact", sh, m1.Encode(), fmt.Sprintf("end %d ms, Time() = %d ms", ms, p1.Time().UnixMilli()))
			}
			d := p1.Date()
			if rm.BigFromBytes(d[:]).Cmp(new(big.Int).SetUint64(ms)) != 0 {
				c.Violate("lease.Lease.Date", "time-inexact", sh, m1.Encode(), "")
			}
			if unixMsBig(d.Time()).Cmp(new(big.Int).SetUint64(ms)) != 0 {
				c.Violate("data.Date.Time", "time-inexact", sh, m1.Encode(), "")
			}
			// the constructor stores the same value
			if cl, err := lease.NewLease(data.Hash(m1.GW), m1.TunnelID, time.UnixMilli(int64(ms))); err != nil || !bytes.Equal(cl.Bytes(), m1.Encode()) {
				c.Violate("lease.NewLease", "stored-value-differs", sh, m1.Encode(), fmt.Sprint(err))
			}
		}
		// conversions between second and millisecond timestamps over the same range
		{
			sh := gen.Shape{"ms_bits": big.NewInt(0).SetUint64(ms).BitLen(), "class": "conversion"}
			want := new(big.Int).SetUint64(ms)
			wb := make([]byte, 8)
			binary.BigEndian.PutUint64(wb, ms)
			if d, err := data.NewDateFromMillis(int64(ms)); err != nil || d == nil || rm.BigFromBytes(d[:]).Cmp(want) != 0 {
				c.Violate("data.NewDateFromMillis", "conversion-inexact", sh, wb, fmt.Sprintf("%d ms stored as %v (%v)", ms, d, err))
			} else if unixMsBig(d.Time()).Cmp(want) != 0 {
				c.Violate("data.Date.Time", "conversion-inexact", sh, wb, "")
			}
			if d, err := data.DateFromTime(time.UnixMilli(int64(ms))); err != nil || d == nil || rm.BigFromBytes(d[:]).Cmp(want) != 0 {
				c.Violate("data.DateFromTime", "conversion-inexact", sh, wb, fmt.Sprintf("%d ms stored as %v (%v)", ms, d, err))
			}
			sec := int64(ms / 1000)
			wantS := new(big.Int).Mul(big.NewInt(sec), big.NewInt(1000))
			if d, err := data.NewDateFromUnix(sec); err != nil || d == nil || rm.BigFromBytes(d[:]).Cmp(wantS) != 0 {
				c.Violate("data.NewDateFromUnix", "conversion-inexact", sh, wb, fmt.Sprintf("%d s stored as %v (%v)", sec, d, err))
			}
			c.Bucket("second-millisecond-conversions")
		}
		// offline signature expiry
		o := gen.Offline(r, 7)
		o.Expires = e
		po, _, err := offline_signature.ReadOfflineSignature(o.Encode(), 7)
		if err == nil {
			sh := gen.Shape{"expires": e}
			wantMs := new(big.Int).Mul(big.NewInt(int64(e)), big.NewInt(1000))
			if unixMsBig(po.ExpiresTime()).Cmp(wantMs) != 0 {
				c.Violate("offline_signature.OfflineSignature.ExpiresTime", "time-inexact", sh, o.Encode(), "")
			}
			d, err := po.ExpiresDate()
			if err != nil || d == nil || rm.BigFromBytes(d[:]).Cmp(wantMs) != 0 {
				c.Violate("offline_signature.OfflineSignature.ExpiresDate", "time-inexact", sh, o.Encode(), fmt.Sprint(err))
			}
			if po.Expires() != e {
				c.Violate("offline_signature.OfflineSignature.Expires", "field-differs", sh, o.Encode(), "")
			}
			// the Date handed out is the caller's: changing it changes nothing the value reports later,
			// for the value itself and for a copy of the struct
			if d != nil {
				cp := po
				for j := range d {
					d[j] ^= 0xFF
				}
				for which, v := range []*offline_signature.OfflineSignature{&po, &cp} {
					d2, err := v.ExpiresDate()
					if err != nil || d2 == nil || rm.BigFromBytes(d2[:]).Cmp(wantMs) != 0 || unixMsBig(v.ExpiresTime()).Cmp(wantMs) != 0 {
						c.Violate("offline_signature.OfflineSignature.ExpiresDate", "time-inexact", gen.Shape{"expires": e, "class": "after the caller changed the Date an earlier call returned", "struct_copy": which == 1}, o.Encode(), fmt.Sprint(err))
						break
					}
				}
			}
			// the same through the constructor
			if co, err := lib.BuildOffline(o, 7); err == nil {
				if unixMsBig(co.ExpiresTime()).Cmp(wantMs) != 0 {
					c.Violate("offline_signature.OfflineSignature.ExpiresTime", "time-inexact", gen.Shape{"expires": e, "constructed": true}, o.Encode(), "")
				}
				if d, err := co.ExpiresDate(); err != nil || d == nil || rm.BigFromBytes(d[:]).Cmp(wantMs) != 0 {
					c.Violate("offline_signature.OfflineSignature.ExpiresDate", "time-inexact", gen.Shape{"expires": e, "constructed": true}, o.Encode(), fmt.Sprint(err))
				}
			}
		}
		// second counts beyond the millisecond range are refused, whatever their product with 1000 wraps to
		{
			limit := int64(math.MaxInt64 / 1000)
			s := limit + 1 + int64(r.Uint64()%uint64(math.MaxInt64-limit))
			if i%2 == 0 {
				s = int64(1+r.Pick(9)) * int64(math.Pow10(16+r.Pick(3)))
				if s <= limit {
					s = limit + 1
				}
			}
			if d, err := data.NewDateFromUnix(s); err == nil {
				c.Violate("data.NewDateFromUnix", "conversion-inexact", gen.Shape{"seconds_beyond_millisecond_range": true}, []byte(fmt.Sprint(s)), fmt.Sprintf("%d s has no millisecond Date; stored as %v", s, d))
			}
		}
		c.Nontrivial([]byte("leasetimes"), in, m1.Encode())
	})

	// newest / oldest expiration of a LeaseSet
	c.Job("newest-oldest", c.N(3000, 60000), func(i int, r *core.Rand) {
		c.Eval(1)
		m, sh := gen.LeaseSet(r)
		n := 1 + r.Pick(16)
		m.Leases = nil
		for j := 0; j < n; j++ {
			l := gen.Lease(r)
			switch r.Pick(6) {
			case 0:
				l.EndMs = 1<<63 - 1 - uint64(r.Pick(3))
			case 1:
				l.EndMs = uint64(r.Pick(3))
			case 2:
				if j > 0 {
					l.EndMs = m.Leases[r.Pick(j)].EndMs // ties
				}
			case 3:
				if j > 0 { // another lease within the same second as an earlier one
					l.EndMs = m.Leases[r.Pick(j)].EndMs/1000*1000 + uint64(r.Pick(1000))
				}
			default:
				l.EndMs = r.Uint64() >> 1
			}
			l.EndMs &= 1<<63 - 1 // the statement covers millisecond dates below 2^63
			m.Leases = append(m.Leases, l)
		}
		enc := m.Encode()
		ls, err := lease_set.ReadLeaseSet(enc)
		if err != nil {
			return
		}
		sh["leases"] = n
		c.Nontrivial([]byte("newold"), enc)
		newest, err1 := ls.NewestExpiration()
		oldest, err2 := ls.OldestExpiration()
		if err1 != nil || err2 != nil {
			c.Violate("lease_set.LeaseSet.NewestExpiration", "error-with-leases", sh, enc, fmt.Sprint(err1, err2))
			return
		}
		nv, ov := rm.BigFromBytes(newest[:]), rm.BigFromBytes(oldest[:])
		memberN, memberO := false, false
		for _, l := range m.Leases {
			v := new(big.Int).SetUint64(l.EndMs)
			if v.Cmp(nv) == 0 {
				memberN = true
			}
			if v.Cmp(ov) == 0 {
				memberO = true
			}
			if v.Cmp(nv) > 0 {
				c.Violate("lease_set.LeaseSet.NewestExpiration", "does-not-bound-all-leases", sh, enc, fmt.Sprintf("lease ends at %v, newest reported %v", v, nv))
				return
			}
			if v.Cmp(ov) < 0 {
				c.Violate("lease_set.LeaseSet.OldestExpiration", "does-not-bound-all-leases", sh, enc, fmt.Sprintf("lease ends at %v, oldest reported %v", v, ov))
				return
			}
		}
		if !memberN {
			c.Violate("lease_set.LeaseSet.NewestExpiration", "not-a-member", sh, enc, "")
		}
		if !memberO {
			c.Violate("lease_set.LeaseSet.OldestExpiration", "not-a-member", sh, enc, "")
		}
	})

	// one wall-clock clause with a 24 h margin: expired a day ago / expires a day ahead
	now := time.Now()
	c.Job("day-margin", c.N(400, 4000), func(i int, r *core.Rand) {
		c.Eval(1)
		past := i%2 == 0
		delta := int64(86400 + r.Pick(86400*300))
		var at int64
		if past {
			at = now.Unix() - delta
		} else {
			at = now.Unix() + delta
		}
		// ... and over the whole range of the 32-bit second fields, not only the year around today:
		// any instant at least a day away from now, the boundaries of the field included
		switch (i / 2) % 4 {
		case 1:
			if past {
				at = 65536 + int64(r.Uint64()%uint64(now.Unix()-86400-65536))
			} else {
				at = now.Unix() + 86400 + int64(r.Uint64()%uint64(int64(1<<32-1)-now.Unix()-86400))
			}
		case 2:
			if past {
				at = []int64{65536, 65537, 86400, 1 << 20, 1 << 30, 1000000000}[r.Pick(6)]
			} else {
				at = []int64{1<<31 - 1, 1 << 31, 1<<31 + 1, 3000000000, 4000000000, 1<<32 - 2, 1<<32 - 1}[r.Pick(7)]
			}
		}
		if at <= now.Unix()-86400 != past || (at >= now.Unix()+86400) == past {
			return
		}
		sh := gen.Shape{"past": past}
		in := []byte(fmt.Sprint(at))
		c.Nontrivial([]byte("day"), in)
		report := func(site string, expired bool) {
			if expired != past {
				c.Violate(site, "expiry-verdict-wrong-with-a-day-of-margin", sh, in, fmt.Sprintf("expiry at unix %d (now %d) reported expired=%v", at, now.Unix(), expired))
			}
		}
		// LeaseSet2 / Meta / ELS: published = at - off
		off := uint16(1 + r.Pick(65535))
		pub := uint32(at - int64(off))
		l2, _ := gen.LeaseSet2(r)
		l2.Published, l2.Expires = pub, off
		if p, _, err := lease_set2.ReadLeaseSet2(l2.Encode()); err == nil {
			report("lease_set2.LeaseSet2.IsExpired", p.IsExpired())
		}
		ml, _ := gen.MetaLeaseSet(r)
		ml.Published, ml.Expires = pub, off
		ml.Entries[0].Expires = uint32(at)
		if p, _, err := meta_leaseset.ReadMetaLeaseSet(ml.Encode()); err == nil {
			report("meta_leaseset.MetaLeaseSet.IsExpired", p.IsExpired())
			e, _ := p.GetEntry(0)
			report("meta_leaseset.MetaLeaseSetEntry.IsExpired", e.IsExpired())
		}
		el, _ := gen.EncryptedLeaseSet(r)
		el.Published, el.Expires = pub, off
		if p, _, err := encrypted_leaseset.ReadEncryptedLeaseSet(el.Encode()); err == nil {
			report("encrypted_leaseset.EncryptedLeaseSet.IsExpired", p.IsExpired())
		}
		o := gen.Offline(r, 7)
		o.Expires = uint32(at)
		if p, _, err := offline_signature.ReadOfflineSignature(o.Encode(), 7); err == nil {
			report("offline_signature.OfflineSignature.IsExpired", p.IsExpired())
		}
		m2 := gen.Lease2(r)
		m2.EndS = uint32(at)
		if p, _, err := lease.ReadLease2(m2.Encode()); err == nil {
			report("lease.Lease2.IsExpired", p.IsExpired())
		}
		m1 := gen.Lease(r)
		m1.EndMs = uint64(at) * 1000
		if p, _, err := lease.ReadLease(m1.Encode()); err == nil {
			report("lease.Lease.IsExpired", p.IsExpired())
		}
	})

	c15Lifetime(c)
}

// c15Lifetime runs only in the build with the runtime's virtual clock (core.FakeTime). The expiry
// verdicts are functions of the CURRENT time: structures expiring 24-72 h ahead are built, parsed
// and asked (not expired), then the process sleeps past their expiry by another 24-48 h — which
// takes no real time — and the same values, and fresh parses of the same bytes, are asked again
// (expired). A verdict computed against a clock value captured earlier (at package initialisation,
// at parse time, at the first call) does not flip.
func c15Lifetime(c *core.Ctx) {
	if !core.FakeTime {
		return
	}
	c.Job("lifetime", c.N(48, 480), func(i int, r *core.Rand) {
		c.Eval(1)
		now := time.Now()
		ahead := time.Duration(24*3600+r.Pick(48*3600)) * time.Second
		at := now.Add(ahead).Unix()
		type probe struct {
			site    string
			expired func() bool
		}
		var probes []probe
		add := func(site string, f func() bool) { probes = append(probes, probe{site, f}) }
		off := uint16(1 + r.Pick(65535))
		pub := uint32(at - int64(off))
		l2, _ := gen.LeaseSet2(r)
		l2.Published, l2.Expires = pub, off
		if l2.Offline != nil {
			l2.Offline.Expires = uint32(at + 86400*400) // the transient key outlives the leaseset
		}
		l2b := l2.Encode()
		ml, _ := gen.MetaLeaseSet(r)
		ml.Published, ml.Expires = pub, off
		if ml.Offline != nil {
			ml.Offline.Expires = uint32(at + 86400*400)
		}
		ml.Entries[0].Expires = uint32(at)
		mlb := ml.Encode()
		el, _ := gen.EncryptedLeaseSet(r)
		el.Published, el.Expires = pub, off
		if el.Offline != nil {
			el.Offline.Expires = uint32(at + 86400*400)
		}
		elb := el.Encode()
		o := gen.Offline(r, 7)
		o.Expires = uint32(at)
		ob := o.Encode()
		m2 := gen.Lease2(r)
		m2.EndS = uint32(at)
		m2b := m2.Encode()
		m1 := gen.Lease(r)
		m1.EndMs = uint64(at) * 1000
		m1b := m1.Encode()
		parseAll := func(tag string) {
			if p, _, err := lease_set2.ReadLeaseSet2(l2b); err == nil {
				add("lease_set2.LeaseSet2.IsExpired"+tag, p.IsExpired)
			}
			if p, _, err := meta_leaseset.ReadMetaLeaseSet(mlb); err == nil {
				add("meta_leaseset.MetaLeaseSet.IsExpired"+tag, p.IsExpired)
				if e, err := p.GetEntry(0); err == nil {
					add("meta_leaseset.MetaLeaseSetEntry.IsExpired"+tag, e.IsExpired)
				}
			}
			if p, _, err := encrypted_leaseset.ReadEncryptedLeaseSet(elb); err == nil {
				add("encrypted_leaseset.EncryptedLeaseSet.IsExpired"+tag, p.IsExpired)
			}
			if p, _, err := offline_signature.ReadOfflineSignature(ob, 7); err == nil {
				add("offline_signature.OfflineSignature.IsExpired"+tag, p.IsExpired)
			}
			if p, _, err := lease.ReadLease2(m2b); err == nil {
				add("lease.Lease2.IsExpired"+tag, p.IsExpired)
			}
			if p, _, err := lease.ReadLease(m1b); err == nil {
				add("lease.Lease.IsExpired"+tag, p.IsExpired)
			}
		}
		in := []byte(fmt.Sprint(at))
		c.Call("lifetime/parse", in, func() { parseAll("") })
		sh := gen.Shape{"class": "process-lifetime", "ahead_h": int(ahead / time.Hour)}
		for _, p := range probes {
			p := p
			c.Call(p.site, in, func() {
				if p.expired() {
					c.Violate(p.site, "expiry-verdict-wrong-with-a-day-of-margin", sh, in, fmt.Sprintf("expires %v after now, reported expired", ahead))
				}
			})
		}
		n0 := len(probes)
		// ... the process lives on, past the expiry by at least another day
		past := ahead + time.Duration(24*3600+r.Pick(24*3600))*time.Second
		time.Sleep(past)
		c.Call("lifetime/parse-again", in, func() { parseAll(" (parsed after the expiry)") })
		for k, p := range probes {
			p := p
			held := k < n0
			c.Call(p.site, in, func() {
				if !p.expired() {
					s2 := gen.Shape{"class": "process-lifetime", "value_held_since_before_expiry": held}
					c.Violate(p.site, "expiry-verdict-wrong-with-a-day-of-margin", s2, in,
						fmt.Sprintf("the process has lived %v beyond the expiry (virtual clock); still reported NOT expired", past-ahead))
				}
			})
		}
		c.BucketN("lifetime/verdicts-before-and-after-expiry", int64(n0+len(probes)))
		c.Nontrivial([]byte("lifetime"), in)
		if i == 0 {
			c.Sample(gen.Shape{"virtual_clock_start": now.UTC().String(), "expiry_ahead": ahead.String(), "slept": past.String(), "probes": len(probes)})
		}
	})
}
