package mon

import (
	"fmt"
	"math"
	"os"
	"runtime"

	"github.com/go-i2p/common/base32"
	"github.com/go-i2p/common/base64"

	"verifharness/core"
	"verifharness/gen"
	"verifharness/lib"
	rm "verifharness/refmodel"
)

// C04, clause "in time bounded by the input length".
//
// Wall-clock time is not a usable verdict on a loaded machine and the kernel's per-thread CPU
// accounting is tick-based here (calls below a millisecond read as zero), so the deciding cost
// measure is a logical one: the bytes and the number of objects the call allocates, read from
// runtime.MemStats (exact after the stop-the-world flush ReadMemStats performs; the worker's
// monitor goroutine is the only one allocating). A loop that re-slices, re-copies or re-parses
// the rest of the input on every iteration, or that sizes an allocation by a count field instead
// of by the data present, shows up in these numbers long before it is slow enough for the
// watchdog. Pure-CPU growth without allocation is covered more coarsely by the thread-CPU guard in
// core.Call (2 s + 20 µs per input byte) and by the 20 s watchdog. (A growth oracle over the
// thread's CPU time was tried and dropped: with the collector off and 20 ms batches per size the
// measured exponents of the unchanged, linear code still spread from 0.5 to 2.6 on this machine.)
//
// Two oracles:
//   growth     for a family of inputs of the same shape at sizes n, 2n, 4n, 8n:
//              cost(largest)/cost(smallest) <= (len(largest)/len(smallest))^1.5, judged only when the
//              largest cost is big enough (>= 256 KiB, >= 2000 objects) for the ratio to mean anything.
//              Linear code gives exponent 1.0 (measured 0.98..1.05 on the unchanged tree), a
//              quadratic loop 2.0.
//   absolute   every call of the sweep: bytes <= 512 KiB + 1024 * len(input) (unchanged tree: at most
//              ~210 bytes per input byte, for mappings and router addresses).

type costFamily struct {
	name   string
	parser string // registry name, or "" when fn is set
	fn     func(in []byte)
	build  func(n int, r *core.Rand) []byte
	sizes  []int
}

func allocCost(f func()) (bytes, objs uint64) {
	var a, b runtime.MemStats
	runtime.ReadMemStats(&a)
	f()
	runtime.ReadMemStats(&b)
	return b.TotalAlloc - a.TotalAlloc, b.Mallocs - a.Mallocs
}

func costMapping(n int, r *core.Rand, klen, vlen int) rm.Mapping {
	var m rm.Mapping
	for j := 0; j < n; j++ {
		k := []byte(fmt.Sprintf("k%05d", j))
		for len(k) < klen {
			k = append(k, 'a'+byte(r.Pick(26)))
		}
		v := make([]byte, vlen)
		for i := range v {
			v[i] = 'a' + byte(r.Pick(26))
		}
		m.Pairs = append(m.Pairs, rm.Pair{K: k, V: v})
	}
	return m
}

func costFamilies() []costFamily {
	doubling := func(a int) []int { return []int{a, 2 * a, 4 * a, 8 * a} }
	fams := []costFamily{
		{name: "mapping/short-pairs", parser: "data.ReadMapping", sizes: doubling(120),
			build: func(n int, r *core.Rand) []byte { return costMapping(n, r, 6, 3).Encode() }},
		{name: "mapping/short-pairs(NewMapping)", parser: "data.NewMapping", sizes: doubling(120),
			build: func(n int, r *core.Rand) []byte { return costMapping(n, r, 6, 3).Encode() }},
		{name: "mapping/long-strings", parser: "data.ReadMapping", sizes: doubling(15),
			build: func(n int, r *core.Rand) []byte { return costMapping(n, r, 250, 250).Encode() }},
		{name: "mapping/junk-body", parser: "data.ReadMapping", sizes: doubling(8000),
			build: func(n int, r *core.Rand) []byte {
				body := r.Bytes(n)
				return append([]byte{byte(n >> 8), byte(n)}, body...)
			}},
		{name: "router_address/options", parser: "router_address.ReadRouterAddress", sizes: doubling(100),
			build: func(n int, r *core.Rand) []byte {
				a := gen.RouterAddress(r)
				a.Options = costMapping(n, r, 6, 8)
				return a.Encode()
			}},
		{name: "router_info/addresses", parser: "router_info.ReadRouterInfo", sizes: []int{30, 60, 120, 240},
			build: func(n int, r *core.Rand) []byte {
				ri, _ := gen.RouterInfo(r)
				ri.Addrs = nil
				for j := 0; j < n; j++ {
					a := gen.RouterAddress(r)
					a.Options = costMapping(3, r, 6, 8)
					ri.Addrs = append(ri.Addrs, a)
				}
				ri.PeerSize = 0
				ri.Options = costMapping(2, r, 6, 6)
				return ri.Encode()
			}},
		{name: "router_info/options", parser: "router_info.ReadRouterInfo", sizes: doubling(100),
			build: func(n int, r *core.Rand) []byte {
				ri, _ := gen.RouterInfo(r)
				if len(ri.Addrs) > 2 {
					ri.Addrs = ri.Addrs[:2]
				}
				ri.PeerSize = 0
				ri.Options = costMapping(n, r, 6, 6)
				return ri.Encode()
			}},
		{name: "certificate/payload", parser: "certificate.ReadCertificate", sizes: doubling(8000),
			build: func(n int, r *core.Rand) []byte { return rm.Cert{Type: 3, Payload: r.Bytes(n - 1)}.Encode() }},
		{name: "keys_and_cert/excess-key-cert-payload", parser: "keys_and_cert.ReadKeysAndCert", sizes: doubling(8000),
			build: func(n int, r *core.Rand) []byte {
				k, _ := gen.KACOf(r, 7, 4)
				k.Cert.Payload = append(append([]byte(nil), k.Cert.Payload[:4]...), r.Bytes(n-5)...)
				return k.Encode()
			}},
		{name: "lease_set2/options", parser: "lease_set2.ReadLeaseSet2", sizes: doubling(100),
			build: func(n int, r *core.Rand) []byte {
				l, _ := gen.LeaseSet2(r)
				l.Options = costMapping(n, r, 6, 6)
				return l.Encode()
			}},
		{name: "meta_leaseset/entries", parser: "meta_leaseset.ReadMetaLeaseSet", sizes: []int{30, 60, 120, 240},
			build: func(n int, r *core.Rand) []byte {
				l, _ := gen.MetaLeaseSet(r)
				l.Options = costMapping(1, r, 6, 6)
				l.Entries = nil
				for j := 0; j < n; j++ {
					var e rm.MetaEntry
					copy(e.Hash[:], r.Bytes(32))
					e.Type, e.Expires, e.Cost = 3, uint32(r.Uint64()), byte(j)
					e.Props = costMapping(2, r, 6, 6)
					l.Entries = append(l.Entries, e)
				}
				return l.Encode()
			}},
		{name: "encrypted_leaseset/inner", parser: "encrypted_leaseset.ReadEncryptedLeaseSet", sizes: doubling(8000),
			build: func(n int, r *core.Rand) []byte {
				l, _ := gen.EncryptedLeaseSet(r)
				l.Inner = r.Bytes(n - 1)
				return l.Encode()
			}},
		{name: "base32/decode", fn: func(in []byte) { base32.DecodeString(string(in)) }, sizes: doubling(8192),
			build: func(n int, r *core.Rand) []byte { return []byte(rm.B32Encode(r.Bytes(n * 5 / 8))) }},
		{name: "base32/decode-nopad", fn: func(in []byte) { base32.DecodeStringNoPadding(string(in)) }, sizes: doubling(8192),
			build: func(n int, r *core.Rand) []byte { return []byte(rm.B32EncodeNoPad(r.Bytes(n * 5 / 8))) }},
		{name: "base32/decode-linebreaks", fn: func(in []byte) { base32.DecodeString(string(in)) }, sizes: doubling(8192),
			build: func(n int, r *core.Rand) []byte {
				s := []byte(rm.B32Encode(r.Bytes(n * 5 / 16)))
				var out []byte
				for _, ch := range s {
					out = append(out, ch, '\n')
				}
				return out
			}},
		{name: "base64/decode", fn: func(in []byte) { base64.DecodeString(string(in)) }, sizes: doubling(8192),
			build: func(n int, r *core.Rand) []byte { return []byte(rm.B64Encode(r.Bytes(n * 3 / 4))) }},
		{name: "base32/encode", fn: func(in []byte) { _ = base32.EncodeToString(in) }, sizes: doubling(8192),
			build: func(n int, r *core.Rand) []byte { return r.Bytes(n) }},
		{name: "base64/encode", fn: func(in []byte) { _ = base64.EncodeToString(in) }, sizes: doubling(8192),
			build: func(n int, r *core.Rand) []byte { return r.Bytes(n) }},
	}
	// every registered parser on random bytes and on its own well-formed encoding followed by random bytes
	for _, p := range lib.Parsers() {
		p := p
		fams = append(fams, costFamily{name: "random/" + p.ID(), parser: p.ID(), sizes: doubling(4000),
			build: func(n int, r *core.Rand) []byte { return r.Bytes(n) }})
		fams = append(fams, costFamily{name: "wellformed+trailing/" + p.ID(), parser: p.ID(), sizes: doubling(4000),
			build: func(n int, r *core.Rand) []byte {
				cs := gen.WellFormed(p.Kind, p.Arg, r)
				if len(cs.Bytes) >= n {
					return cs.Bytes
				}
				return append(append([]byte(nil), cs.Bytes...), r.Bytes(n-len(cs.Bytes))...)
			}})
	}
	return fams
}

const (
	costAbsFloor   = 512 << 10
	costAbsPerByte = 1024
	costJudgeBytes = 128 << 10
	costJudgeObjs  = 1000
	costExponent   = 1.5
)

func c04Cost(c *core.Ctx) {
	fams := costFamilies()
	reps := c.N(2, 12)
	c.Job("cost", len(fams)*reps, func(i int, r *core.Rand) {
		f := fams[i%len(fams)]
		var run func(in []byte) (accepted bool, val any)
		if f.fn != nil {
			run = func(in []byte) (bool, any) { f.fn(in); return false, nil }
		} else {
			p := lib.ByID(f.parser)
			if p == nil {
				c.FloorFail("cost family names an unknown parser: " + f.parser)
				return
			}
			run = func(in []byte) (bool, any) { o := p.Fn(in); return o.Accepted, o.Val }
		}
		type pt struct {
			n, ln       int
			bytes, objs uint64
			mbytes      uint64
			acc         bool
		}
		var pts []pt
		for _, n := range f.sizes {
			// the same stream for every size, so that the shapes differ in n only
			in := f.build(n, core.NewRand(c.Seed, "C04", "cost-input", i))
			var acc bool
			var val any
			var b, o uint64
			panicked, pv, stack := c.Call("cost:"+f.name, in, func() {
				b, o = allocCost(func() { acc, val = run(in) })
			})
			c.Eval(1)
			if panicked {
				reportPanic(c, "C04", f.name, gen.Shape{"class": "cost", "n": n}, in, pv, stack)
				return
			}
			p := pt{n: n, ln: len(in), bytes: b, objs: o, acc: acc}
			if b > costAbsFloor+costAbsPerByte*uint64(len(in)) {
				c.Violate(f.name, "allocation-not-bounded-by-input-length",
					gen.Shape{"class": "cost", "family": f.name, "n": n, "accepted": acc}, in,
					fmt.Sprintf("%d bytes allocated for an input of %d bytes (bound %d + %d per byte)", b, len(in), costAbsFloor, costAbsPerByte))
			}
			// the argument-free accessors of an accepted value, as one further measured step
			if acc && val != nil {
				var mb uint64
				c.Call("cost-methods:"+f.name, in, func() {
					mb, _ = allocCost(func() { lib.Observe(val, lib.ObserveOpts{Depth: 0}) })
				})
				p.mbytes = mb
				c.Eval(1)
			}
			pts = append(pts, p)
		}
		c.Nontrivial([]byte(f.name), []byte(fmt.Sprint(i)))
		if len(pts) < 4 {
			return
		}
		// Increments, not totals: the fixed part of the structure (identity, keys, header) and its
		// cheaper per-byte cost drop out, what remains is how the cost of the scaled part grows.
		// Linear code: the increment over the last doubling is (dLen3/dLen1) times the increment over
		// the first one (4 for sizes n, 2n, 4n, 8n); a quadratic loop gives the square of that (16).
		first, last := pts[0], pts[len(pts)-1]
		dl1, dl3 := float64(pts[1].ln-pts[0].ln), float64(pts[3].ln-pts[2].ln)
		if dl1 <= 0 || dl3 <= dl1 {
			c.Bucket("cost/input-did-not-grow")
			return
		}
		bound := math.Pow(dl3/dl1, costExponent)
		judge := func(kind string, v func(p pt) uint64, minimum uint64, enforce bool) {
			if v(pts[1]) <= v(pts[0]) || v(pts[3]) <= v(pts[2]) || v(pts[3])-v(pts[2]) < minimum {
				c.Bucket("cost/too-small-to-judge")
				return
			}
			d1, d3 := float64(v(pts[1])-v(pts[0])), float64(v(pts[3])-v(pts[2]))
			ratio := d3 / d1
			exp := math.Log(ratio) / math.Log(dl3/dl1)
			if !enforce {
				// observed and counted, never a verdict: the statement bounds the time of parsers and
				// decoders; of accessors it only demands that they return
				c.Bucket(fmt.Sprintf("cost/accessors-exponent~%.1f(not judged)", exp))
				if exp > 1.5 {
					c.Bucket("cost/accessors-superlinear(not judged)/" + f.name)
				}
				return
			}
			c.Bucket("cost/judged")
			c.Bucket(fmt.Sprintf("cost/exponent~%.1f", exp))
			if exp > 1.15 && os.Getenv("VERIF_COST_DEBUG") != "" {
				fmt.Fprintf(os.Stderr, "cost-debug %s %s: %v exp %.2f acc=%v\n", f.name, kind, pts, exp, last.acc)
			}
			if ratio > bound {
				in := f.build(last.n, core.NewRand(c.Seed, "C04", "cost-input", i))
				c.Violate(f.name, "cost-grows-faster-than-input-length",
					gen.Shape{"class": "cost", "family": f.name, "measure": kind, "accepted": last.acc}, in,
					fmt.Sprintf("%s at input lengths %d/%d/%d/%d: %d/%d/%d/%d; the increment over the last doubling is %.1f times the increment over the first (input: %.1f times): growth exponent %.2f (bound %.1f)",
						kind, pts[0].ln, pts[1].ln, pts[2].ln, pts[3].ln, v(pts[0]), v(pts[1]), v(pts[2]), v(pts[3]), ratio, dl3/dl1, exp, costExponent))
			}
		}
		judge("bytes-allocated", func(p pt) uint64 { return p.bytes }, costJudgeBytes, true)
		judge("objects-allocated", func(p pt) uint64 { return p.objs }, costJudgeObjs, true)
		judge("bytes-allocated-by-accessors", func(p pt) uint64 { return p.mbytes }, costJudgeBytes, false)
		if i < len(fams) {
			c.Sample(gen.Shape{"cost_family": f.name, "sizes": []int{first.ln, last.ln}, "bytes": []uint64{first.bytes, last.bytes}, "objects": []uint64{first.objs, last.objs}})
		}
	})
}
