package mon

import (
	"bytes"
	"fmt"
	"math/big"
	"time"

	"github.com/go-i2p/common/destination"
	"github.com/go-i2p/common/encrypted_leaseset"
	"github.com/go-i2p/common/lease_set2"
	"github.com/go-i2p/crypto/curve25519"
	"go.step.sm/crypto/x25519"

	"verifharness/core"
	"verifharness/gen"
	"verifharness/lib"
	rm "verifharness/refmodel"
)

// C16 — encrypted leaseset: decrypt(encrypt(x)) = x; blinding deterministic and checkable.
func init() { register("C16", runC16) }

func elsWith(blob []byte) (*encrypted_leaseset.EncryptedLeaseSet, error) {
	return encrypted_leaseset.NewEncryptedLeaseSet(7, make([]byte, 32), 1700000000, 600, 0, nil, blob, make([]byte, 64))
}

func runC16(c *core.Ctx) {
	n := c.N(160, 4000)
	fullPositions := c.N(12, 4000)
	c.Job("encrypt-decrypt", n, func(i int, r *core.Rand) {
		// a LeaseSet2 value obtained from the parser over a reference encoding
		var ls2 lease_set2.LeaseSet2
		var plain []byte
		var sh gen.Shape
		for tries := 0; tries < 20; tries++ {
			m, s := gen.LeaseSet2(r)
			if i%3 == 2 {
				// ... or from the constructor (what a publisher encrypts), offline keys of every
				// transient type included: the plaintext is the value's own serialisation
				v := m
				v.Flags &= 6
				if v.Offline != nil {
					v.Flags |= 1
				}
				if len(v.Leases) == 0 {
					v.Leases = []rm.Lease2{gen.Lease2(r)}
				}
				v.Keys = nil
				for j := 0; j < 1+r.Pick(3); j++ {
					t := []int{4, 0}[r.Pick(2)]
					kl, _ := rm.CryptoLen(t)
					v.Keys = append(v.Keys, rm.EncKey{Type: uint16(t), Data: r.Bytes(kl)})
				}
				if built, ok, err := lib.BuildLeaseSet2(v, nil); ok && err == nil {
					if b, err := built.Bytes(); err == nil {
						ls2, plain, sh = *built, b, s
						sh["constructed"] = true
						break
					}
				}
				continue
			}
			p, rem, err := lease_set2.ReadLeaseSet2(m.Encode())
			if err == nil && len(rem) == 0 {
				ls2, plain, sh = p, m.Encode(), s
				break
			}
		}
		if plain == nil {
			return
		}
		c.Eval(1)
		priv, pub, _ := rm.X25519KeyPair(r.Bytes(32))
		var cookie [32]byte
		copy(cookie[:], r.Bytes(32))
		// every accepted representation of the recipient public key
		var pubArg any
		switch i % 4 {
		case 0:
			pubArg = x25519.PublicKey(pub)
		case 1:
			pk := x25519.PublicKey(pub)
			pubArg = &pk
		case 2:
			pubArg = curve25519.Curve25519PublicKey(pub)
		default:
			pubArg = []byte(pub)
		}
		sh["pub_repr"] = i % 4
		var blob []byte
		var err error
		panicked, _, _ := c.Call("encrypted_leaseset.EncryptInnerLeaseSet2", plain, func() { blob, err = encrypted_leaseset.EncryptInnerLeaseSet2(&ls2, cookie, pubArg) })
		if panicked {
			return
		}
		c.OpResult("encrypted_leaseset.EncryptInnerLeaseSet2", err == nil)
		if err != nil {
			c.Violate("encrypted_leaseset.EncryptInnerLeaseSet2", "encryption-refused", sh, plain, firstLineOf(err.Error()))
			return
		}
		c.Nontrivial([]byte("encdec"), plain)
		// the blob has the documented layout: an independent implementation decrypts it
		if ref, err := rm.DecryptInner(blob, priv); err != nil || !bytes.Equal(ref, plain) {
			c.Violate("encrypted_leaseset.EncryptInnerLeaseSet2", "independent-decryption-differs", sh, blob, fmt.Sprint(err))
		}
		if len(blob) != 32+12+len(plain)+16 {
			c.Violate("encrypted_leaseset.EncryptInnerLeaseSet2", "layout-length", sh, blob, fmt.Sprintf("blob %d bytes for %d bytes of plaintext", len(blob), len(plain)))
		}
		els, err := elsWith(blob)
		if err != nil {
			c.FloorFail("cannot wrap blob: " + err.Error())
			return
		}
		// every accepted representation of the private key
		reprs := []struct {
			name string
			key  any
		}{{"x25519.PrivateKey", x25519.PrivateKey(priv)}, {"*x25519.PrivateKey", func() any { k := x25519.PrivateKey(priv); return &k }()}, {"[]byte", []byte(priv)}}
		for _, rp := range reprs {
			var got *lease_set2.LeaseSet2
			var derr error
			panicked, _, _ := c.Call("encrypted_leaseset.DecryptInnerData", blob, func() { got, derr = els.DecryptInnerData(cookie[:], rp.key) })
			if panicked {
				continue
			}
			c.OpResult("encrypted_leaseset.DecryptInnerData", derr == nil)
			s2 := gen.Shape{"priv_repr": rp.name}
			for k, v := range sh {
				s2[k] = v
			}
			if derr != nil || got == nil {
				c.Violate("encrypted_leaseset.DecryptInnerData", "matching-key-does-not-decrypt", s2, blob, firstLineOf(fmt.Sprint(derr)))
				continue
			}
			gb, err := got.Bytes()
			if err != nil || !bytes.Equal(gb, plain) {
				c.Violate("encrypted_leaseset.DecryptInnerData", "decrypted-bytes-differ", s2, blob, describeDiff(plain, gb))
			}
			c.Bucket("roundtrip-ok/" + rp.name)
		}
		// a blob made by the independent implementation decrypts in the library
		if refBlob, err := rm.EncryptInner(plain, pub, r.Bytes(32), r.Bytes(12)); err == nil {
			if e2, err := elsWith(refBlob); err == nil {
				got, derr := e2.DecryptInnerData(cookie[:], x25519.PrivateKey(priv))
				if derr != nil || got == nil {
					c.Violate("encrypted_leaseset.DecryptInnerData", "reference-blob-does-not-decrypt", sh, refBlob, firstLineOf(fmt.Sprint(derr)))
				} else if gb, _ := got.Bytes(); !bytes.Equal(gb, plain) {
					c.Violate("encrypted_leaseset.DecryptInnerData", "decrypted-bytes-differ", sh, refBlob, "")
				}
			}
		}
		// a different private key yields an error, never a value
		otherPriv, _, _ := rm.X25519KeyPair(r.Bytes(32))
		if got, derr := els.DecryptInnerData(cookie[:], x25519.PrivateKey(otherPriv)); derr == nil || got != nil {
			c.Violate("encrypted_leaseset.DecryptInnerData", "unrelated-key-decrypts", sh, blob, "")
		}
		// decrypting — successfully or not — reads the structure and leaves it what it was
		if after := els.EncryptedInnerData(); !bytes.Equal(after, blob) {
			c.Violate("encrypted_leaseset.DecryptInnerData", "decryption-changed-the-encrypted-leaseset", sh, blob, "EncryptedInnerData() after decryption attempts: "+describeDiff(blob, after))
		}
		// every byte position (a sample of positions for most cases) x masks: error, never a value
		var positions []int
		if i < fullPositions {
			for p := 0; p < len(blob); p++ {
				positions = append(positions, p)
			}
		} else {
			for p := 0; p < 44; p++ {
				positions = append(positions, p)
			}
			for k := 0; k < 24; k++ {
				positions = append(positions, 44+r.Pick(len(blob)-44))
			}
			for p := len(blob) - 16; p < len(blob); p++ {
				positions = append(positions, p)
			}
		}
		for _, p := range positions {
			for _, m := range []byte{0x01, 0x80, 0xff} {
				b := append([]byte{}, blob...)
				b[p] ^= m
				e3, err := elsWith(b)
				if err != nil {
					continue
				}
				c.Eval(1)
				got, derr := e3.DecryptInnerData(cookie[:], x25519.PrivateKey(priv))
				if derr == nil || got != nil {
					region := "ciphertext"
					switch {
					case p < 32:
						region = "ephemeral-key"
					case p < 44:
						region = "nonce"
					case p >= len(b)-16:
						region = "tag"
					}
					c.Violate("encrypted_leaseset.DecryptInnerData", "modified-ciphertext-decrypts", gen.Shape{"pos": p, "mask": int(m), "region": region}, b, fmt.Sprintf("byte %d (%s) xor %#x still decrypts", p, region, m))
				}
			}
		}
		c.BucketN("tamper-positions", int64(len(positions)))
		if i < 2 {
			c.Sample(gen.Shape{"plaintext_len": len(plain), "blob_len": len(blob), "tamper_positions": len(positions), "shape": sh})
		}
	})

	// ---- the last byte of the ephemeral key: blobs whose byte 31 takes chosen values (made with
	// the reference encryptor), every other value substituted at that position
	c.Job("ephemeral-last-byte", c.N(24, 600), func(i int, r *core.Rand) {
		var plain []byte
		for tries := 0; tries < 20 && plain == nil; tries++ {
			m, _ := gen.LeaseSet2(r)
			if _, rem, err := lease_set2.ReadLeaseSet2(m.Encode()); err == nil && len(rem) == 0 {
				plain = m.Encode()
			}
		}
		if plain == nil {
			return
		}
		priv, pub, _ := rm.X25519KeyPair(r.Bytes(32))
		want := []byte{0x00, 0x7f, 0x01, 0x40, 0x3f}[i%5]
		var blob []byte
		for tries := 0; tries < 4000; tries++ {
			b, err := rm.EncryptInner(plain, pub, r.Bytes(32), r.Bytes(12))
			if err == nil && b[31] == want {
				blob = b
				break
			}
		}
		if blob == nil {
			c.Bucket("ephemeral-last-byte/no-blob-found")
			return
		}
		c.Eval(1)
		c.Nontrivial([]byte("eph31"), blob)
		var cookie [32]byte
		els, err := elsWith(blob)
		if err != nil {
			return
		}
		if got, derr := els.DecryptInnerData(cookie[:], x25519.PrivateKey(priv)); derr != nil || got == nil {
			c.Violate("encrypted_leaseset.DecryptInnerData", "reference-blob-does-not-decrypt", gen.Shape{"byte31": int(want)}, blob, fmt.Sprint(derr))
			return
		}
		for v := 0; v < 256; v++ {
			if byte(v) == want {
				continue
			}
			b := append([]byte{}, blob...)
			b[31] = byte(v)
			e2, err := elsWith(b)
			if err != nil {
				continue
			}
			c.Eval(1)
			if got, derr := e2.DecryptInnerData(cookie[:], x25519.PrivateKey(priv)); derr == nil || got != nil {
				c.Violate("encrypted_leaseset.DecryptInnerData", "modified-ciphertext-decrypts", gen.Shape{"pos": 31, "from": int(want), "to": v, "region": "ephemeral-key"}, b, fmt.Sprintf("byte 31 changed from %#x to %#x still decrypts", want, v))
			}
		}
		c.Bucket(fmt.Sprintf("ephemeral-last-byte/%#02x-all-255-substitutions", want))
	})
	c.Exhaustive("all 255 substitutions of byte 31 of the encrypted blob for chosen original values 0x00 0x7f 0x01 0x40 0x3f")

	// ---- earlier ciphertexts stay valid while further encryptions happen (no shared output buffer)
	c.Job("encrypt-history", c.N(60, 1500), func(i int, r *core.Rand) {
		type rec struct {
			plain, blob, priv []byte
		}
		var hist []rec
		var cookie [32]byte
		for k := 0; k < 4; k++ {
			var ls2 lease_set2.LeaseSet2
			var plain []byte
			for tries := 0; tries < 20 && plain == nil; tries++ {
				m, _ := gen.LeaseSet2(r)
				if k > 0 { // later messages no larger than the first, so that a reused buffer would fit
					m.Options = rm.Mapping{Pairs: []rm.Pair{}}
					if len(m.Leases) > 1 {
						m.Leases = m.Leases[:1]
					}
					if len(m.Keys) > 1 {
						m.Keys = m.Keys[:1]
					}
				}
				if p, rem, err := lease_set2.ReadLeaseSet2(m.Encode()); err == nil && len(rem) == 0 {
					ls2, plain = p, m.Encode()
				}
			}
			if plain == nil {
				return
			}
			priv, pub, _ := rm.X25519KeyPair(r.Bytes(32))
			blob, err := encrypted_leaseset.EncryptInnerLeaseSet2(&ls2, cookie, x25519.PublicKey(pub))
			if err != nil {
				return
			}
			hist = append(hist, rec{plain, blob, priv}) // the returned slice is kept as returned (not copied)
		}
		c.Eval(1)
		c.Nontrivial([]byte("hist"), hist[0].blob)
		for k, h := range hist {
			els, err := elsWith(h.blob)
			if err != nil {
				continue
			}
			got, derr := els.DecryptInnerData(cookie[:], x25519.PrivateKey(h.priv))
			sh := gen.Shape{"message": k, "of": len(hist)}
			if derr != nil || got == nil {
				c.Violate("encrypted_leaseset.EncryptInnerLeaseSet2", "earlier-ciphertext-invalid-after-later-encryptions", sh, h.blob, fmt.Sprintf("ciphertext %d of %d no longer decrypts after later encryptions: %v", k, len(hist), derr))
				return
			}
			if gb, _ := got.Bytes(); !bytes.Equal(gb, h.plain) {
				c.Violate("encrypted_leaseset.EncryptInnerLeaseSet2", "earlier-ciphertext-invalid-after-later-encryptions", sh, h.blob, fmt.Sprintf("ciphertext %d of %d decrypts to a different LeaseSet2 after later encryptions", k, len(hist)))
				return
			}
		}
		c.Bucket("encrypt-history-ok")
	})

	// ---- blinding
	locs := []*time.Location{time.UTC, time.FixedZone("east", 14*3600), time.FixedZone("west", -12*3600), time.FixedZone("half", 5*3600+1800)}
	c.Job("blinding", c.N(400, 8000), func(i int, r *core.Rand) {
		st := []int{7, 11}[i%2]
		key, _ := rm.NewSigKey(st, r)
		k, sh := gen.KACOf(r, st, []int{0, 4}[(i/2)%2])
		copy(k.Block[384-32:], key.Pub)
		if i%16 == 9 {
			// signing keys that are valid points in a NON-canonical encoding (y >= 2^255-19) or of
			// small order: reachable only by parsing, never by key generation
			alt := [][]byte{bytes.Repeat([]byte{0xff}, 32), append(bytes.Repeat([]byte{0xff}, 31), 0x7f), append([]byte{0xf0}, append(bytes.Repeat([]byte{0xff}, 30), 0x7f)...),
				append([]byte{0xee}, append(bytes.Repeat([]byte{0xff}, 30), 0x7f)...), append([]byte{1}, make([]byte, 31)...), make([]byte, 32), append([]byte{0xec}, append(bytes.Repeat([]byte{0xff}, 30), 0x7f)...)}
			key = &rm.SigKey{Type: st, Pub: alt[(i/16)%len(alt)]}
			copy(k.Block[384-32:], key.Pub)
			sh["signing_key"] = "extreme encoding"
		}
		enc := k.Encode()
		dest, _, err := destination.ReadDestination(enc)
		if err != nil {
			return
		}
		c.Eval(1)
		c.Nontrivial([]byte("blind"), enc)
		secret := r.Bytes(32 + r.Pick(33))
		day := time.Date(2000+r.Pick(60), time.Month(1+r.Pick(12)), 1+r.Pick(28), 0, 0, 0, 0, time.UTC)
		switch i % 8 {
		case 3: // any day of the proleptic calendar the time package represents, not only this century
			day = time.Date(1+r.Pick(9000), time.Month(1+r.Pick(12)), 1+r.Pick(28), 0, 0, 0, 0, time.UTC)
		case 5: // around the Unix epoch and before it (integer division of negative seconds rounds the other way)
			day = time.Date(1969, 12, 31, 0, 0, 0, 0, time.UTC).AddDate(0, 0, -r.Pick(3)+r.Pick(3))
			if r.Chance(1, 2) {
				day = time.Date(1900+r.Pick(70), time.Month(1+r.Pick(12)), 1+r.Pick(28), 0, 0, 0, 0, time.UTC)
			}
		}
		if i%32 == 7 {
			day = time.Time{} // the zero instant is 00:00 UTC of 1 January of year 1, a day like any other
		}
		sh["year"] = day.Year()
		sh["sig"] = st
		instants := []time.Time{day, day.Add(12 * time.Hour), day.Add(24*time.Hour - time.Second), day.Add(24*time.Hour - time.Nanosecond)}
		var first []byte
		for _, t := range instants {
			for _, loc := range locs {
				var bd destination.Destination
				var err error
				tt := t.In(loc)
				panicked, _, _ := c.Call("encrypted_leaseset.CreateBlindedDestination", enc, func() { bd, err = encrypted_leaseset.CreateBlindedDestination(dest, secret, tt) })
				if panicked {
					return
				}
				c.OpResult("encrypted_leaseset.CreateBlindedDestination", err == nil)
				if err != nil {
					c.Violate("encrypted_leaseset.CreateBlindedDestination", "blinding-refused", sh, enc, firstLineOf(err.Error()))
					return
				}
				bb, err := bd.Bytes()
				if err != nil {
					c.Violate("encrypted_leaseset.CreateBlindedDestination", "blinded-destination-does-not-serialise", sh, enc, err.Error())
					return
				}
				if first == nil {
					first = bb
				} else if !bytes.Equal(first, bb) {
					c.Violate("encrypted_leaseset.CreateBlindedDestination", "not-deterministic-within-utc-day", gen.Shape{"sig": st, "location": loc.String()}, enc, fmt.Sprintf("instant %v gives a different blinded destination than 00:00 UTC of the same day", tt))
					return
				}
			}
		}
		// keeps encryption key, padding and certificate; different signing key
		if len(first) != len(enc) || !bytes.Equal(first[:352], enc[:352]) || !bytes.Equal(first[384:], enc[384:]) {
			c.Violate("encrypted_leaseset.CreateBlindedDestination", "changes-more-than-the-signing-key", sh, enc, "")
		}
		if bytes.Equal(first[352:384], enc[352:384]) {
			c.Violate("encrypted_leaseset.CreateBlindedDestination", "signing-key-unchanged", sh, enc, "")
		}
		// matches the independent derivation
		alpha, err := rm.BlindingFactor(secret, rm.BlindingDate(day))
		if err == nil {
			if want, err := rm.BlindKey(key.Pub, alpha); err == nil && !bytes.Equal(want, first[352:384]) {
				c.Violate("encrypted_leaseset.CreateBlindedDestination", "differs-from-independent-derivation", sh, enc, fmt.Sprintf("blinded key %x, independent derivation %x", first[352:384], want))
			}
		}
		bdest, _, err := destination.ReadDestination(first)
		if err != nil {
			c.Violate("encrypted_leaseset.CreateBlindedDestination", "blinded-destination-does-not-parse", sh, first, err.Error())
			return
		}
		// neighbouring days give different keys
		for _, d := range []time.Duration{-time.Nanosecond, 24 * time.Hour, -24 * time.Hour, 48 * time.Hour} {
			o, err := encrypted_leaseset.CreateBlindedDestination(dest, secret, day.Add(d))
			if err != nil {
				continue
			}
			ob, _ := o.Bytes()
			if bytes.Equal(ob, first) {
				c.Violate("encrypted_leaseset.CreateBlindedDestination", "same-key-on-another-utc-day", gen.Shape{"sig": st, "offset": d.String()}, enc, "")
			}
			// the other day's factor must fail the blinding check
			if a2, err := rm.BlindingFactor(secret, rm.BlindingDate(day.Add(d))); err == nil {
				if encrypted_leaseset.VerifyBlindedSignature(bdest, dest, a2) {
					c.Violate("encrypted_leaseset.VerifyBlindedSignature", "accepts-other-days-factor", gen.Shape{"sig": st, "offset": d.String()}, enc, "")
				}
			}
		}
		// the library's own check: true with the derived factor, false with any other
		if !encrypted_leaseset.VerifyBlindedSignature(bdest, dest, alpha) {
			c.Violate("encrypted_leaseset.VerifyBlindedSignature", "rejects-derived-factor", gen.Shape{"sig": st}, enc, "the blinded destination fails the library's blinding check with the factor derived from (secret, day)")
		} else {
			c.Bucket(fmt.Sprintf("blinding-check-ok/sig%d", st))
		}
		for k := 0; k < 4; k++ {
			var rnd [32]byte
			copy(rnd[:], r.Bytes(32))
			rnd[31] &= 0x0f // a canonical scalar
			if encrypted_leaseset.VerifyBlindedSignature(bdest, dest, rnd) {
				c.Violate("encrypted_leaseset.VerifyBlindedSignature", "accepts-random-factor", gen.Shape{"sig": st}, enc, "")
			}
		}
		// a factor that differs from the derived one by a multiple of the group order is another
		// 32-byte factor, and must fail like any other
		for _, k := range []int64{1, 2, 7, 15} {
			order, _ := new(big.Int).SetString("7237005577332262213973186563042994240857116359379907606001950938285454250989", 10)
			le := func(b []byte) []byte {
				o := make([]byte, len(b))
				for j := range b {
					o[j] = b[len(b)-1-j]
				}
				return o
			}
			v := new(big.Int).SetBytes(le(alpha[:]))
			v.Add(v, new(big.Int).Mul(order, big.NewInt(k)))
			if v.BitLen() > 256 {
				continue
			}
			var f [32]byte
			copy(f[:], le(v.FillBytes(make([]byte, 32))))
			if encrypted_leaseset.VerifyBlindedSignature(bdest, dest, f) {
				c.Violate("encrypted_leaseset.VerifyBlindedSignature", "accepts-factor-plus-multiple-of-group-order", gen.Shape{"sig": st, "multiple": k}, enc, "")
			}
			c.Bucket("blinding-check/non-canonical-congruent-factor-tried")
		}
		other, _ := rm.BlindingFactor(r.Bytes(32), rm.BlindingDate(day))
		if encrypted_leaseset.VerifyBlindedSignature(bdest, dest, other) {
			c.Violate("encrypted_leaseset.VerifyBlindedSignature", "accepts-other-secrets-factor", gen.Shape{"sig": st}, enc, "")
		}
		// the result is a function of the secret's CONTENT: the caller refills the same buffer with
		// another secret and blinds again for the same day (and the same destination) right away
		// (the call with the old content comes immediately before, nothing in between)
		encrypted_leaseset.CreateBlindedDestination(dest, secret, day.Add(2*time.Hour))
		copy(secret, r.Bytes(len(secret)))
		if bd2, err := encrypted_leaseset.CreateBlindedDestination(dest, secret, day.Add(3*time.Hour)); err == nil {
			b2, _ := bd2.Bytes()
			if alpha2, err := rm.BlindingFactor(secret, rm.BlindingDate(day)); err == nil {
				if want, err := rm.BlindKey(key.Pub, alpha2); err == nil && len(b2) >= 384 && !bytes.Equal(want, b2[352:384]) {
					c.Violate("encrypted_leaseset.CreateBlindedDestination", "differs-from-independent-derivation", gen.Shape{"sig": st, "class": "secret-buffer-refilled"}, enc,
						fmt.Sprintf("after the caller refilled the secret's buffer: blinded key %x, independent derivation for the new secret %x (for the old one %x)", b2[352:384], want, first[352:384]))
				}
				if bd2p, _, err := destination.ReadDestination(b2); err == nil && !encrypted_leaseset.VerifyBlindedSignature(bd2p, dest, alpha2) {
					c.Violate("encrypted_leaseset.VerifyBlindedSignature", "rejects-derived-factor", gen.Shape{"sig": st, "class": "secret-buffer-refilled"}, enc, "")
				}
			}
			c.Bucket("blinding/secret-buffer-refilled")
		}
		// the destination that was blinded is what it was
		if after, err := dest.Bytes(); err != nil || !bytes.Equal(after, enc) {
			c.Violate("encrypted_leaseset.CreateBlindedDestination", "blinding-changed-the-original-destination", sh, enc, "")
		}
		// short secrets are refused
		for _, ln := range []int{0, 1, 16, 31} {
			if _, err := encrypted_leaseset.CreateBlindedDestination(dest, r.Bytes(ln), day); err == nil {
				c.Violate("encrypted_leaseset.CreateBlindedDestination", "short-secret-accepted", gen.Shape{"secret_len": ln}, enc, "")
			}
		}
		if i < 2 {
			c.Sample(gen.Shape{"sig": st, "instants": len(instants), "locations": len(locs), "day": rm.BlindingDate(day)})
		}
	})
}
