package mon

import (
	"bytes"
	"crypto/sha256"
	"errors"
	"fmt"
	"github.com/go-i2p/crypto/curve25519"
	"github.com/go-i2p/crypto/ed25519"
	"io"
	"sync"
	"time"

	"github.com/go-i2p/common/data"
	"github.com/go-i2p/common/destination"
	"github.com/go-i2p/common/keys_and_cert"
	"github.com/go-i2p/common/router_identity"
	"github.com/go-i2p/common/router_info"

	"verifharness/core"
	"verifharness/gen"
	"verifharness/lib"
	rm "verifharness/refmodel"
)

// C07 — identity hashes and addresses are pure functions of the identity's wire bytes.
func init() { register("C07", runC07) }

func runC07(c *core.Ctx) {
	n := c.N(1500, 40000)

	checkDest := func(site string, d *destination.Destination, b []byte, sh gen.Shape) {
		want := sha256.Sum256(b)
		h, err := d.Hash()
		if err != nil || h != want {
			c.Violate(site, "hash-not-sha256-of-bytes", sh, b, fmt.Sprintf("Hash()=%x err=%v, SHA-256(bytes)=%x", h, err, want))
		}
		addr, err := d.Base32Address()
		wantAddr := rm.B32EncodeNoPad(want[:]) + ".b32.i2p"
		if err != nil || addr != wantAddr || len(addr) != 60 {
			c.Violate(site, "base32-address", sh, b, fmt.Sprintf("Base32Address()=%q err=%v, expected %q", addr, err, wantAddr))
		}
		b64, err := d.Base64()
		if err != nil {
			c.Violate(site, "base64", sh, b, fmt.Sprintf("Base64() error %v", err))
		} else {
			sym, wf := rm.PaddedShape(b64, 4, rm.B64ValidTail)
			dec, ok, _ := rm.B64DecodeNoPad(sym)
			if !wf || !ok || !bytes.Equal(dec, b) {
				c.Violate(site, "base64", sh, b, "Base64() does not decode (independent decoder) to the identity's bytes")
			}
		}
		ser, err := d.Bytes()
		if err != nil || !bytes.Equal(ser, b) {
			c.Violate(site, "bytes", sh, b, "Bytes() differs from the encoding")
		}
	}

	// destinations: parsed and constructed, every supported pair
	c.Job("dest", n, func(i int, r *core.Rand) {
		sig := rm.DestSigTypes[i%len(rm.DestSigTypes)]
		cr := rm.IdentCryptoTypes[(i/len(rm.DestSigTypes))%len(rm.IdentCryptoTypes)]
		m, sh := gen.KACOf(r, sig, cr)
		b := m.Encode()
		c.Eval(1)
		var d destination.Destination
		var err error
		panicked, _, _ := c.Call("destination.ReadDestination", b, func() { d, _, err = destination.ReadDestination(b) })
		if panicked || err != nil {
			c.Bucket("dest-parse-failed")
			return
		}
		c.Nontrivial([]byte("dest"), b)
		c.Bucket(fmt.Sprintf("dest/sig%d-crypto%d-%v", sig, cr, sh["cert"]))
		c.Call("Destination accessors", b, func() { checkDest("destination.ReadDestination", &d, b, sh) })
		// parse from a buffer the caller then reuses: hash and address must not follow the buffer
		buf := append([]byte{}, b...)
		if d3, _, err := destination.ReadDestination(buf); err == nil {
			for k := range buf {
				buf[k] ^= 0x5a
			}
			c.Call("Destination accessors (buffer reused)", b, func() { checkDest("destination.ReadDestination(buffer reused)", &d3, b, sh) })
		}
		// parse from a buffer that continues after the identity (as inside a LeaseSet or a stream):
		// hash, address and bytes are those of the identity alone
		for _, tail := range [][]byte{r.Bytes(1 + r.Pick(40)), b, {0}} {
			long := append(append([]byte{}, b...), tail...)
			if d4, rem, err := destination.ReadDestination(long); err == nil && len(rem) == len(tail) {
				c.Call("Destination accessors (followed by more data)", long, func() { checkDest("destination.ReadDestination(followed by more data)", &d4, b, sh) })
				if !d.Equals(&d4) || !d4.Equals(&d) {
					c.Violate("destination.Destination.Equals", "equal-serialisations-compare-unequal", sh, long, "the same identity read alone and read from a longer buffer compare unequal")
				}
			}
		}
		if cd, ok, err := lib.BuildDestination(m); ok && err == nil {
			c.Call("Destination accessors (constructed)", b, func() { checkDest("destination.NewDestination", cd, b, sh) })
			if !d.Equals(cd) || !cd.Equals(&d) {
				c.Violate("destination.Destination.Equals", "equal-serialisations-compare-unequal", sh, b, "parsed and constructed destination with identical bytes compare unequal")
			}
		}
		// the same identity built with the padding handed over in every form a caller may use
		// (nil / empty non-nil / spare capacity): all of them serialise identically, so all of
		// them are equal to each other and to the parsed one, in both directions
		var forms []*destination.Destination
		for form := 0; form < 3; form++ {
			if kac, ok, err := lib.BuildKACPad(m, form); ok && err == nil {
				if fd, err := destination.NewDestination(kac); err == nil && fd != nil {
					forms = append(forms, fd)
				}
			}
		}
		for a := range forms {
			if fb, err := forms[a].Bytes(); err != nil || !bytes.Equal(fb, b) {
				continue
			}
			c.Bucket("padding-forms-compared")
			if !d.Equals(forms[a]) || !forms[a].Equals(&d) {
				c.Violate("destination.Destination.Equals", "equal-serialisations-compare-unequal", sh, b, fmt.Sprintf("parsed destination and one constructed with padding form %d have identical bytes but compare unequal", a))
			}
			for bb := range forms {
				if !forms[a].Equals(forms[bb]) {
					c.Violate("destination.Destination.Equals", "equal-serialisations-compare-unequal", sh, b, fmt.Sprintf("destinations constructed with padding forms %d and %d have identical bytes but compare unequal", a, bb))
				}
			}
		}
		// single-byte differences: every position class
		positions := []int{r.Pick(32), 32 + r.Pick(224), 256 + r.Pick(96), 352 + r.Pick(32), 383, 0, 255, 256}
		if len(b) > 391 {
			positions = append(positions, 391+r.Pick(len(b)-391))
		}
		for _, p := range positions {
			b2 := append([]byte{}, b...)
			b2[p] ^= byte(1 + r.Pick(255))
			d2, _, err := destination.ReadDestination(b2)
			if err != nil {
				continue
			}
			c.Eval(1)
			c.Bucket("single-byte-difference-pairs")
			if d.Equals(&d2) || d2.Equals(&d) {
				c.Violate("destination.Destination.Equals", "different-bytes-compare-equal", gen.Shape{"pos": p, "sig": sig, "crypto": cr, "cert": sh["cert"]}, b2, fmt.Sprintf("identities differing at byte %d compare equal", p))
			}
			h1, _ := d.Hash()
			h2, _ := d2.Hash()
			a1, _ := d.Base32Address()
			a2, _ := d2.Base32Address()
			if h1 == h2 || a1 == a2 {
				c.Violate("destination.Destination.Hash", "different-bytes-same-hash", gen.Shape{"pos": p, "sig": sig, "crypto": cr, "cert": sh["cert"]}, b2, fmt.Sprintf("identities differing at byte %d have the same hash/address", p))
			}
			want2 := sha256.Sum256(b2)
			if h2 != want2 {
				c.Violate("destination.Destination.Hash", "hash-not-sha256-of-bytes", gen.Shape{"pos": p, "sig": sig, "crypto": cr, "cert": sh["cert"]}, b2, "hash of modified identity is not SHA-256 of its bytes")
			}
		}
		c.Sample(gen.Shape{"kind": "destination", "shape": sh, "len": len(b)})
	})

	// router identities and RouterInfo.IdentHash
	c.Job("rident", n, func(i int, r *core.Rand) {
		sig := rm.RouterSigTypes[i%len(rm.RouterSigTypes)]
		cr := rm.IdentCryptoTypes[(i/len(rm.RouterSigTypes))%len(rm.IdentCryptoTypes)]
		m, sh := gen.KACOf(r, sig, cr)
		b := m.Encode()
		c.Eval(1)
		var ri *router_identity.RouterIdentity
		var err error
		panicked, _, _ := c.Call("router_identity.ReadRouterIdentity", b, func() { ri, _, err = router_identity.ReadRouterIdentity(b) })
		if panicked || err != nil || ri == nil {
			c.Bucket("rident-parse-failed")
			return
		}
		c.Nontrivial([]byte("rident"), b)
		c.Bucket(fmt.Sprintf("rident/sig%d-crypto%d-%v", sig, cr, sh["cert"]))
		ser, err := ri.Bytes()
		if err != nil || !bytes.Equal(ser, b) {
			c.Violate("router_identity.RouterIdentity.Bytes", "bytes", sh, b, "Bytes() differs from the encoding")
		}
		ri2, _, _ := router_identity.ReadRouterIdentity(append([]byte{}, b...))
		if !ri.Equal(ri2) {
			c.Violate("router_identity.RouterIdentity.Equal", "equal-serialisations-compare-unequal", sh, b, "two parses of the same bytes compare unequal")
		}
		// read from a buffer that continues after the identity (as inside a RouterInfo)
		for _, tail := range [][]byte{r.Bytes(1 + r.Pick(40)), b, {0}} {
			long := append(append([]byte{}, b...), tail...)
			ri4, rem, err := router_identity.ReadRouterIdentity(long)
			if err != nil || ri4 == nil || len(rem) != len(tail) {
				continue
			}
			want := sha256.Sum256(b)
			if s4, err := ri4.Bytes(); err != nil || !bytes.Equal(s4, b) {
				c.Violate("router_identity.RouterIdentity.Bytes", "bytes", sh, long, "an identity read from a longer buffer does not serialise to its own bytes")
			}
			if !ri.Equal(ri4) || !ri4.Equal(ri) {
				c.Violate("router_identity.RouterIdentity.Equal", "equal-serialisations-compare-unequal", sh, long, "the same identity read alone and read from a longer buffer compare unequal")
			}
			ad := ri4.AsDestination()
			if h, err := ad.Hash(); err != nil || h != want {
				c.Violate("router_identity.RouterIdentity.AsDestination", "hash-not-sha256-of-bytes", sh, long, fmt.Sprintf("identity read from a longer buffer: Hash()=%x err=%v, SHA-256(identity bytes)=%x", h, err, want))
			}
		}
		for form := 0; form < 3; form++ {
			if kac, ok, err := lib.BuildKACPad(m, form); ok && err == nil {
				if fr, err := router_identity.NewRouterIdentityFromKeysAndCert(kac); err == nil && fr != nil {
					if fb, err := fr.Bytes(); err == nil && bytes.Equal(fb, b) && (!ri.Equal(fr) || !fr.Equal(ri)) {
						c.Violate("router_identity.RouterIdentity.Equal", "equal-serialisations-compare-unequal", sh, b, fmt.Sprintf("parsed identity and one constructed with padding form %d have identical bytes but compare unequal", form))
					}
				}
			}
		}
		if cri, ok, err := lib.BuildRouterIdentity(m, i%2); ok && err == nil {
			if !ri.Equal(cri) {
				c.Violate("router_identity.RouterIdentity.Equal", "equal-serialisations-compare-unequal", sh, b, "parsed and constructed identity with identical bytes compare unequal")
			}
		}
		ad := ri.AsDestination()
		if adb, err := ad.Bytes(); err == nil && !bytes.Equal(adb, b) {
			c.Violate("router_identity.RouterIdentity.AsDestination", "bytes", sh, b, "AsDestination() changes the identity's bytes")
		}
		for _, p := range []int{r.Pick(384), 383, 384 + 3 + r.Pick(len(b)-387+1) - 1} {
			if p < 0 || p >= len(b) || (p >= 384 && p < 391) {
				continue
			}
			b2 := append([]byte{}, b...)
			b2[p] ^= byte(1 + r.Pick(255))
			o, _, err := router_identity.ReadRouterIdentity(b2)
			if err != nil || o == nil {
				continue
			}
			c.Eval(1)
			c.Bucket("single-byte-difference-pairs")
			if ri.Equal(o) || o.Equal(ri) {
				c.Violate("router_identity.RouterIdentity.Equal", "different-bytes-compare-equal", gen.Shape{"pos": p, "sig": sig, "crypto": cr}, b2, fmt.Sprintf("identities differing at byte %d compare equal", p))
			}
		}
		// identities assembled by the caller: through NewPrivateKeysAndCert (the bytes are the parts as
		// given: key || padding || key || certificate), and as a struct literal whose padding is not
		// filled in (nil) where validation accepts that; every route to a hash must agree with
		// SHA-256 of the identity's own serialisation
		if kc, ok, err := lib.BuildKeyCert(m.Cert); ok && err == nil {
			pk, e1 := lib.CryptoKeyOf(cr, m.CryptoKey())
			spk, e2 := lib.SigningKeyOf(sig, m.SigningKey())
			if e1 == nil && e2 == nil {
				if pkac, err := keys_and_cert.NewPrivateKeysAndCert(kc, pk, lib.PaddingArg(m), spk, []byte{1}, []byte{2}); err == nil && pkac != nil {
					if pb, err := pkac.KeysAndCert.Bytes(); err != nil || !bytes.Equal(pb, b) {
						c.Violate("keys_and_cert.NewPrivateKeysAndCert", "bytes", sh, b, "the identity inside a PrivateKeysAndCert does not serialise to key || padding || key || certificate as given: "+describeDiff(b, pb))
					}
					c.Bucket("private-keys-and-cert-identity")
				}
				lit := &keys_and_cert.KeysAndCert{KeyCertificate: kc, ReceivingPublic: pk, Padding: nil, SigningPublic: spk}
				if lit.Validate() == nil {
					if lb, err := lit.Bytes(); err == nil {
						id := &router_identity.RouterIdentity{KeysAndCert: lit}
						want := sha256.Sum256(lb)
						if ib, err := id.Bytes(); err != nil || !bytes.Equal(ib, lb) {
							c.Violate("router_identity.RouterIdentity.Bytes", "bytes", sh, lb, "RouterIdentity.Bytes() differs from its KeysAndCert's serialisation (identity assembled as a literal, padding not filled in)")
						}
						ad := id.AsDestination()
						if h, err := ad.Hash(); err != nil || h != want {
							c.Violate("router_identity.RouterIdentity.AsDestination", "hash-not-sha256-of-bytes", sh, lb, fmt.Sprintf("Hash()=%x err=%v, SHA-256(bytes)=%x", h, err, want))
						}
						if k7, err := rm.NewSigKey(7, r); err == nil && sig == 7 {
							priv, _ := lib.LibSigningPrivateKey(k7)
							if nri, err := router_info.NewRouterInfo(id, time.UnixMilli(1700000000000), nil, map[string]string{}, priv, 7); err == nil && nri != nil {
								if h, err := nri.IdentHash(); err != nil || [32]byte(h) != want {
									c.Violate("router_info.RouterInfo.IdentHash", "hash-not-sha256-of-bytes", gen.Shape{"sig": sig, "crypto": cr, "class": "identity assembled as a literal"}, lb, fmt.Sprintf("IdentHash()=%x err=%v, SHA-256(identity bytes)=%x", h, err, want))
								}
							}
						}
						c.Bucket("literal-identity-with-unfilled-padding")
					}
				}
			}
		}
		// RouterInfo.IdentHash over an info carrying this identity
		info, _ := gen.RouterInfo(r)
		info.Ident = m
		sl, _ := rm.SigLen(sig)
		info.Sig = r.Bytes(sl)
		ib := info.Encode()
		buf := append([]byte{}, ib...) // the caller's buffer: reused after parsing
		pi, _, err := router_info.ReadRouterInfo(buf)
		if err == nil {
			h, err := pi.IdentHash()
			want := sha256.Sum256(b)
			if err != nil || [32]byte(h) != want {
				c.Violate("router_info.RouterInfo.IdentHash", "hash-not-sha256-of-bytes", sh, ib, fmt.Sprintf("IdentHash()=%x err=%v expected %x", h, err, want))
			}
			c.Bucket("identhash-checked")
			// the hash is a function of the identity, not of whatever the caller's buffer holds later
			for k := range buf {
				buf[k] ^= 0x5a
			}
			h2, err := pi.IdentHash()
			idb, _ := pi.RouterIdentity().Bytes()
			if err != nil || [32]byte(h2) != sha256.Sum256(idb) || h2 != h {
				c.Violate("router_info.RouterInfo.IdentHash", "hash-changes-with-callers-buffer", sh, ib, fmt.Sprintf("IdentHash() %x before, %x after the input buffer was reused; SHA-256(identity bytes) = %x", h, h2, sha256.Sum256(idb)))
			}
			// ... and it is a function of the identity as it is NOW: after hashes have been asked for,
			// the identity is changed in place through its exported fields (a padding byte; or the whole
			// KeysAndCert replaced by another identity's); hash and bytes must still agree
			if id := pi.RouterIdentity(); id != nil && id.KeysAndCert != nil {
				what := "padding byte flipped"
				if len(id.Padding) > 0 && r.Chance(2, 3) {
					id.Padding[r.Pick(len(id.Padding))] ^= byte(1 + r.Pick(255))
				} else {
					other, _ := gen.KACOf(r, sig, cr)
					if o2, _, err := router_identity.ReadRouterIdentity(other.Encode()); err == nil && o2 != nil {
						id.KeysAndCert = o2.KeysAndCert
						what = "KeysAndCert replaced"
					}
				}
				nb, e1 := id.Bytes()
				h3, e2 := pi.IdentHash()
				if e1 == nil && e2 == nil && [32]byte(h3) != sha256.Sum256(nb) {
					c.Violate("router_info.RouterInfo.IdentHash", "hash-not-sha256-of-bytes", gen.Shape{"sig": sig, "crypto": cr, "class": "identity changed in place after a first IdentHash: " + what}, ib,
						fmt.Sprintf("IdentHash()=%x, SHA-256 of the identity's current bytes=%x", h3, sha256.Sum256(nb)))
				}
				c.Bucket("identhash-after-in-place-change")
			}
		}
	})

	// HashData / HashReader
	// identities whose keys the caller keeps in ONE table (adjacent windows of a single buffer, so each
	// key slice has the following keys and more as spare capacity): serialising or hashing one
	// identity leaves the table, and with it every sibling identity, as it was
	c.Job("shared-key-table", c.N(300, 6000), func(i int, r *core.Rand) {
		const N = 3
		kcm := rm.KeyCert(7, 4, nil)
		kc, ok, err := lib.BuildKeyCert(kcm)
		if !ok || err != nil || kc == nil {
			return
		}
		table := r.Bytes(32*N + 512)
		sigTable := r.Bytes(32*N + 512)
		orig := append([]byte{}, table...)
		origSig := append([]byte{}, sigTable...)
		var ds []*destination.Destination
		var want [][]byte
		for j := 0; j < N; j++ {
			pad := r.Bytes(384 - 32 - 32)
			pk := curve25519.Curve25519PublicKey(table[32*j : 32*j+32])
			spk := ed25519.Ed25519PublicKey(sigTable[32*j : 32*j+32])
			e := append(append(append(append([]byte{}, pk...), pad...), spk...), kcm.Encode()...)
			kac, err := keys_and_cert.NewKeysAndCert(kc, pk, pad, spk)
			if err != nil || kac == nil {
				return
			}
			d, err := destination.NewDestination(kac)
			if err != nil || d == nil {
				return
			}
			ds = append(ds, d)
			want = append(want, e)
		}
		c.Eval(1)
		c.Nontrivial([]byte("shared-key-table"), want[0])
		sh := gen.Shape{"sig": 7, "crypto": 4, "class": "keys are adjacent windows of one caller-owned table"}
		for j := 0; j < N; j++ {
			c.Call("Destination accessors (shared key table)", want[j], func() {
				ds[j].Bytes()
				ds[j].Hash()
				ds[j].Base32Address()
				ds[j].Base64()
				ds[j].Equals(ds[(j+1)%N])
			})
			if !bytes.Equal(table, orig) || !bytes.Equal(sigTable, origSig) {
				c.Violate("destination.Destination.Hash", "hash-not-sha256-of-bytes", sh, want[j], fmt.Sprintf("serialising / hashing identity %d of %d wrote into the caller's key table (behind the key it was given)", j, N))
				return
			}
			for k := 0; k < N; k++ {
				wh := sha256.Sum256(want[k])
				if h, err := ds[k].Hash(); err != nil || [32]byte(h) != wh {
					c.Violate("destination.Destination.Hash", "hash-not-sha256-of-bytes", sh, want[k], fmt.Sprintf("after identity %d was serialised and hashed, identity %d hashes to %x (SHA-256 of its bytes: %x, err %v)", j, k, h, wh, err))
					return
				}
			}
		}
		c.Bucket("shared-key-table-ok")
	})

	// many identities hashed at the same time, each by its own goroutine: hash, address and bytes are
	// functions of that identity's bytes whatever else the process is doing (scratch space shared
	// between calls mixes identities up only when calls overlap)
	c.Job("concurrent-hashing", c.N(20, 400), func(i int, r *core.Rand) {
		const G = 8
		type item struct {
			d    destination.Destination
			b    []byte
			want [32]byte
			sh   gen.Shape
		}
		items := make([]item, 0, G)
		for len(items) < G {
			sig := rm.DestSigTypes[r.Pick(len(rm.DestSigTypes))]
			cr := rm.IdentCryptoTypes[r.Pick(len(rm.IdentCryptoTypes))]
			m, sh := gen.KACOf(r, sig, cr)
			b := m.Encode()
			d, _, err := destination.ReadDestination(b)
			if err != nil {
				continue
			}
			items = append(items, item{d, b, sha256.Sum256(b), sh})
		}
		c.Eval(1)
		c.Nontrivial([]byte("concurrent-hashing"), items[0].b)
		bad := make([]string, G)
		var wg sync.WaitGroup
		start := make(chan struct{})
		for g := 0; g < G; g++ {
			g := g
			wg.Add(1)
			go func() {
				defer wg.Done()
				defer func() {
					if pv := recover(); pv != nil {
						bad[g] = fmt.Sprint("panic: ", pv)
					}
				}()
				<-start
				it := &items[g]
				for k := 0; k < 150 && bad[g] == ""; k++ {
					if h, err := it.d.Hash(); err != nil || h != it.want {
						bad[g] = fmt.Sprintf("Hash()=%x err=%v, SHA-256(bytes)=%x", h, err, it.want)
					}
					if sb, err := it.d.Bytes(); err != nil || !bytes.Equal(sb, it.b) {
						bad[g] = "Bytes() differs from the identity's encoding"
					}
					if k%8 == 0 {
						if a, err := it.d.Base32Address(); err != nil || a != rm.B32EncodeNoPad(it.want[:])+".b32.i2p" {
							bad[g] = fmt.Sprintf("Base32Address()=%q err=%v", a, err)
						}
					}
				}
			}()
		}
		close(start)
		wg.Wait()
		for g := range bad {
			if bad[g] != "" {
				c.Violate("destination.Destination.Hash", "hash-not-sha256-of-bytes", gen.Shape{"class": "eight identities hashed concurrently, one goroutine each", "sig": items[g].sh["sig"], "crypto": items[g].sh["crypto"]}, items[g].b, bad[g])
				return
			}
		}
		c.Bucket("concurrent-hashing-ok")
	})

	c.Job("hashdata", n, func(i int, r *core.Rand) {
		in := r.Bytes(r.Pick(2000))
		c.Eval(1)
		want := sha256.Sum256(in)
		if h := data.HashData(in); [32]byte(h) != want {
			c.Violate("data.HashData", "hash-not-sha256-of-bytes", nil, in, "HashData differs from SHA-256")
		}
		h, err := data.HashReader(bytes.NewReader(in))
		if err != nil || [32]byte(h) != want {
			c.Violate("data.HashReader", "hash-not-sha256-of-bytes", nil, in, "HashReader differs from SHA-256")
		}
		c.Nontrivial([]byte("hashdata"), in)
		// a stream that fails half way leaves nothing behind: the next hashes (of plain data, of a
		// stream, of an identity) are those of their own input
		if i%3 == 0 {
			cut := r.Pick(len(in) + 1)
			_, ferr := data.HashReader(io.MultiReader(bytes.NewReader(in[:cut]), failingReader{}))
			if ferr == nil {
				c.Violate("data.HashReader", "hash-not-sha256-of-bytes", gen.Shape{"class": "reader fails after some bytes"}, in[:cut], "a reader that failed produced a hash and no error")
			}
			if h := data.HashData(in); [32]byte(h) != want {
				c.Violate("data.HashData", "hash-not-sha256-of-bytes", gen.Shape{"class": "after a failed HashReader"}, in, "HashData after a failed HashReader differs from SHA-256 of its own input")
			}
			if h, err := data.HashReader(bytes.NewReader(in)); err != nil || [32]byte(h) != want {
				c.Violate("data.HashReader", "hash-not-sha256-of-bytes", gen.Shape{"class": "after a failed HashReader"}, in, "HashReader after a failed HashReader differs from SHA-256 of its own input")
			}
			m, sh := gen.KACOf(r, 7, 4)
			b := m.Encode()
			data.HashReader(io.MultiReader(bytes.NewReader(in[:cut]), failingReader{}))
			if d, _, err := destination.ReadDestination(b); err == nil {
				if h, err := d.Hash(); err != nil || [32]byte(h) != sha256.Sum256(b) {
					c.Violate("destination.Destination.Hash", "hash-not-sha256-of-bytes", sh, b, "identity hashed after a failed HashReader")
				}
			}
		}
	})
}

// failingReader fails on every Read.
type failingReader struct{}

func (failingReader) Read([]byte) (int, error) { return 0, errors.New("verif: injected read failure") }
