package mon

import (
	"fmt"
	"reflect"
	"strings"

	"verifharness/core"
	"verifharness/gen"
	"verifharness/lib"
	rm "verifharness/refmodel"
)

// C20 — zero values and failed-parse results are safe to touch.
func init() { register("C20", runC20) }

func c20Report(c *core.Ctx, site string, obs []lib.Obs, sh gen.Shape, in []byte) (methods int) {
	for _, o := range obs {
		methods++
		c.Bucket("method/" + o.Name)
		if o.Panicked {
			if !strings.HasPrefix(core.PanicCulprit(o.Stack), "github.com/go-i2p/") {
				c.FloorFail("harness panic while invoking " + o.Name + ": " + o.Panic)
				continue
			}
			s2 := gen.Shape{"method": o.Name, "panic_at": panicSite(o.Stack)}
			for k, v := range sh {
				s2[k] = v
			}
			c.ViolateP("C20", site, "method-panics", s2, in, o.Panic, o.Stack)
		} else if o.Verify && o.VerifyOK {
			s2 := gen.Shape{"method": o.Name}
			for k, v := range sh {
				s2[k] = v
			}
			c.ViolateP("C20", site, "verification-succeeds", s2, in, o.Name+" reports success: "+o.Result, "")
		}
	}
	return
}

func runC20(c *core.Ctx) {
	// ---- zero values of every exported named type, by census (exhaustive)
	types := lib.CensusTypes
	c.Job("zero-values", len(types), func(i int, r *core.Rand) {
		t := types[i]
		c.Eval(1)
		if t.Kind == "interface" || t.Kind == "func" {
			c.Bucket("census-skipped/" + t.Kind)
			return
		}
		pv := reflect.New(t.Type) // &T{} ; its method set includes the value methods
		var obs []lib.Obs
		c.Call("zero/"+t.Name, []byte(t.Name), func() {
			obs = lib.Observe(pv.Interface(), lib.ObserveOpts{Depth: 1, Before: func(name string) { c.Call("zero/"+t.Name+"->"+name, []byte(t.Name), func() {}) }})
		})
		n := c20Report(c, "zero-value:"+t.Name, obs, gen.Shape{"type": t.Name, "class": "zero-value"}, []byte(t.Name))
		// value (non-pointer) method set through an addressable copy is the same set; also try the
		// plain value for types whose methods have value receivers
		c.Nontrivial([]byte("zero"), []byte(t.Name))
		c.BucketN("zero-value-methods", int64(n))
		c.Sample(gen.Shape{"type": t.Name, "kind": t.Kind, "methods_invoked": n})
	})
	c.Exhaustive(fmt.Sprintf("every exported named type found by the census of the working tree (%d types) x every exported argument-free method", len(types)))
	c.SetExtra("census_types", int64(len(types)))

	// ---- partial values: what a parser returns together with an error
	unit := c.N(40, 500)
	for _, p := range lib.Parsers() {
		p := p
		c.Job("partial/"+p.ID(), unit*weight(p.Kind), func(i int, r *core.Rand) {
			cs := gen.WellFormed(p.Kind, p.Arg, r)
			w := cs.Bytes
			// every truncation point for short encodings, a stratified sample otherwise; plus mutations
			var inputs [][]byte
			if len(w) <= 200 || c.Thorough() && len(w) <= 1500 {
				for k := 0; k < len(w); k++ {
					inputs = append(inputs, w[:k])
				}
			} else {
				for k := 0; k < 24; k++ {
					inputs = append(inputs, w[:r.Pick(len(w))])
				}
				for _, k := range []int{0, 1, 2, 3, 383, 384, 385, 386, 387, 388, 390, 391, 392, len(w) - 1, len(w) - 2, len(w) - 40, len(w) - 64, len(w) - 65} {
					if k >= 0 && k < len(w) {
						inputs = append(inputs, w[:k])
					}
				}
			}
			other := gen.WellFormed(p.Kind, p.Arg, r)
			for k := 0; k < 12; k++ {
				m, _ := gen.Mutate(r, cs, other.Bytes)
				inputs = append(inputs, m)
			}
			for _, in := range inputs {
				out, panicked, _, _ := callParser(c, p, in)
				c.Eval(1)
				if panicked {
					continue // a parser panic is C04's finding
				}
				c.OpResult(p.ID(), out.Accepted)
				if out.Accepted || out.Val == nil {
					continue
				}
				rv := reflect.ValueOf(out.Val)
				if rv.Kind() == reflect.Ptr && rv.IsNil() {
					continue
				}
				c.Nontrivial([]byte(p.ID()), in)
				c.Bucket("partial-values/" + p.Kind)
				var obs []lib.Obs
				c.Call(p.ID()+"/partial-observe", in, func() { obs = lib.Observe(out.Val, lib.ObserveOpts{Depth: 1}) })
				c20Report(c, "partial-value:"+p.Name, obs, gen.Shape{"class": "partial-value", "len": len(in), "of": len(w)}, in)
			}
		})
	}

	// ---- partial values of correctly SIGNED structures, after the intact structure has been
	// verified successfully in the same process (state carried from a successful verification —
	// a cache keyed by content — must not make a truncated copy verify): every truncation point
	kinds := []struct {
		parser string
		mk     func(r *core.Rand, i int) signedCase
	}{
		{"router_info.ReadRouterInfo", func(r *core.Rand, i int) signedCase { return signedRouterInfo(r, 7) }},
		{"lease_set.ReadLeaseSet", func(r *core.Rand, i int) signedCase { return signedLeaseSet(r, []int{7, 0}[i%2]) }},
		{"lease_set2.ReadLeaseSet2", func(r *core.Rand, i int) signedCase {
			return signedLeaseSet2(r, []int{7, 11, 0}[i%3], i%2 == 1, []int{7, 11, 0}[(i/2)%3])
		}},
		{"meta_leaseset.ReadMetaLeaseSet", func(r *core.Rand, i int) signedCase {
			return signedMeta(r, []int{7, 11}[i%2], i%4 >= 2, []int{11, 7}[(i/4)%2])
		}},
		{"encrypted_leaseset.ReadEncryptedLeaseSet", func(r *core.Rand, i int) signedCase {
			return signedELS(r, []int{7, 11}[i%2], i%4 >= 2, []int{7, 11}[(i/4)%2])
		}},
	}
	for _, k := range kinds {
		k := k
		p := lib.ByNameCached(k.parser)
		c.Job("signed-partial/"+k.parser, c.N(12, 240), func(i int, r *core.Rand) {
			sc := k.mk(r, i)
			whole, panicked, _, _ := callParser(c, *p, sc.bytes)
			c.Eval(1)
			if panicked || !whole.Accepted || whole.Val == nil {
				c.Bucket("signed-partial/intact-not-accepted")
				return
			}
			verified := false
			c.Call(k.parser+"/verify-intact", sc.bytes, func() {
				for _, o := range lib.Observe(whole.Val, lib.ObserveOpts{Depth: 0}) {
					if o.Verify && o.VerifyOK {
						verified = true
					}
				}
			})
			if verified {
				c.Bucket("signed-partial/intact-verified/" + sc.kind)
			} else {
				c.Bucket("signed-partial/intact-did-not-verify/" + sc.kind)
			}
			w := sc.bytes
			for cut := 0; cut < len(w); cut++ {
				if c.Quick() && len(w) > 700 && cut > 8 && cut < len(w)-200 && cut%5 != 0 {
					continue
				}
				in := w[:cut]
				out, panicked, _, _ := callParser(c, *p, in)
				c.Eval(1)
				if panicked || out.Accepted || out.Val == nil {
					continue
				}
				rv := reflect.ValueOf(out.Val)
				if rv.Kind() == reflect.Ptr && rv.IsNil() {
					continue
				}
				c.Nontrivial([]byte(k.parser), in)
				c.Bucket("partial-values-of-signed/" + sc.kind)
				var obs []lib.Obs
				c.Call(k.parser+"/partial-observe", in, func() { obs = lib.Observe(out.Val, lib.ObserveOpts{Depth: 1}) })
				c20Report(c, "partial-value:"+k.parser, obs, gen.Shape{"class": "partial-value-of-verified-structure", "len": len(in), "of": len(w), "intact_verified": verified}, in)
			}
		})
	}

	// ---- correctly signed structures a parser may refuse for reasons other than framing: unusual
	// content (reserved flag bits, zero or maximal timestamps and offsets, no leases / keys / entries,
	// unknown key types, peer_size set, unsorted options), signed as it is. When the parser returns a
	// value TOGETHER WITH an error, that value gets the method sweep like any other partial value —
	// and, complete and correctly signed as it is, it must still not verify.
	for _, k := range kinds {
		k := k
		p := lib.ByNameCached(k.parser)
		c.Job("signed-unusual/"+k.parser, c.N(120, 2400), func(i int, r *core.Rand) {
			what := ""
			signedTweak = func(model any) {
				pick := r.Pick(10)
				// one time in three the unusual content is inside a mapping the structure carries (its
				// options, the options of an address, the properties of an entry): a duplicate key, bytes
				// that form no pair inside the declared extent, an empty key, a pair cut short - what the
				// mapping parser refuses pair by pair while the container has everything it needs
				if r.Chance(1, 3) {
					odd := func() (rm.Mapping, string) {
						base := gen.Mapping(r, 4)
						if len(base.Pairs) == 0 {
							base.Pairs = []rm.Pair{{K: []byte("caps"), V: []byte("fR")}}
						}
						switch r.Pick(5) {
						case 0:
							base.Pairs = append(base.Pairs, base.Pairs[r.Pick(len(base.Pairs))])
							return base, "duplicate key in a mapping"
						case 1:
							return rm.Mapping{Raw: append(base.Body(), r.Bytes(1+r.Pick(5))...)}, "bytes that form no pair inside a mapping's extent"
						case 2:
							base.Pairs = append([]rm.Pair{{K: []byte{}, V: []byte("x")}}, base.Pairs...)
							return base, "empty key in a mapping"
						case 3:
							b := base.Body()
							return rm.Mapping{Raw: b[:len(b)-1-r.Pick(min(3, len(b)-1))]}, "last pair of a mapping cut short"
						default:
							b := base.Body()
							b[len(b)-1] = ','
							return rm.Mapping{Raw: b}, "wrong delimiter in a mapping"
						}
					}
					switch m := model.(type) {
					case *rm.RouterInfo:
						if len(m.Addrs) > 0 && r.Chance(1, 2) {
							m.Addrs = append([]rm.RouterAddress{}, m.Addrs...)
							m.Addrs[r.Pick(len(m.Addrs))].Options, what = odd()
							what += " (address options)"
						} else {
							m.Options, what = odd()
						}
						return
					case *rm.LeaseSet2:
						m.Options, what = odd()
						return
					case *rm.MetaLeaseSet:
						if len(m.Entries) > 0 && r.Chance(1, 2) {
							m.Entries = append([]rm.MetaEntry{}, m.Entries...)
							m.Entries[r.Pick(len(m.Entries))].Props, what = odd()
							what += " (entry properties)"
						} else {
							m.Options, what = odd()
						}
						return
					}
				}
				switch m := model.(type) {
				case *rm.RouterInfo:
					switch pick % 5 {
					case 0:
						m.Published, what = 0, "published=0"
					case 1:
						m.PeerSize, what = byte(1+r.Pick(255)), "peer_size set"
					case 2:
						m.Addrs, what = nil, "no addresses"
					case 3:
						m.Options, what = rm.Mapping{Pairs: []rm.Pair{{K: []byte("z"), V: []byte("1")}, {K: []byte("a"), V: []byte("2")}}}, "unsorted options"
					default:
						m.Published, what = 1<<63+uint64(r.Pick(1000)), "published beyond int64"
					}
				case *rm.LeaseSet:
					switch pick % 3 {
					case 0:
						m.Leases, what = nil, "no leases"
					case 1:
						for j := range m.Leases {
							m.Leases[j].EndMs = 0
						}
						what = "lease end dates zero"
					default:
						if len(m.Leases) > 0 {
							m.Leases[0].EndMs = 1<<63 + 5
						}
						what = "lease end date beyond int64"
					}
				case *rm.LeaseSet2:
					switch pick % 7 {
					case 0:
						m.Flags |= uint16(1) << uint(3+r.Pick(13))
						what = "reserved flag bits"
					case 1:
						m.Expires, what = 0, "expires=0"
					case 2:
						m.Published, what = 0, "published=0"
					case 3:
						m.Leases, what = nil, "no leases"
					case 4:
						m.Keys, what = []rm.EncKey{{Type: 0xFF01, Data: r.Bytes(5)}}, "only an unknown-type key"
					case 5:
						if len(m.Keys) > 0 {
							m.Keys[0].Data = r.Bytes(len(m.Keys[0].Data) + 1)
						}
						what = "key length not that of its type"
					default:
						m.Published, m.Expires, what = 0xffffffff, 0xffff, "maximal published and expires"
					}
				case *rm.MetaLeaseSet:
					switch pick % 5 {
					case 0:
						m.Flags |= uint16(1) << uint(2+r.Pick(14))
						what = "reserved flag bits"
					case 1:
						m.Expires, what = 0, "expires=0"
					case 2:
						m.Published, what = 0, "published=0"
					case 3:
						m.Entries, what = nil, "no entries"
					default:
						for j := range m.Entries {
							m.Entries[j].Type = byte(r.Pick(256))
							m.Entries[j].Expires = 0
						}
						what = "entry types arbitrary, entry expires zero"
					}
				case *rm.EncryptedLeaseSet:
					switch pick % 5 {
					case 0:
						m.Flags |= uint16(1) << uint(2+r.Pick(14))
						what = "reserved flag bits"
					case 1:
						m.Expires, what = 0, "expires=0"
					case 2:
						m.Published, what = 0, "published=0"
					case 3:
						m.Inner, what = r.Bytes(r.Pick(61)), "inner data shorter than any ciphertext"
					default:
						m.Published, m.Expires, what = 0xffffffff, 0xffff, "maximal published and expires"
					}
				}
			}
			sc := k.mk(r, i)
			signedTweak = nil
			out, panicked, _, _ := callParser(c, *p, sc.bytes)
			c.Eval(1)
			if panicked {
				return
			}
			c.OpResult(k.parser, out.Accepted)
			c.Nontrivial([]byte(k.parser), sc.bytes)
			if out.Accepted {
				c.Bucket("signed-unusual/accepted/" + sc.kind + "/" + what)
				return
			}
			c.Bucket("signed-unusual/refused/" + sc.kind + "/" + what)
			if out.Val == nil {
				return
			}
			rv := reflect.ValueOf(out.Val)
			if rv.Kind() == reflect.Ptr && rv.IsNil() {
				return
			}
			var obs []lib.Obs
			c.Call(k.parser+"/partial-observe", sc.bytes, func() { obs = lib.Observe(out.Val, lib.ObserveOpts{Depth: 1}) })
			c20Report(c, "partial-value:"+k.parser, obs, gen.Shape{"class": "value-returned-with-error-for-a-correctly-signed-structure", "content": what}, sc.bytes)
		})
	}
}
