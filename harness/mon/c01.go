package mon

import (
	"bytes"
	"crypto/sha256"
	"encoding/hex"
	"fmt"
	"reflect"
	"sync"

	"verifharness/core"
	"verifharness/gen"
	"verifharness/lib"
)

// C01 — re-serialising any accepted input reproduces the consumed bytes.
func init() { register("C01", runC01) }

func runC01(c *core.Ctx) {
	unit := c.N(300, 6000)
	parserCases(c, unit, nil, func(pc pcase) { checkC01(c, pc) })
	// eight accepted values of one kind re-serialised at the same time, one goroutine each: every
	// serialisation is the bytes THAT value was read from (a serialiser assembling its output in
	// scratch space shared between calls mixes values up only when calls overlap)
	var comp []lib.Parser
	for _, p := range lib.Parsers() {
		if !trivialKind(p.Kind) && p.Kind != "string" {
			comp = append(comp, p)
		}
	}
	c.Job("concurrent-serialisation", len(comp)*c.N(16, 160), func(i int, r *core.Rand) {
		p := comp[i%len(comp)]
		const G = 8
		type item struct {
			v        reflect.Value
			consumed []byte
		}
		var items []item
		for tries := 0; tries < 60 && len(items) < G; tries++ {
			cs := gen.WellFormed(p.Kind, p.Arg, r)
			out, panicked, _, _ := callParser(c, p, cs.Bytes)
			if panicked || !out.Accepted || out.Val == nil || len(out.Ser) == 0 {
				continue
			}
			v := reflect.ValueOf(out.Val)
			if isSliceType(v) {
				return
			}
			if b, ok := reserialise(v); !ok || !bytes.Equal(b, out.Ser) {
				continue
			}
			items = append(items, item{v, append([]byte{}, out.Ser...)})
		}
		if len(items) < 2 {
			return
		}
		c.Eval(1)
		c.Nontrivial([]byte("concurrent-serialisation"), []byte(p.ID()), items[0].consumed)
		bad := make([]string, len(items))
		var wg sync.WaitGroup
		start := make(chan struct{})
		for g := range items {
			g := g
			wg.Add(1)
			go func() {
				defer wg.Done()
				defer func() {
					if pv := recover(); pv != nil {
						bad[g] = fmt.Sprint("panic: ", pv)
					}
				}()
				<-start
				for k := 0; k < 120 && bad[g] == ""; k++ {
					if b, ok := reserialise(items[g].v); !ok || !bytes.Equal(b, items[g].consumed) {
						bad[g] = describeDiff(items[g].consumed, b)
					}
				}
			}()
		}
		close(start)
		wg.Wait()
		for g := range bad {
			if bad[g] != "" {
				c.Violate(p.Name, "bytes-differ", gen.Shape{"class": fmt.Sprintf("%d values of this kind re-serialised concurrently, one goroutine each", len(items))}, items[g].consumed, bad[g])
				return
			}
		}
		c.Bucket("concurrent-serialisation-ok/" + p.Kind)
	})
	c01Floors(c)
}

func checkC01(c *core.Ctx, pc pcase) {
	out, panicked, _, _ := callParser(c, pc.p, pc.in)
	c.Eval(1)
	if panicked {
		return
	}
	c.OpResult(pc.p.ID(), out.Accepted)
	if !out.Accepted {
		return
	}
	var consumed []byte
	switch {
	case pc.p.HasRem:
		if len(out.Rem) > len(pc.in) {
			c.Violate(pc.p.Name, "remainder-longer-than-input", pc.fullShape(), pc.in, fmt.Sprintf("remainder %d bytes, input %d", len(out.Rem), len(pc.in)))
			return
		}
		consumed = pc.in[:len(pc.in)-len(out.Rem)]
	case pc.p.Whole:
		consumed = pc.in
	case pc.p.Prefix:
		n, _, ok := refExtent(pc.p.Kind, pc.p.Arg, pc.in)
		if !ok {
			// the reference cannot frame an input the library accepted: the library consumed
			// something that is not a complete structure
			c.Violate(pc.p.Name, "accepted-unframeable", pc.fullShape(), pc.in, "library accepted an input the reference decoder cannot delimit")
			return
		}
		consumed = pc.in[:n]
	}
	sh := pc.fullShape()
	c.Bucket("accepted/" + pc.p.Name + "/" + classHead(pc.class))
	if s, ok := pc.shape["sig"]; ok {
		c.Bucket(fmt.Sprintf("accepted-types/%s/sig%v-crypto%v-%v", pc.p.Kind, s, pc.shape["crypto"], pc.shape["cert"]))
	}
	if !trivialKind(pc.p.Kind) {
		c.Nontrivial([]byte(pc.p.ID()), pc.in)
	}
	if out.SerErr != nil || out.Ser == nil && len(consumed) > 0 {
		c.Violate(pc.p.Name, "serialise-failed", sh, pc.in, fmt.Sprintf("accepted value does not serialise: %v", out.SerErr))
		return
	}
	if !bytes.Equal(out.Ser, consumed) {
		c.Violate(pc.p.Name, "bytes-differ", sh, pc.in, describeDiff(consumed, out.Ser))
		return
	}
	// read-only accessors in between change nothing: every argument-free exported method of the
	// value (and of the library values those return) is invoked, then the value is serialised again
	if v := reflect.ValueOf(out.Val); out.Val != nil && !trivialKind(pc.p.Kind) && !isBytesType(v) {
		nm := len(lib.Observe(out.Val, lib.ObserveOpts{Depth: 1}))
		after, ok := reserialise(v)
		if ok && !bytes.Equal(after, consumed) {
			c.Violate(pc.p.Name, "serialisation-differs-after-accessors-were-called", sh, pc.in,
				fmt.Sprintf("after %d read-only accessor calls: %s", nm, describeDiff(consumed, after)))
			return
		}
		if ok {
			c.Bucket("reserialised-after-accessor-sweep/" + pc.p.Kind)
		}
	}
	// serialising again gives the same bytes, also after the caller has overwritten the first
	// serialisation it was handed (a serialiser must not hand out its own storage)
	// (types that *are* their bytes — Integer, I2PString — legitimately share that storage)
	// (array types - Lease, Lease2, Hash - are values: their serialiser works on a copy, so they are
	// included; only slice types are the bytes they return)
	if v := reflect.ValueOf(out.Val); out.Val != nil && len(out.Ser) > 0 && !isSliceType(v) {
		for i := range out.Ser {
			out.Ser[i] ^= 0xA5
		}
		again, ok := reserialise(v)
		again = append([]byte{}, again...)
		for i := range out.Ser {
			out.Ser[i] ^= 0xA5
		}
		if ok && !bytes.Equal(again, consumed) {
			c.Violate(pc.p.Name, "second-serialisation-differs-after-first-was-overwritten", sh, pc.in, describeDiff(consumed, again))
			return
		}
		if ok {
			c.Bucket("reserialised-after-overwrite/" + pc.p.Kind)
		}
	}
	// the serialisation handed out stays what it was while another value of the same kind is
	// parsed and serialised (a serialiser must not hand out storage it reuses for the next call)
	if !trivialKind(pc.p.Kind) && len(out.Ser) > 0 {
		h := sha256.Sum256(pc.in)
		other := gen.WellFormed(pc.p.Kind, pc.p.Arg, core.NewRand(c.Seed, "c01-companion", hex.EncodeToString(h[:8])))
		out2, p2, _, _ := callParser(c, pc.p, other.Bytes)
		if !p2 && out2.Accepted {
			if v2 := reflect.ValueOf(out2.Val); out2.Val != nil && !isBytesType(v2) {
				reserialise(v2)
			}
			if !bytes.Equal(out.Ser, consumed) {
				c.Violate(pc.p.Name, "earlier-serialisation-changed-by-later-call", sh, pc.in, "after another value was parsed and serialised: "+describeDiff(consumed, out.Ser))
				return
			}
			c.Bucket("serialisation-retained-across-later-calls/" + pc.p.Kind)
			// ... and the caller edits that OTHER value through everything its public surface lets it
			// write (exported fields, the slices and pointers found there): the first value is a
			// value of its own and still serialises to the bytes it was read from
			if v := reflect.ValueOf(out.Val); out.Val != nil && out2.Val != nil && !isBytesType(v) && reflect.ValueOf(out2.Val).Kind() == reflect.Ptr {
				if n := lib.ScribbleExported(out2.Val) + lib.ScribbleViaAccessors(out2.Val); n > 0 {
					if after, ok := reserialise(v); ok && !bytes.Equal(after, consumed) {
						c.Violate(pc.p.Name, "serialisation-changed-when-another-value-was-edited", sh, pc.in,
							fmt.Sprintf("after %d bytes of a second parsed value were changed through its exported fields and what its accessors hand out: %s", n, describeDiff(consumed, after)))
						return
					}
					// ... and so does a fresh parse of the same input: what the holder of one value writes
					// into it is not what later parses are built from
					if out3, p3, _, _ := callParser(c, pc.p, pc.in); !p3 && (!out3.Accepted || !bytes.Equal(out3.Ser, consumed) || len(out3.Rem) != len(out.Rem)) {
						c.Violate(pc.p.Name, "parse-differs-after-another-value-was-edited", sh, pc.in,
							fmt.Sprintf("the same input parsed again after %d bytes of another parsed value were changed through its public surface: accepted=%v, %s", n, out3.Accepted, describeDiff(consumed, out3.Ser)))
						return
					}
					// ... the same with the other value being a second parse of these very bytes (same kind,
					// same shape: what two values of one shape might share, they share)
					if out4, p4, _, _ := callParser(c, pc.p, append([]byte{}, pc.in...)); !p4 && out4.Accepted && out4.Val != nil && reflect.ValueOf(out4.Val).Kind() == reflect.Ptr {
						n4 := 0
						func() {
							defer func() { _ = recover() }()
							n4 = lib.ScribbleExported(out4.Val) + lib.ScribbleViaAccessors(out4.Val)
						}()
						if after, ok := reserialise(v); n4 > 0 && ok && !bytes.Equal(after, consumed) {
							c.Violate(pc.p.Name, "serialisation-changed-when-another-value-was-edited", sh, pc.in,
								fmt.Sprintf("after %d bytes of a second value parsed from the same input were changed through its public surface: %s", n4, describeDiff(consumed, after)))
							return
						}
						if out5, p5, _, _ := callParser(c, pc.p, pc.in); n4 > 0 && !p5 && (!out5.Accepted || !bytes.Equal(out5.Ser, consumed)) {
							c.Violate(pc.p.Name, "parse-differs-after-another-value-was-edited", sh, pc.in,
								fmt.Sprintf("the same input parsed again after a value parsed from it had been edited: accepted=%v, %s", out5.Accepted, describeDiff(consumed, out5.Ser)))
							return
						}
					}
					c.Bucket("independent-of-edits-to-another-value/" + pc.p.Kind)
				}
			}
		}
	}
	if pc.class != "wellformed" {
		c.Bucket("accepted-noncanonical-roundtrip-ok/" + pc.p.Kind)
	}
	c.Sample(gen.Shape{"op": pc.p.ID(), "class": pc.class, "consumed": len(consumed), "input_head": hex.EncodeToString(head(pc.in, 24))})
}

// isBytesType: the value is a byte slice / array type (or a pointer to one).
func isBytesType(v reflect.Value) bool {
	t := v.Type()
	for t.Kind() == reflect.Ptr {
		t = t.Elem()
	}
	return t.Kind() == reflect.Slice || t.Kind() == reflect.Array
}

// isSliceType: the value is a byte-slice type (or a pointer to one) - it IS the bytes it returns.
func isSliceType(v reflect.Value) bool {
	t := v.Type()
	for t.Kind() == reflect.Ptr {
		t = t.Elem()
	}
	return t.Kind() == reflect.Slice
}

// reserialise calls the value's serialiser again by reflection: Bytes() ([]byte) or
// Bytes() ([]byte, error) or Data() []byte (mappings). ok=false when the value has none.
func reserialise(v reflect.Value) (b []byte, ok bool) {
	defer func() {
		if recover() != nil {
			b, ok = nil, false
		}
	}()
	for _, name := range []string{"Bytes", "Data"} {
		m := v.MethodByName(name)
		if !m.IsValid() || m.Type().NumIn() != 0 || m.Type().NumOut() < 1 {
			continue
		}
		res := m.Call(nil)
		r0 := res[0]
		if r0.Kind() == reflect.Array && r0.Type().Elem().Kind() == reflect.Uint8 {
			out := make([]byte, r0.Len())
			reflect.Copy(reflect.ValueOf(out), r0)
			return out, true
		}
		if r0.Kind() != reflect.Slice || r0.Type().Elem().Kind() != reflect.Uint8 {
			continue
		}
		if len(res) > 1 && !res[1].IsNil() {
			return nil, false
		}
		return r0.Bytes(), true
	}
	return nil, false
}

func classHead(s string) string {
	for i := 0; i < len(s); i++ {
		if s[i] == ':' {
			return s[:i]
		}
	}
	return s
}

func head(b []byte, n int) []byte {
	if len(b) > n {
		return b[:n]
	}
	return b
}

// coverage floors: every parser must have accepted something.
func c01Floors(c *core.Ctx) {
	if c.Replaying || c.NShards > 1 {
		return // floors are evaluated by the driver over the merged summary
	}
}
