package mon

import (
	"bytes"
	"crypto/sha256"
	"encoding/hex"
	"fmt"
	"io"
	"os"
	"runtime"
	"sync"
	"time"

	"github.com/go-i2p/common/base32"
	"github.com/go-i2p/common/base64"
	"github.com/go-i2p/common/data"
	"github.com/go-i2p/common/destination"
	"github.com/go-i2p/common/encrypted_leaseset"
	"github.com/go-i2p/common/key_certificate"

	"verifharness/core"
	"verifharness/gen"
	"verifharness/lib"
	rm "verifharness/refmodel"
)

// C18, second workload: goroutines that share NO value. Each goroutine parses, constructs, signs,
// serialises and verifies values of its own, all different from the other goroutines' values.
// Whatever they still have in common is package-level state of the library (scratch buffers,
// pools, caches, probe variables): "read-only operations mutate neither the receiver nor
// package-level state", and "every call returns the same result it would return alone". The race
// detector reports the shared state; the result comparison reports its effect.

type indTask struct {
	name string
	run  func() string
}

func dig(parts ...any) string {
	h := sha256.New()
	for _, p := range parts {
		fmt.Fprintf(h, "%v|", p)
	}
	return hex.EncodeToString(h.Sum(nil)[:12])
}

func obsDigest(v any) string {
	if v == nil {
		return "nil"
	}
	return lib.Digest(lib.Observe(v, lib.ObserveOpts{Depth: 1}))
}

// indTasks builds the task list of one goroutine from its own stream. Every task is deterministic
// (Ed25519 signing only; nothing that draws from crypto/rand contributes bytes to a digest).
func indTasks(r *core.Rand) []indTask {
	var ts []indTask
	add := func(name string, f func() string) { ts = append(ts, indTask{name, f}) }
	ps := lib.Parsers()
	// parse + serialise + accessor sweep of well-formed encodings of several kinds
	for k := 0; k < 6; k++ {
		p := ps[r.Pick(len(ps))]
		cs := gen.WellFormed(p.Kind, p.Arg, r)
		in := cs.Bytes
		add("parse/"+p.ID(), func() string {
			o := p.Fn(append([]byte(nil), in...))
			return dig(o.Accepted, o.Ser, len(o.Rem), obsDigest(o.Val))
		})
	}
	// identities through the constructors: permitted and prohibited type pairs side by side
	pairs := [][2]int{{7, 4}, {7, 0}, {0, 0}, {1, 0}, {2, 4}, {11, 4}, {8, 4}, {7, 5}, {7, 6}, {4, 0}, {11, 0}, {7, 7}}
	for k := 0; k < 4; k++ {
		pr := pairs[r.Pick(len(pairs))]
		m, _ := gen.KACOf(r, pr[0], pr[1])
		variant := r.Pick(2)
		add(fmt.Sprintf("NewRouterIdentity/%d-%d", pr[0], pr[1]), func() string {
			ri, ok, err := lib.BuildRouterIdentity(m, variant)
			if !ok || err != nil || ri == nil {
				return dig("refused", ok, err != nil)
			}
			b, e := ri.Bytes()
			return dig("built", b, e, obsDigest(ri))
		})
		add(fmt.Sprintf("NewDestination/%d-%d", pr[0], pr[1]), func() string {
			d, ok, err := lib.BuildDestination(m)
			if !ok || err != nil || d == nil {
				return dig("refused", ok, err != nil)
			}
			b, e := d.Bytes()
			return dig("built", b, e, obsDigest(d))
		})
	}
	// signing constructors (Ed25519: deterministic signatures)
	key, _ := rm.NewSigKey(7, r)
	priv, _ := lib.LibSigningPrivateKey(key)
	{
		l, _ := gen.LeaseSet2(r)
		l.Dest, _ = identWithKey(r, key, []int{0, 4})
		l.Offline = nil
		l.Flags &^= 1
		l.Flags &= 0x0007
		add("NewLeaseSet2", func() string {
			ls, ok, err := lib.BuildLeaseSet2(l, priv)
			if !ok || err != nil || ls == nil {
				return dig("refused", ok, err != nil)
			}
			b, e := ls.Bytes()
			return dig("built", b, e, ls.Verify() == nil, obsDigest(ls))
		})
	}
	{
		ri, _ := gen.RouterInfo(r)
		ri.Ident, _ = identWithKey(r, key, []int{0, 4})
		ri.PeerSize = 0
		ri.Published = uint64(1600000000000 + r.Pick(1<<30))
		add("NewRouterInfo", func() string {
			v, ok, err := lib.BuildRouterInfo(ri, priv, 0)
			if !ok || err != nil || v == nil {
				return dig("refused", ok, err != nil)
			}
			b, e := v.Bytes()
			okv, _ := v.VerifySignature()
			return dig("built", b, e, okv, obsDigest(v))
		})
	}
	{
		e, _ := gen.EncryptedLeaseSet(r)
		e.SigType, e.BlindedKey, e.Offline = 7, key.Pub, nil
		e.Flags &^= 1
		add("NewEncryptedLeaseSet", func() string {
			v, err := lib.BuildEncryptedLeaseSet(e, priv)
			if err != nil || v == nil {
				return dig("refused", err != nil)
			}
			b, e2 := v.Bytes()
			return dig("built", b, e2, v.Verify() == nil, obsDigest(v))
		})
	}
	// reference-signed structures: parse and verify
	for k := 0; k < 3; k++ {
		var sc signedCase
		switch r.Pick(4) {
		case 0:
			sc = signedRouterInfo(r, 7)
		case 1:
			sc = signedLeaseSet(r, 7)
		case 2:
			// (Ed25519-family keys only: the standard library's DSA and ECDSA signers deliberately
			// consume a random amount of their entropy source, which would make the twin differ)
			sc = signedLeaseSet2(r, []int{7, 11}[r.Pick(2)], r.Chance(1, 2), []int{7, 11}[r.Pick(2)])
		default:
			sc = signedMeta(r, 7, r.Chance(1, 2), 11)
		}
		kind := map[string]string{"rinfo": "router_info.ReadRouterInfo", "leaseset": "lease_set.ReadLeaseSet", "leaseset2": "lease_set2.ReadLeaseSet2", "metaleaseset": "meta_leaseset.ReadMetaLeaseSet"}[sc.kind]
		p := lib.ByNameCached(kind)
		in := sc.bytes
		add("verify/"+sc.kind, func() string {
			o := p.Fn(append([]byte(nil), in...))
			return dig(o.Accepted, o.Ser, obsDigest(o.Val))
		})
	}
	// large structures (several KiB): size-dependent code paths
	{
		signedTweak = func(model any) {
			switch m := model.(type) {
			case *rm.EncryptedLeaseSet:
				m.Inner = r.Bytes(2048 + r.Pick(6000))
			case *rm.RouterInfo:
				for len(m.Addrs) < 30 {
					m.Addrs = append(m.Addrs, gen.RouterAddress(r))
				}
			}
		}
		bigE, bigR := signedELS(r, 7, r.Chance(1, 2), 11), signedRouterInfo(r, 7)
		signedTweak = nil
		pe, pr := lib.ByNameCached("encrypted_leaseset.ReadEncryptedLeaseSet"), lib.ByNameCached("router_info.ReadRouterInfo")
		add("verify/large-encleaseset", func() string {
			o := pe.Fn(append([]byte(nil), bigE.bytes...))
			return dig(o.Accepted, o.Ser, obsDigest(o.Val))
		})
		add("verify/large-rinfo", func() string {
			o := pr.Fn(append([]byte(nil), bigR.bytes...))
			return dig(o.Accepted, o.Ser, obsDigest(o.Val))
		})
	}
	// an EncryptedLeaseSet under an ECDSA key: the library cannot build that verifier, so its Verify
	// takes the failure path (deterministically) - next to sets that do verify
	{
		// (the signature bytes are drawn from the stream, not made by the reference's ECDSA signer: the
		// standard library consumes a varying amount of its entropy source, which would make the twin
		// task list drift from the solo one - see DESIGN 7.1)
		em, _ := gen.EncryptedLeaseSet(r)
		st := []int{1, 2}[r.Pick(2)]
		pl, _ := rm.SigPubLen(st)
		sl, _ := rm.SigLen(st)
		em.SigType, em.BlindedKey, em.Offline, em.Flags, em.Sig = uint16(st), r.Bytes(pl), nil, em.Flags&2, r.Bytes(sl)
		enc := em.Encode()
		p := lib.ByNameCached("encrypted_leaseset.ReadEncryptedLeaseSet")
		add("verify/encleaseset-ecdsa", func() string {
			o := p.Fn(append([]byte(nil), enc...))
			return dig(o.Accepted, o.Ser, obsDigest(o.Val))
		})
	}
	// a stream that fails half way while being hashed, then plain data hashed: the second hash is
	// that of its own input (state a failed call leaves behind belongs to nobody)
	{
		in := r.Bytes(40 + r.Pick(400))
		cut := r.Pick(len(in))
		add("hash-after-failed-stream", func() string {
			_, ferr := data.HashReader(io.MultiReader(bytes.NewReader(in[:cut]), failingReader{}))
			h := data.HashData(in)
			h2, err := data.HashReader(bytes.NewReader(in))
			return dig(ferr != nil, h[:], h2[:], err != nil)
		})
	}
	// near-collisions of the task above: the same signed content with a damaged signature, and cut
	// inside the signature (whatever a successful verification leaves behind must not match these)
	for k := 0; k < 2; k++ {
		var sc signedCase
		switch r.Pick(5) {
		case 0:
			sc = signedLeaseSet2(r, 7, r.Chance(1, 2), 11)
		case 1:
			sc = signedMeta(r, 11, r.Chance(1, 2), 7)
		case 2:
			sc = signedLeaseSet(r, []int{7, 11}[r.Pick(2)])
		case 3:
			sc = signedELS(r, []int{7, 11}[r.Pick(2)], r.Chance(1, 2), 7)
		default:
			sc = signedRouterInfo(r, 7)
		}
		kind := map[string]string{"rinfo": "router_info.ReadRouterInfo", "leaseset2": "lease_set2.ReadLeaseSet2", "metaleaseset": "meta_leaseset.ReadMetaLeaseSet",
			"leaseset": "lease_set.ReadLeaseSet", "encleaseset": "encrypted_leaseset.ReadEncryptedLeaseSet"}[sc.kind]
		p := lib.ByNameCached(kind)
		intact := sc.bytes
		damaged := append([]byte(nil), intact...)
		damaged[len(damaged)-1-r.Pick(60)] ^= byte(1 + r.Pick(255))
		cut := intact[:len(intact)-1-r.Pick(60)]
		variants := []struct {
			name string
			in   []byte
		}{{"intact", intact}, {"damaged-signature", damaged}, {"cut-in-signature", cut}}
		// in any order: what persists after the first pass (a cache that only grows) is invisible to
		// the later passes unless a near-collision ran BEFORE the intact structure in the first one
		r.Shuffle(len(variants), func(a, b int) { variants[a], variants[b] = variants[b], variants[a] })
		for _, v := range variants {
			in := v.in
			add("verify/"+sc.kind+"/"+v.name, func() string {
				o := p.Fn(append([]byte(nil), in...))
				return dig(o.Accepted, o.Ser, obsDigest(o.Val))
			})
		}
	}
	// size lookups whose arguments collide under a packed key such as sig<<8|crypto
	{
		a, b := r.Pick(12), r.Pick(8)
		add("size-lookups", func() string {
			out := ""
			for _, pr := range [][2]int{{a, b}, {a - 1, b + 256}, {a, b + 65536}, {a + 256, b}, {b, a}} {
				x, err := key_certificate.GetKeySizes(pr[0], pr[1])
				out += fmt.Sprint(x, err != nil, "|")
			}
			return dig(out)
		})
	}
	// blinding: same destination and day, two secrets held in the same buffer one after the other
	{
		bk, _ := rm.NewSigKey(7, r)
		m, _ := gen.KACOf(r, 7, 4)
		copy(m.Block[384-32:], bk.Pub)
		enc := m.Encode()
		s1, s2 := r.Bytes(32), r.Bytes(32)
		day := time.Unix(int64(1600000000+r.Pick(100000000)), 0)
		add("blinding", func() string {
			d, _, err := destination.ReadDestination(append([]byte(nil), enc...))
			if err != nil {
				return dig("no-destination")
			}
			buf := append([]byte(nil), s1...)
			b1, e1 := encrypted_leaseset.CreateBlindedDestination(d, buf, day)
			copy(buf, s2)
			b2, e2 := encrypted_leaseset.CreateBlindedDestination(d, buf, day)
			x1, _ := b1.Bytes()
			x2, _ := b2.Bytes()
			return dig(x1, e1 != nil, x2, e2 != nil)
		})
	}
	// mappings, strings, integers, dates, base32/64
	{
		g := lib.MappingToGo(gen.Mapping(r, 10))
		add("GoMapToMapping", func() string {
			m, err := data.GoMapToMapping(g)
			if err != nil || m == nil {
				return dig("refused", err != nil)
			}
			return dig(m.Data())
		})
		raw := r.Bytes(1 + r.Pick(300))
		add("base32+base64", func() string {
			s32, s64 := base32.EncodeToString(raw), base64.EncodeToString(raw)
			d32, e1 := base32.DecodeString(s32)
			d64, e2 := base64.DecodeString(s64)
			np := base32.EncodeToStringNoPadding(raw)
			dnp, e3 := base32.DecodeStringNoPadding(np)
			return dig(s32, s64, d32, e1, d64, e2, np, dnp, e3)
		})
		v, n := int(r.Uint64()>>(8*uint(1+r.Pick(7)))), 1+r.Pick(8)
		ms := int64(r.Uint64() >> 1)
		str := string(r.Bytes(r.Pick(256)))
		add("primitives", func() string {
			b, e1 := data.EncodeIntN(v, n)
			i, e2 := data.NewIntegerFromInt(v, n)
			var ib []byte
			if i != nil {
				ib = i.Bytes()
			}
			d, e3 := data.NewDateFromMillis(ms)
			var db []byte
			if d != nil {
				db = d.Bytes()
			}
			s, e4 := data.NewI2PString(str)
			return dig(b, e1, ib, e2, db, e3, []byte(s), e4)
		})
	}
	return ts
}

func c18Independent(c *core.Ctx) {
	gcounts := []int{2, 8, 16}
	procs := []int{4, 16}
	var rounds, calls, overlapping, historyRuns int64
	c.Job("independent", c.N(6, 60)*len(gcounts)*len(procs), func(i int, r *core.Rand) {
		G := gcounts[i%len(gcounts)]
		P := procs[(i/len(gcounts))%len(procs)]
		old := runtime.GOMAXPROCS(P)
		defer runtime.GOMAXPROCS(old)
		c.Eval(1)
		// two identical sets of tasks per goroutine, built from the same stream: one produces the
		// solo baseline, the untouched twin runs concurrently (first use happens under concurrency)
		solo := make([][]indTask, G)
		twin := make([][]indTask, G)
		base := make([][]string, G)
		if p, _, _ := c.Call("c18/independent/baseline", []byte(fmt.Sprint(i)), func() {
			for g := 0; g < G; g++ {
				solo[g] = indTasks(core.NewRand(c.Seed, "c18ind", i, g))
				twin[g] = indTasks(core.NewRand(c.Seed, "c18ind", i, g))
				for _, t := range solo[g] {
					base[g] = append(base[g], t.run())
				}
			}
		}); p {
			return
		}
		// History independence, still on one goroutine: every task is a pure function of its own
		// inputs, so it returns the same digest when the whole list is run again in the same order,
		// in reverse order, and in a shuffled order. A result that depends on what ran before is
		// package-level state written by an operation (a cache keyed by too little, a pooled buffer).
		// Tasks that fail this are also excluded from the concurrent comparison below.
		stable := make([][]bool, G)
		for g := 0; g < G; g++ {
			stable[g] = make([]bool, len(solo[g]))
			for k := range stable[g] {
				stable[g][k] = true
			}
		}
		type ref struct{ g, k int }
		var all []ref
		for g := 0; g < G; g++ {
			for k := range solo[g] {
				all = append(all, ref{g, k})
			}
		}
		hr := core.NewRand(c.Seed, "c18ind-history", i)
		for pass := 0; pass < 3; pass++ {
			order := make([]ref, len(all))
			copy(order, all)
			switch pass {
			case 1:
				for a, b := 0, len(order)-1; a < b; a, b = a+1, b-1 {
					order[a], order[b] = order[b], order[a]
				}
			case 2:
				hr.Shuffle(len(order), func(a, b int) { order[a], order[b] = order[b], order[a] })
			}
			var bad []string
			c.Call("c18/independent/history-pass", []byte(fmt.Sprint(i, pass)), func() {
				for _, x := range order {
					if got := solo[x.g][x.k].run(); got != base[x.g][x.k] {
						if stable[x.g][x.k] {
							bad = append(bad, solo[x.g][x.k].name)
						}
						stable[x.g][x.k] = false
					}
				}
			})
			historyRuns += int64(len(order))
			if len(bad) > 0 {
				c.Violate("history/"+bad[0], "result-depends-on-call-history", gen.Shape{"class": "independent-values", "pass": []string{"same order again", "reverse order", "shuffled order"}[pass]}, nil,
					fmt.Sprintf("on a single goroutine, %d task(s) returned something else than in the first pass when the list was run in %s: %v", len(bad), []string{"the same order again", "reverse order", "a shuffled order"}[pass], head2(bad, 6)))
			}
		}
		type res struct {
			diffs []string
			pv    any
			n     int64
		}
		results := make([]res, G)
		var wg sync.WaitGroup
		start := make(chan struct{})
		var inFlight, maxFlight int64
		var mu sync.Mutex
		for g := 0; g < G; g++ {
			g := g
			gr := core.NewRand(c.Seed, "c18ind-sched", i, g)
			wg.Add(1)
			go func() {
				defer wg.Done()
				defer func() {
					if pv := recover(); pv != nil {
						results[g].pv = pv
					}
				}()
				<-start
				mu.Lock()
				inFlight++
				if inFlight > maxFlight {
					maxFlight = inFlight
				}
				mu.Unlock()
				for rep := 0; rep < 3; rep++ {
					order := gr.Perm(len(twin[g]))
					for _, k := range order {
						switch gr.Pick(5) {
						case 0:
							runtime.Gosched()
						case 1:
							time.Sleep(time.Duration(gr.Pick(30)) * time.Microsecond)
						}
						got := twin[g][k].run()
						results[g].n++
						if stable[g][k] && got != base[g][k] && os.Getenv("VERIF_C18_DEBUG") != "" {
							fmt.Fprintf(os.Stderr, "DIFF g=%d k=%d %s twin=%s base=%s solo-again=%s\n", g, k, twin[g][k].name, got, base[g][k], solo[g][k].run())
						}
						if stable[g][k] && got != base[g][k] && len(results[g].diffs) < 4 {
							results[g].diffs = append(results[g].diffs, twin[g][k].name)
						}
					}
				}
				mu.Lock()
				inFlight--
				mu.Unlock()
			}()
		}
		close(start)
		wg.Wait()
		rounds++
		if maxFlight > 1 {
			overlapping++
		}
		sh := gen.Shape{"class": "independent-values", "goroutines": G, "gomaxprocs": P}
		for g := range results {
			calls += results[g].n
			if results[g].pv != nil {
				c.Violate("independent-values", "panic-under-concurrency", sh, nil, fmt.Sprint(results[g].pv))
			}
			if len(results[g].diffs) > 0 {
				c.Violate("independent-values/"+results[g].diffs[0], "concurrent-result-differs-from-sequential", sh, nil,
					fmt.Sprintf("goroutine %d working on values of its own got other results than alone from: %v", g, results[g].diffs))
			}
		}
		unstable := 0
		for g := range stable {
			for _, s := range stable[g] {
				if !s {
					unstable++
				}
			}
		}
		if unstable > 0 {
			c.BucketN("independent/tasks-not-deterministic-alone(not judged)", int64(unstable))
		}
		c.Nontrivial([]byte("c18ind"), []byte(fmt.Sprint(i)))
		if i == 0 {
			var names []string
			for _, t := range solo[0] {
				names = append(names, t.name)
			}
			c.Sample(gen.Shape{"workload": "independent values", "goroutines": G, "tasks_of_goroutine_0": names})
		}
	})
	c.SetExtra("independent_rounds", rounds)
	c.SetExtra("independent_rounds_with_overlap", overlapping)
	c.SetExtra("independent_calls", calls)
	c.SetExtra("history_pass_task_runs", historyRuns)
}
