package mon

import (
	"bytes"
	stded25519 "crypto/ed25519"
	"fmt"

	"github.com/go-i2p/common/certificate"
	"github.com/go-i2p/common/encrypted_leaseset"
	"github.com/go-i2p/common/key_certificate"
	"github.com/go-i2p/common/keys_and_cert"
	"github.com/go-i2p/common/lease_set2"
	"github.com/go-i2p/common/offline_signature"
	"github.com/go-i2p/common/signature"

	"verifharness/core"
	"verifharness/gen"
	"verifharness/lib"
	rm "verifharness/refmodel"
)

// C10 — key/signature size tables agree everywhere and fix the 384-byte key block.
func init() { register("C10", runC10) }

func runC10(c *core.Ctx) {
	buf := make([]byte, 1400)
	offlineDestKey := stded25519.NewKeyFromSeed(make([]byte, 32))
	for i := range buf {
		buf[i] = byte(i*13 + 5)
	}
	disagree := func(site, clause string, code int, detail string) {
		c.Violate(site, clause, gen.Shape{"code": code}, []byte(fmt.Sprint(code)), detail)
	}
	// ---- every signing-type code through every lookup
	c.Job("sigcodes", 65536, func(code int, r *core.Rand) {
		c.SetCase("sigcodes", int64(code))
		info, known := rm.SigTypes[code]
		c.Eval(1)
		c.Nontrivial([]byte("sig"), []byte(fmt.Sprint(code)))
		chk := func(site string, gotKnown bool, gotLen, wantLen int) {
			if gotKnown != known {
				disagree(site, "known-unknown-verdict", code, fmt.Sprintf("specification known=%v, lookup known=%v", known, gotKnown))
			} else if known && gotLen != wantLen {
				disagree(site, "length-differs", code, fmt.Sprintf("specification %d, lookup %d", wantLen, gotLen))
			}
		}
		c.Call("size-lookups(sig)", []byte(fmt.Sprint(code)), func() {
			// key_certificate package-level lookups
			n, err := key_certificate.GetSigningKeySize(code)
			chk("key_certificate.GetSigningKeySize", err == nil, n, info.PubLen)
			n, err = key_certificate.GetSignatureSize(code)
			chk("key_certificate.GetSignatureSize", err == nil, n, info.SigLen)
			ks, err := key_certificate.GetKeySizes(code, 0)
			chk("key_certificate.GetKeySizes.SigningPublicKeySize", err == nil, ks.SigningPublicKeySize, info.PubLen)
			chk("key_certificate.GetKeySizes.SignatureSize", err == nil, ks.SignatureSize, info.SigLen)
			e, ok := key_certificate.SigningKeySizes[code]
			chk("key_certificate.SigningKeySizes.SigningPublicKeySize", ok, e.SigningPublicKeySize, info.PubLen)
			chk("key_certificate.SigningKeySizes.SignatureSize", ok, e.SignatureSize, info.SigLen)
			n2, ok := key_certificate.SignaturePublicKeySizes[uint16(code)]
			chk("key_certificate.SignaturePublicKeySizes", ok, n2, info.PubLen)
			// signature package
			n, err = signature.SignatureSize(code)
			chk("signature.SignatureSize", err == nil, n, info.SigLen)
			s, rem, err := signature.ReadSignature(buf, code)
			chk("signature.ReadSignature", err == nil, s.Len(), info.SigLen)
			if err == nil && len(rem) != len(buf)-info.SigLen {
				disagree("signature.ReadSignature", "length-differs", code, fmt.Sprintf("consumed %d, specification %d", len(buf)-len(rem), info.SigLen))
			}
			if known {
				if _, err := signature.NewSignatureFromBytes(buf[:info.SigLen], code); err != nil {
					disagree("signature.NewSignatureFromBytes", "known-unknown-verdict", code, "rejects a signature of the specified length")
				}
				if _, err := signature.NewSignatureFromBytes(buf[:info.SigLen+1], code); err == nil {
					disagree("signature.NewSignatureFromBytes", "length-differs", code, "accepts a signature one byte longer than specified")
				}
			}
			// offline signature package
			n = offline_signature.SigningPublicKeySize(uint16(code))
			chk("offline_signature.SigningPublicKeySize", n != 0, n, info.PubLen)
			n = offline_signature.SignatureSize(uint16(code))
			chk("offline_signature.SignatureSize", n != 0, n, info.SigLen)
			// offline signature constructor: the key and the signature have exactly the table's lengths
			if known && info.PubLen+1 < len(buf) && info.SigLen+1 < len(buf) {
				if _, err := offline_signature.NewOfflineSignature(1, uint16(code), buf[:info.PubLen], buf[700:764], 7); err != nil {
					disagree("offline_signature.NewOfflineSignature", "known-unknown-verdict", code, "rejects a transient key of the specified length: "+firstLineOf(err.Error()))
				}
				for _, d := range []int{1, -1} {
					if _, err := offline_signature.NewOfflineSignature(1, uint16(code), buf[:info.PubLen+d], buf[700:764], 7); err == nil {
						disagree("offline_signature.NewOfflineSignature", "length-differs", code, fmt.Sprintf("accepts a transient key of %d bytes (specified: %d)", info.PubLen+d, info.PubLen))
					}
					if _, err := offline_signature.NewOfflineSignature(1, 7, buf[:32], buf[100:100+info.SigLen+d], uint16(code)); err == nil {
						disagree("offline_signature.NewOfflineSignature", "length-differs", code, fmt.Sprintf("accepts a signature of %d bytes for destination type %d (specified: %d)", info.SigLen+d, code, info.SigLen))
					}
				}
			}
			// the signing constructor of the offline block: a transient key of the table's length is
			// accepted under a destination key the library signs with (Ed25519, RedDSA), one byte more or
			// less is not
			if known && info.PubLen+1 < len(buf) {
				for _, dt := range []uint16{7, 11} {
					if _, err := offline_signature.CreateOfflineSignature(1, uint16(code), buf[:info.PubLen], offlineDestKey, dt); err != nil {
						disagree("offline_signature.CreateOfflineSignature", "known-unknown-verdict", code, fmt.Sprintf("rejects a transient key of the specified length under destination type %d: %s", dt, firstLineOf(err.Error())))
					}
					for _, d := range []int{1, -1} {
						if _, err := offline_signature.CreateOfflineSignature(1, uint16(code), buf[:info.PubLen+d], offlineDestKey, dt); err == nil {
							disagree("offline_signature.CreateOfflineSignature", "length-differs", code, fmt.Sprintf("accepts a transient key of %d bytes (specified: %d)", info.PubLen+d, info.PubLen))
						}
					}
				}
			} else if !known {
				if _, err := offline_signature.CreateOfflineSignature(1, uint16(code), buf[:32], offlineDestKey, 7); err == nil {
					disagree("offline_signature.CreateOfflineSignature", "known-unknown-verdict", code, "accepts a transient key of an unknown type")
				}
			}
			// offline signature parser: transient type = code, destination type = code
			o := rm.Offline{Expires: 1, SigType: uint16(code), TransientKey: buf[:info.PubLen], Sig: buf[100:164]}
			enc := append(o.Encode(), buf[:600]...)
			po, rem2, err := offline_signature.ReadOfflineSignature(enc, 7)
			chk("offline_signature.ReadOfflineSignature(transient)", err == nil, len(po.TransientPublicKey()), info.PubLen)
			if err == nil && len(enc)-len(rem2) != 6+info.PubLen+64 {
				disagree("offline_signature.ReadOfflineSignature(transient)", "length-differs", code, "consumed extent differs from 6 + key + 64")
			}
			o2 := rm.Offline{Expires: 1, SigType: 7, TransientKey: buf[:32], Sig: nil}
			enc2 := append(o2.Encode(), buf...)
			po2, _, err := offline_signature.ReadOfflineSignature(enc2, uint16(code))
			chk("offline_signature.ReadOfflineSignature(destination)", err == nil, len(po2.Signature()), info.SigLen)
			// key certificate parsed from bytes declaring the code
			kc, _, err := key_certificate.NewKeyCertificate(rm.KeyCert(code, 4, nil).Encode())
			if err != nil || kc == nil {
				disagree("key_certificate.NewKeyCertificate", "rejects-key-certificate", code, fmt.Sprint(err))
			} else {
				chk("key_certificate.KeyCertificate.SigningPublicKeySize", kc.SigningPublicKeySize() != 0, kc.SigningPublicKeySize(), info.PubLen)
				chk("key_certificate.KeyCertificate.SignatureSize", kc.SignatureSize() != 0, kc.SignatureSize(), info.SigLen)
				if kc.SigningPublicKeyType() != code {
					disagree("key_certificate.KeyCertificate.SigningPublicKeyType", "type-differs", code, fmt.Sprint(kc.SigningPublicKeyType()))
				}
			}
			// the verdict on a signing code does not depend on the crypto code next to it (known,
			// unassigned, experimental)
			for _, other := range []int{0, 8, 255, 65280, 65535} {
				if kc2, _, err := key_certificate.NewKeyCertificate(rm.KeyCert(code, other, nil).Encode()); err == nil && kc2 != nil {
					site := fmt.Sprintf("key_certificate.KeyCertificate(crypto code %d next to it)", other)
					chk(site+".SigningPublicKeySize", kc2.SigningPublicKeySize() != 0, kc2.SigningPublicKeySize(), info.PubLen)
					chk(site+".SignatureSize", kc2.SignatureSize() != 0, kc2.SignatureSize(), info.SigLen)
				}
			}
			// the serialised size of an offline block follows from the two types: transient key length
			// and DESTINATION signature length
			for _, dt := range []int{7, 0, 2} {
				dsl, _ := rm.SigLen(dt)
				o3 := rm.Offline{Expires: 1, SigType: uint16(code), TransientKey: buf[:info.PubLen], Sig: buf[300 : 300+dsl]}
				if known {
					if po3, _, err := offline_signature.ReadOfflineSignature(o3.Encode(), uint16(dt)); err == nil {
						if po3.Len() != 6+info.PubLen+dsl || len(po3.Bytes()) != 6+info.PubLen+dsl || !bytes.Equal(po3.Bytes(), o3.Encode()) {
							disagree("offline_signature.OfflineSignature.Len", "length-differs", code, fmt.Sprintf("transient type %d under destination type %d: Len()=%d, Bytes() %d bytes, specification %d", code, dt, po3.Len(), len(po3.Bytes()), 6+info.PubLen+dsl))
						}
					}
				}
			}
			// encrypted leaseset: sig-type acceptance and blinded key length
			els := rm.EncryptedLeaseSet{SigType: uint16(code), BlindedKey: buf[:info.PubLen], Published: 1, Expires: 1, Inner: buf[:80], Sig: buf[200 : 200+info.SigLen]}
			pe, rem3, err := encrypted_leaseset.ReadEncryptedLeaseSet(els.Encode())
			chk("encrypted_leaseset.ReadEncryptedLeaseSet(sigtype)", err == nil, len(pe.BlindedPublicKey()), info.PubLen)
			if err == nil && len(rem3) != 0 {
				disagree("encrypted_leaseset.ReadEncryptedLeaseSet(sigtype)", "length-differs", code, "encoding with the specified lengths not consumed exactly")
			}
			if known {
				_, err := encrypted_leaseset.NewEncryptedLeaseSet(uint16(code), buf[:info.PubLen], 1, 1, 0, nil, buf[:80], make([]byte, 64))
				// signing uses Ed25519 (64 bytes): only types with 64-byte signatures can succeed
				if info.SigLen == 64 && err != nil {
					disagree("encrypted_leaseset.NewEncryptedLeaseSet", "known-unknown-verdict", code, firstLineOf(err.Error()))
				}
				if _, err := encrypted_leaseset.NewEncryptedLeaseSet(uint16(code), buf[:info.PubLen+1], 1, 1, 0, nil, buf[:80], make([]byte, 64)); err == nil {
					disagree("encrypted_leaseset.NewEncryptedLeaseSet", "length-differs", code, "accepts a blinded key one byte longer than specified")
				}
			} else if _, err := encrypted_leaseset.NewEncryptedLeaseSet(uint16(code), buf[:32], 1, 1, 0, nil, buf[:80], make([]byte, 64)); err == nil {
				disagree("encrypted_leaseset.NewEncryptedLeaseSet", "known-unknown-verdict", code, "accepts an unknown signing type")
			}
		})
	})
	c.Exhaustive("all 65,536 signing-type codes through 17 size lookups / parsers")

	// ---- every crypto-type code
	c.Job("cryptocodes", 65536, func(code int, r *core.Rand) {
		want, known := rm.CryptoTypes[code]
		c.Eval(1)
		c.Nontrivial([]byte("crypto"), []byte(fmt.Sprint(code)))
		chk := func(site string, gotKnown bool, gotLen int) {
			if gotKnown != known {
				disagree(site, "known-unknown-verdict", code, fmt.Sprintf("specification known=%v, lookup known=%v", known, gotKnown))
			} else if known && gotLen != want {
				disagree(site, "length-differs", code, fmt.Sprintf("specification %d, lookup %d", want, gotLen))
			}
		}
		c.Call("size-lookups(crypto)", []byte(fmt.Sprint(code)), func() {
			n, err := key_certificate.GetCryptoKeySize(code)
			chk("key_certificate.GetCryptoKeySize", err == nil, n)
			ks, err := key_certificate.GetKeySizes(7, code)
			chk("key_certificate.GetKeySizes.CryptoPublicKeySize", err == nil, ks.CryptoPublicKeySize)
			e, ok := key_certificate.CryptoKeySizes[code]
			chk("key_certificate.CryptoKeySizes", ok, e.CryptoPublicKeySize)
			n2, ok := key_certificate.CryptoPublicKeySizes[uint16(code)]
			chk("key_certificate.CryptoPublicKeySizes", ok, n2)
			kc, _, err := key_certificate.NewKeyCertificate(rm.KeyCert(7, code, nil).Encode())
			if err != nil || kc == nil {
				disagree("key_certificate.NewKeyCertificate", "rejects-key-certificate", code, fmt.Sprint(err))
			} else {
				chk("key_certificate.KeyCertificate.CryptoSize", kc.CryptoSize() != 0, kc.CryptoSize())
				n, err := kc.CryptoPublicKeySize()
				chk("key_certificate.KeyCertificate.CryptoPublicKeySize", err == nil, n)
				if kc.PublicKeyType() != code {
					disagree("key_certificate.KeyCertificate.PublicKeyType", "type-differs", code, fmt.Sprint(kc.PublicKeyType()))
				}
			}
			// the verdict on a crypto code does not depend on the signing code next to it
			for _, other := range []int{0, 9, 12, 255, 65280, 65535} {
				if kc2, _, err := key_certificate.NewKeyCertificate(rm.KeyCert(other, code, nil).Encode()); err == nil && kc2 != nil {
					site := fmt.Sprintf("key_certificate.KeyCertificate(signing code %d next to it)", other)
					chk(site+".CryptoSize", kc2.CryptoSize() != 0, kc2.CryptoSize())
					n, err := kc2.CryptoPublicKeySize()
					chk(site+".CryptoPublicKeySize", err == nil, n)
				}
			}
			// LeaseSet2 key-length validation rule: a key of a known type must have the table's
			// length; unknown types are not length-checked
			mk := func(n int) error {
				ek := lease_set2.EncryptionKey{KeyType: uint16(code), KeyLen: uint16(n), KeyData: buf[:n]}
				l, _ := gen.LeaseSet2(r)
				l.Keys = []rm.EncKey{{Type: ek.KeyType, Data: ek.KeyData}}
				l.Offline, l.Flags = nil, 0
				k, _ := gen.KACOf(r, 7, 4)
				l.Dest = k
				l.Sig = buf[:64]
				p, _, err := lease_set2.ReadLeaseSet2(l.Encode())
				if err != nil {
					return fmt.Errorf("parse: %w", err)
				}
				return p.Validate()
			}
			if known {
				if err := mk(want); err != nil {
					disagree("lease_set2.LeaseSet2.Validate(key length)", "length-differs", code, "rejects a key of the specified length: "+firstLineOf(err.Error()))
				}
				if err := mk(want + 1); err == nil {
					disagree("lease_set2.LeaseSet2.Validate(key length)", "length-differs", code, "accepts a key one byte longer than specified")
				}
			} else if err := mk(33); err != nil {
				disagree("lease_set2.LeaseSet2.Validate(key length)", "known-unknown-verdict", code, "applies a length rule to an unknown key type: "+firstLineOf(err.Error()))
			}
			// the same rule where the probed key is not the only one (before / between / after
			// conformant keys), through the validator of a parsed value and through the constructor
			if known {
				l, _ := gen.LeaseSet2(r)
				l.Offline, l.Flags, l.Options = nil, 0, rm.Mapping{}
				l.Dest, _ = gen.KACOf(r, 7, 4)
				l.Sig = buf[:64]
				if len(l.Leases) == 0 {
					l.Leases = []rm.Lease2{gen.Lease2(r)}
				}
				for _, pos := range []int{0, 1, 2} {
					for _, n := range []int{want, want + 1, want - 1} {
						if n < 0 || n > len(buf) {
							continue
						}
						keys := []rm.EncKey{{Type: 4, Data: buf[:32]}, {Type: 4, Data: buf[32:64]}}
						probe := rm.EncKey{Type: uint16(code), Data: buf[:n]}
						keys = append(keys[:pos], append([]rm.EncKey{probe}, keys[pos:]...)...)
						l.Keys = keys
						what := fmt.Sprintf("key %d of 3 with %d bytes (specified: %d)", pos, n, want)
						if p, _, err := lease_set2.ReadLeaseSet2(l.Encode()); err == nil {
							if verr := p.Validate(); (verr == nil) != (n == want) {
								disagree("lease_set2.LeaseSet2.Validate(key length)", "length-differs", code, "validator verdict "+fmt.Sprint(verr == nil)+" for "+what)
							}
						}
						if _, ok, err := lib.BuildLeaseSet2(l, nil); ok && (err == nil) != (n == want) {
							disagree("lease_set2.NewLeaseSet2(key length)", "length-differs", code, "constructor verdict "+fmt.Sprint(err == nil)+" for "+what)
						}
					}
				}
			}
		})
	})
	c.Exhaustive("all 65,536 crypto-type codes through 8 size lookups / validators")

	// ---- layout of the 384-byte block for every supported pair
	n := c.N(1500, 40000)
	c.Job("layout", n, func(i int, r *core.Rand) {
		sig := rm.KACSigTypes[i%len(rm.KACSigTypes)]
		cr := rm.KACCryptoTypes[(i/len(rm.KACSigTypes))%len(rm.KACCryptoTypes)]
		m, sh := gen.KACOf(r, sig, cr)
		enc := m.Encode()
		cpk, _ := rm.CryptoLen(cr)
		spk, _ := rm.SigPubLen(sig)
		c.Eval(1)
		check := func(site string, k *keys_and_cert.KeysAndCert) {
			pk, err1 := k.PublicKey()
			sk, err2 := k.SigningPublicKey()
			if err1 != nil || err2 != nil {
				c.Violate(site, "keys-unavailable", sh, enc, fmt.Sprint(err1, err2))
				return
			}
			if !bytes.Equal(pk.Bytes(), m.Block[:cpk]) {
				c.Violate(site, "crypto-key-not-at-block-start", sh, enc, fmt.Sprintf("crypto key %x.. block start %x..", head(pk.Bytes(), 8), m.Block[:8]))
			}
			if !bytes.Equal(sk.Bytes(), m.Block[384-spk:]) {
				c.Violate(site, "signing-key-not-at-block-end", sh, enc, fmt.Sprintf("signing key %x.. block end %x..", head(sk.Bytes(), 8), m.Block[384-spk:384-spk+8]))
			}
			if !bytes.Equal(k.Padding, m.Block[cpk:384-spk]) {
				c.Violate(site, "padding-not-between-keys", sh, enc, fmt.Sprintf("padding length %d, expected %d", len(k.Padding), 384-spk-cpk))
			}
			if pk.Len() != cpk || len(pk.Bytes()) != cpk || k.KeyCertificate.CryptoSize() != cpk {
				c.Violate(site, "declared-size-differs-from-key-length", sh, enc, fmt.Sprintf("crypto: declared %d, key %d, specification %d", k.KeyCertificate.CryptoSize(), pk.Len(), cpk))
			}
			if sk.Len() != spk || len(sk.Bytes()) != spk || k.KeyCertificate.SigningPublicKeySize() != spk {
				c.Violate(site, "declared-size-differs-from-key-length", sh, enc, fmt.Sprintf("signing: declared %d, key %d, specification %d", k.KeyCertificate.SigningPublicKeySize(), sk.Len(), spk))
			}
			b, err := k.Bytes()
			if err != nil || !bytes.Equal(b, enc) {
				c.Violate(site, "block-not-reproduced", sh, enc, "Bytes() differs from the encoding")
			}
		}
		var k *keys_and_cert.KeysAndCert
		var err error
		panicked, _, _ := c.Call("keys_and_cert.ReadKeysAndCert", enc, func() { k, _, err = keys_and_cert.ReadKeysAndCert(enc) })
		if panicked {
			return
		}
		if err != nil {
			c.Violate("keys_and_cert.ReadKeysAndCert", "supported-pair-rejected", sh, enc, firstLineOf(err.Error()))
			return
		}
		c.Nontrivial([]byte("layout"), enc)
		c.Bucket(fmt.Sprintf("layout/sig%d-crypto%d-%v", sig, cr, sh["cert"]))
		c.Call("layout(parsed)", enc, func() { check("keys_and_cert.ReadKeysAndCert", k) })
		if ck, ok, err := lib.BuildKAC(m); ok && err == nil {
			c.Call("layout(constructed)", enc, func() { check("keys_and_cert.NewKeysAndCert", ck) })
			c.Bucket("layout-constructed")
		}
		// the key decoders given the whole field a key sits in (128 bytes for the signing key, 256 for
		// the crypto key) instead of the exact key: when they return a key at all, it is the key at the
		// position the specification gives it - the END of the signing field, the START of the crypto field
		if kc0, ok, err := lib.BuildKeyCert(rm.KeyCert(sig, cr, nil)); ok && err == nil && kc0 != nil {
			if spk <= 128 {
				field := m.Block[256:384]
				var sk interface{ Bytes() []byte }
				c.Call("key_certificate.KeyCertificate.ConstructSigningPublicKey(field)", field, func() {
					if k, err := kc0.ConstructSigningPublicKey(field); err == nil && k != nil {
						sk = k
					}
				})
				if sk != nil && !bytes.Equal(sk.Bytes(), field[128-spk:]) {
					c.Violate("key_certificate.KeyCertificate.ConstructSigningPublicKey", "signing-key-not-at-block-end", sh, field, fmt.Sprintf("given the 128-byte field it returns %x.., the key is the last %d bytes %x..", head(sk.Bytes(), 8), spk, head(field[128-spk:], 8)))
				}
			}
			if cpk <= 256 {
				field := m.Block[:256]
				var pk interface{ Bytes() []byte }
				c.Call("key_certificate.KeyCertificate.ConstructPublicKey(field)", field, func() {
					if k, err := kc0.ConstructPublicKey(field); err == nil && k != nil {
						pk = k
					}
				})
				if pk != nil && !bytes.Equal(pk.Bytes(), field[:cpk]) {
					c.Violate("key_certificate.KeyCertificate.ConstructPublicKey", "crypto-key-not-at-block-start", sh, field, fmt.Sprintf("given the 256-byte field it returns %x.., the key is the first %d bytes", head(pk.Bytes(), 8), cpk))
				}
			}
		}
		// the certificate of a value that has been used is replaced by one declaring another pair
		// (exported field): every key the value then hands out without error has the length its
		// CURRENT certificate declares, and what it serialises without error is a block of the current
		// types (a verdict remembered from before the replacement is stale)
		if k2, _, err := keys_and_cert.ReadKeysAndCert(enc); err == nil && k2 != nil {
			k2.PublicKey()
			k2.SigningPublicKey()
			k2.Bytes()
			k2.Validate()
			osig := rm.KACSigTypes[(i+1+r.Pick(len(rm.KACSigTypes)-1))%len(rm.KACSigTypes)]
			ocr := rm.KACCryptoTypes[(i/len(rm.KACSigTypes)+1+r.Pick(len(rm.KACCryptoTypes)-1))%len(rm.KACCryptoTypes)]
			if okc, ok, err := lib.BuildKeyCert(rm.KeyCert(osig, ocr, nil)); ok && err == nil && okc != nil {
				ospk, _ := rm.SigPubLen(osig)
				ocpk, _ := rm.CryptoLen(ocr)
				if ospk != spk || ocpk != cpk {
					k2.KeyCertificate = okc
					sh2 := gen.Shape{"sig": sig, "crypto": cr, "replaced_by_sig": osig, "replaced_by_crypto": ocr}
					c.Call("layout(certificate replaced)", enc, func() {
						if sk, err := k2.SigningPublicKey(); err == nil && sk != nil && sk.Len() != k2.KeyCertificate.SigningPublicKeySize() {
							c.Violate("keys_and_cert.KeysAndCert.SigningPublicKey", "declared-size-differs-from-key-length", sh2, enc, fmt.Sprintf("after the certificate was replaced: declared %d, key handed out %d", k2.KeyCertificate.SigningPublicKeySize(), sk.Len()))
						}
						if pk, err := k2.PublicKey(); err == nil && pk != nil && pk.Len() != k2.KeyCertificate.CryptoSize() {
							c.Violate("keys_and_cert.KeysAndCert.PublicKey", "declared-size-differs-from-key-length", sh2, enc, fmt.Sprintf("after the certificate was replaced: declared %d, key handed out %d", k2.KeyCertificate.CryptoSize(), pk.Len()))
						}
						if k2.Validate() == nil {
							c.Violate("keys_and_cert.KeysAndCert.Validate", "declared-size-differs-from-key-length", sh2, enc, "a value whose keys no longer have the sizes its certificate declares validates")
						}
					})
					c.Bucket("layout-after-certificate-replaced")
				}
			}
		}
		// a padding argument of the wrong length (nil, empty, one byte short, one byte long): the
		// constructor refuses, or the padding the value holds is exactly the bytes between the keys
		// of its own serialisation
		if kc, ok, err := lib.BuildKeyCert(m.Cert); ok && err == nil && kc != nil {
			pkk, e1 := lib.CryptoKeyOf(cr, m.CryptoKey())
			spkk, e2 := lib.SigningKeyOf(sig, m.SigningKey())
			good := m.Padding()
			if e1 == nil && e2 == nil {
				for vi, bad := range [][]byte{nil, {}, good[:max(len(good)-1, 0)], append(append([]byte{}, good...), 0x55)} {
					if len(bad) == len(good) {
						continue
					}
					var bk *keys_and_cert.KeysAndCert
					var berr error
					if p, _, _ := c.Call("keys_and_cert.NewKeysAndCert(padding of wrong length)", enc, func() { bk, berr = keys_and_cert.NewKeysAndCert(kc, pkk, bad, spkk) }); p {
						continue
					}
					c.Eval(1)
					if berr != nil || bk == nil {
						c.Bucket("wrong-length-padding-refused")
						continue
					}
					bb, err := bk.Bytes()
					if err != nil || len(bb) < 384 || !bytes.Equal(bk.Padding, bb[cpk:384-spk]) {
						s2 := gen.Shape{"padding_variant": []string{"nil", "empty", "one-short", "one-long"}[vi], "sig": sig, "crypto": cr}
						c.Violate("keys_and_cert.NewKeysAndCert", "padding-not-between-keys", s2, enc, fmt.Sprintf("constructor accepted a %d-byte padding where %d bytes lie between the keys; the value holds %d padding bytes", len(bad), len(good), len(bk.Padding)))
					}
				}
			}
		}
		// the fixed-layout readers: whatever they return without error obeys the same layout
		for _, fr := range []struct {
			site string
			fn   func([]byte) (*keys_and_cert.KeysAndCert, []byte, error)
		}{{"keys_and_cert.ReadKeysAndCertElgAndEd25519", keys_and_cert.ReadKeysAndCertElgAndEd25519}, {"keys_and_cert.ReadKeysAndCertX25519AndEd25519", keys_and_cert.ReadKeysAndCertX25519AndEd25519}} {
			var fk *keys_and_cert.KeysAndCert
			var ferr error
			if p, _, _ := c.Call(fr.site, enc, func() { fk, _, ferr = fr.fn(enc) }); p || ferr != nil || fk == nil || fk.KeyCertificate == nil {
				continue
			}
			c.Call("layout(fixed-layout reader)", enc, func() { check(fr.site, fk) })
			c.Bucket("layout-fixed-reader/" + fr.site)
		}
		c.Sample(gen.Shape{"sig": sig, "crypto": cr, "cert": sh["cert"], "crypto_key_len": cpk, "signing_key_len": spk, "padding_len": 384 - cpk - spk})
	})

	// ---- the lookups are functions of the code alone, also AFTER the code has been used: every
	// code is first pushed through the constructors and parsers that take type codes (in both
	// positions), then looked up again (a constructor that registers what it has seen changes the
	// verdict of later lookups)
	c.Job("lookups-after-use", 65536, func(code int, r *core.Rand) {
		c.Eval(1)
		in := []byte(fmt.Sprint(code))
		c.Call("constructors-with-code", in, func() {
			key_certificate.NewKeyCertificateWithTypes(code, 4)
			key_certificate.NewKeyCertificateWithTypes(7, code)
			key_certificate.NewKeyCertificateWithTypes(code, code)
			if bd := certificate.NewCertificateBuilder(); bd != nil {
				if _, err := bd.WithKeyTypes(code, code); err == nil {
					bd.Build()
				}
			}
			if pl, err := certificate.BuildKeyTypePayload(code, code); err == nil {
				if ct, err := certificate.NewCertificateWithType(certificate.CERT_KEY, pl); err == nil && ct != nil {
					key_certificate.KeyCertificateFromCertificate(ct)
				}
			}
			key_certificate.NewKeyCertificate(rm.KeyCert(code, code, nil).Encode())
			key_certificate.ConstructSigningPublicKeyByType(buf[:128], code)
			signature.NewSignature(buf, code)
			offline_signature.NewOfflineSignature(1, uint16(code), buf[:32], buf[:64], 7)
			offline_signature.NewOfflineSignature(1, 7, buf[:32], buf[:64], uint16(code))
			encrypted_leaseset.NewEncryptedLeaseSet(uint16(code), buf[:32], 1, 1, 0, nil, buf[:80], make([]byte, 64))
			k := rm.KAC{Cert: rm.KeyCert(code, code, nil)}
			copy(k.Block[:], buf)
			keys_and_cert.ReadKeysAndCert(k.Encode())
		})
		si, sKnown := rm.SigTypes[code]
		cl, cKnown := rm.CryptoTypes[code]
		chk := func(site string, gotKnown, wantKnown bool, gotLen, wantLen int) {
			if gotKnown != wantKnown {
				disagree(site, "known-unknown-verdict-after-use", code, fmt.Sprintf("after the code was used by constructors: specification known=%v, lookup known=%v", wantKnown, gotKnown))
			} else if wantKnown && gotLen != wantLen {
				disagree(site, "length-differs-after-use", code, fmt.Sprintf("after the code was used by constructors: specification %d, lookup %d", wantLen, gotLen))
			}
		}
		c.Call("size-lookups(after use)", in, func() {
			n, err := key_certificate.GetSigningKeySize(code)
			chk("key_certificate.GetSigningKeySize", err == nil, sKnown, n, si.PubLen)
			n, err = key_certificate.GetSignatureSize(code)
			chk("key_certificate.GetSignatureSize", err == nil, sKnown, n, si.SigLen)
			n, err = key_certificate.GetCryptoKeySize(code)
			chk("key_certificate.GetCryptoKeySize", err == nil, cKnown, n, cl)
			ks, err := key_certificate.GetKeySizes(code, 0)
			chk("key_certificate.GetKeySizes(sig)", err == nil, sKnown, ks.SigningPublicKeySize, si.PubLen)
			ks, err = key_certificate.GetKeySizes(7, code)
			chk("key_certificate.GetKeySizes(crypto)", err == nil, cKnown, ks.CryptoPublicKeySize, cl)
			e, ok := key_certificate.SigningKeySizes[code]
			chk("key_certificate.SigningKeySizes", ok, sKnown, e.SigningPublicKeySize, si.PubLen)
			e2, ok := key_certificate.CryptoKeySizes[code]
			chk("key_certificate.CryptoKeySizes", ok, cKnown, e2.CryptoPublicKeySize, cl)
			n2, ok := key_certificate.SignaturePublicKeySizes[uint16(code)]
			chk("key_certificate.SignaturePublicKeySizes", ok, sKnown, n2, si.PubLen)
			n3, ok := key_certificate.CryptoPublicKeySizes[uint16(code)]
			chk("key_certificate.CryptoPublicKeySizes", ok, cKnown, n3, cl)
			n, err = signature.SignatureSize(code)
			chk("signature.SignatureSize", err == nil, sKnown, n, si.SigLen)
			n = offline_signature.SigningPublicKeySize(uint16(code))
			chk("offline_signature.SigningPublicKeySize", n != 0, sKnown, n, si.PubLen)
			n = offline_signature.SignatureSize(uint16(code))
			chk("offline_signature.SignatureSize", n != 0, sKnown, n, si.SigLen)
			els := rm.EncryptedLeaseSet{SigType: uint16(code), BlindedKey: buf[:si.PubLen], Published: 1, Expires: 1, Inner: buf[:80], Sig: buf[200 : 200+si.SigLen]}
			_, _, err = encrypted_leaseset.ReadEncryptedLeaseSet(els.Encode())
			chk("encrypted_leaseset.ReadEncryptedLeaseSet(sigtype)", err == nil, sKnown, 0, 0)
		})
	})
	c.Exhaustive("all 65,536 codes: 12 constructors/parsers given the code, then 13 lookups of the same code")
}
