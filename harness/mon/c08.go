package mon

import (
	"fmt"
	"reflect"
	"runtime/debug"
	"strings"
	"syscall"
	"unsafe"

	"verifharness/core"
	"verifharness/gen"
	"verifharness/lib"
	rm "verifharness/refmodel"
)

// C08 — parsed values do not share memory with the caller's buffer.
func init() { register("C08", runC08) }

// c08Case generates an accepted-shape input for an in-scope parser. For LeaseSet2 and
// MetaLeaseSet the out-of-scope parts (options, entry properties) are generated empty so
// that nothing in the value may legitimately refer to the input.
func c08Case(p lib.Parser, r *core.Rand) gen.Case {
	switch p.Kind {
	case "leaseset2":
		l, sh := gen.LeaseSet2(r)
		if r.Chance(1, 6) { // a KEY certificate with a long tail in the identity
			if s, cr, isKey, ok := l.Dest.Cert.KeyTypes(); isKey && ok {
				l.Dest.Cert = rm.KeyCert(s, cr, r.Bytes(gen.SizeLadder[r.Pick(len(gen.SizeLadder)-2)]))
				sh["cert"] = "KEY+extra"
			}
		}
		l.Options = rm.Mapping{Pairs: []rm.Pair{}}
		sh["opts"] = 0
		return gen.Case{Bytes: l.Encode(), Shape: sh}
	case "metaleaseset":
		l, sh := gen.MetaLeaseSet(r)
		l.Options = rm.Mapping{Pairs: []rm.Pair{}}
		for i := range l.Entries {
			l.Entries[i].Props = rm.Mapping{Pairs: []rm.Pair{}}
		}
		sh["opts"], sh["props"] = 0, 0
		return gen.Case{Bytes: l.Encode(), Shape: sh}
	}
	// the variable-length part (certificate payload, inner data) at sizes up to the maximum: code
	// that copies small inputs and keeps large ones
	if r.Chance(1, 6) {
		if cs, ok := gen.Sized(p.Kind, p.Arg, r); ok {
			return cs
		}
	}
	// correctly signed inputs half of the time, so that the verification outcome is among the
	// things that must not change when the buffer is overwritten
	if (p.Kind == "leaseset" || p.Kind == "encleaseset") && r.Chance(1, 2) {
		st := []int{7, 11, 0}[r.Pick(3)]
		var sc signedCase
		if p.Kind == "leaseset" {
			sc = signedLeaseSet(r, st)
		} else {
			sc = signedELS(r, st, r.Chance(1, 3), []int{7, 11, 0}[r.Pick(3)])
		}
		sc.shape["signed"] = true
		return gen.Case{Bytes: sc.bytes, Shape: sc.shape}
	}
	return gen.WellFormed(p.Kind, p.Arg, r)
}

// observeValue: serialisation plus every accessor (one level of nested library values).
// Observations of parts the statement does not list for LeaseSet2 / MetaLeaseSet (options,
// entries and their properties) are dropped.
func observeValue(v any) []lib.Obs {
	all := lib.Observe(v, lib.ObserveOpts{Depth: 1})
	out := all[:0]
	for _, o := range all {
		if strings.Contains(o.Name, "Options") || strings.Contains(o.Name, "Propert") || strings.Contains(o.Name, "Entr") {
			continue
		}
		out = append(out, o)
	}
	return out
}

var scribblePatterns = []string{"zero", "ones", "invert", "random"}

func scribble(buf []byte, pattern string, r *core.Rand) {
	switch pattern {
	case "zero":
		for i := range buf {
			buf[i] = 0
		}
	case "ones":
		for i := range buf {
			buf[i] = 0xff
		}
	case "invert":
		for i := range buf {
			buf[i] = ^buf[i]
		}
	default:
		copy(buf, r.Bytes(len(buf)))
	}
}

// copyDocumented: accessors documented to return copies, by method name per type.
// (the serialisers of the structures the statement lists are included: what Bytes() hands out is a
// serialisation, a buffer of the caller's - on the unchanged tree every one of them is)
var copyDocumented = map[string][]string{
	"Signature":         {"Bytes", "Serialize"},
	"OfflineSignature":  {"TransientPublicKey", "Signature", "Bytes"},
	"EncryptedLeaseSet": {"BlindedPublicKey", "EncryptedInnerData", "Bytes"},
	"Lease":             {"Bytes"},
	"Lease2":            {"Bytes"},
	"LeaseSet":          {"Bytes"},
	"Certificate":       {"Bytes"},
	"KeysAndCert":       {"Bytes"},
	"Destination":       {"Bytes"},
	"RouterIdentity":    {"Bytes"},
}

func runC08(c *core.Ctx) {
	unit := c.N(150, 4000)
	scope := func(p lib.Parser) bool { return p.Scope08 }

	// ---------------- monitor 1: scribble over the input buffer, then over returned copies
	for _, p := range lib.Parsers() {
		if !scope(p) {
			continue
		}
		p := p
		c.Job("scribble/"+p.ID(), unit*weight(p.Kind), func(i int, r *core.Rand) {
			cs := c08Case(p, r)
			buf := append([]byte{}, cs.Bytes...)
			if r.Chance(1, 3) { // trailing bytes the parser leaves as remainder
				buf = append(buf, r.Bytes(1+r.Pick(16))...)
			}
			out, panicked, _, _ := callParser(c, p, buf)
			c.Eval(1)
			if panicked {
				return
			}
			c.OpResult(p.ID(), out.Accepted)
			if !out.Accepted || out.Val == nil {
				return
			}
			sh := gen.Shape{}
			for k, v := range cs.Shape {
				sh[k] = v
			}
			if p.Arg != 0 {
				sh["arg"] = p.Arg
			}
			c.Nontrivial([]byte(p.ID()), cs.Bytes)
			c.Bucket(fmt.Sprintf("parsed/%s/sig%v-crypto%v-%v", p.Kind, cs.Shape["sig"], cs.Shape["crypto"], cs.Shape["cert"]))
			var s0 []lib.Obs
			c.Call(p.ID()+"/observe", buf, func() { s0 = observeValue(out.Val) })
			original := append([]byte{}, buf...)
			for _, pat := range scribblePatterns {
				scribble(buf, pat, r)
				var s1 []lib.Obs
				c.Call(p.ID()+"/observe-after-"+pat, original, func() { s1 = observeValue(out.Val) })
				if d := lib.Diff(s0, s1); len(d) > 0 {
					s2 := gen.Shape{"pattern": pat, "changed": strings.Join(head2(d, 4), ",")}
					for k, v := range sh {
						s2[k] = v
					}
					c.Violate(p.Name, "value-changed-after-input-overwritten", s2, original, fmt.Sprintf("%d observations changed after the input buffer was overwritten (%s): %v", len(d), pat, head2(d, 8)))
					break
				}
			}
			c.BucketN("observations-compared", int64(len(s0)*len(scribblePatterns)))
			// returned copies: overwrite what the accessor handed out, observe again
			c08ReturnedCopies(c, p, out.Val, s0, original, sh)
			if i < 2 {
				c.Sample(gen.Shape{"op": p.ID(), "shape": cs.Shape, "observations": len(s0), "patterns": len(scribblePatterns)})
			}
		})
	}

	// ---------------- monitor 2: guard page — any read of the caller's buffer after parsing faults
	pageSize := syscall.Getpagesize()
	region, err := syscall.Mmap(-1, 0, 64*pageSize, syscall.PROT_READ|syscall.PROT_WRITE, syscall.MAP_ANON|syscall.MAP_PRIVATE)
	if err != nil {
		c.FloorFail("mmap failed: " + err.Error())
		return
	}
	defer syscall.Munmap(region)
	lo := uintptr(unsafe.Pointer(&region[0]))
	hi := lo + uintptr(len(region))
	old := debug.SetPanicOnFault(true)
	defer debug.SetPanicOnFault(old)
	for _, p := range lib.Parsers() {
		if !scope(p) {
			continue
		}
		p := p
		c.Job("guard/"+p.ID(), unit*weight(p.Kind), func(i int, r *core.Rand) {
			cs := c08Case(p, r)
			if len(cs.Bytes)+64 > len(region)-pageSize {
				return
			}
			syscall.Mprotect(region, syscall.PROT_READ|syscall.PROT_WRITE)
			// place the input so that it straddles a page boundary
			off := pageSize - 1 - r.Pick(len(cs.Bytes)+1)
			if off < 0 {
				off = 0
			}
			buf := region[off : off+len(cs.Bytes) : off+len(cs.Bytes)]
			copy(buf, cs.Bytes)
			out, panicked, _, _ := callParser(c, p, buf)
			c.Eval(1)
			if panicked || !out.Accepted || out.Val == nil {
				return
			}
			c.Nontrivial([]byte("guard"), []byte(p.ID()), cs.Bytes)
			c.Bucket("guarded/" + p.Kind)
			syscall.Mprotect(region, syscall.PROT_NONE)
			var obs []lib.Obs
			c.Call(p.ID()+"/observe-guarded", cs.Bytes, func() { obs = observeValue(out.Val) })
			syscall.Mprotect(region, syscall.PROT_READ|syscall.PROT_WRITE)
			for _, o := range obs {
				if o.Panicked && o.PanicAddr >= lo && o.PanicAddr < hi {
					sh := gen.Shape{"accessor": o.Name}
					for k, v := range cs.Shape {
						sh[k] = v
					}
					if p.Arg != 0 {
						sh["arg"] = p.Arg
					}
					c.Violate(p.Name, "reads-caller-buffer-after-parse", sh, cs.Bytes, fmt.Sprintf("%s read the caller's buffer (fault at input offset %d)", o.Name, int(o.PanicAddr-lo)-off))
					break
				}
			}
			c.BucketN("guarded-observations", int64(len(obs)))
		})
	}
}

// c08ReturnedCopies overwrites slices returned by the accessors documented to return copies
// and checks that the value reports the same afterwards.
func c08ReturnedCopies(c *core.Ctx, p lib.Parser, val any, s0 []lib.Obs, input []byte, sh gen.Shape) {
	// fresh baseline: the input buffer has been scribbled over by now, and a value that
	// (wrongly) aliases it has already been reported for that
	base0 := observeValue(val)
	visit := func(v reflect.Value, path string) {
		t := v.Type()
		base := t
		for base.Kind() == reflect.Ptr {
			base = base.Elem()
		}
		for _, name := range copyDocumented[base.Name()] {
			m := v.MethodByName(name)
			if !m.IsValid() || m.Type().NumIn() != 0 {
				continue
			}
			var res []reflect.Value
			func() {
				defer func() { recover() }()
				res = m.Call(nil)
			}()
			if len(res) == 0 || res[0].Kind() != reflect.Slice || res[0].Type().Elem().Kind() != reflect.Uint8 || res[0].Len() == 0 {
				continue
			}
			b := res[0].Bytes()
			for i := range b {
				b[i] ^= 0xA5
			}
			c.Bucket("returned-copy-overwritten/" + base.Name() + "." + name)
			s1 := observeValue(val)
			if d := lib.Diff(base0, s1); len(d) > 0 {
				s2 := gen.Shape{"accessor": path + base.Name() + "." + name}
				for k, vv := range sh {
					s2[k] = vv
				}
				c.Violate(p.Name, "value-changed-after-returned-copy-overwritten", s2, input, fmt.Sprintf("overwriting the slice returned by %s changed %v", name, head2(d, 6)))
				// restore so that later checks start from the original state
				for i := range b {
					b[i] ^= 0xA5
				}
				base0 = observeValue(val)
			}
		}
	}
	rv := reflect.ValueOf(val)
	visit(rv, "")
	// nested library values reachable through argument-free accessors (Signature(), OfflineSignature())
	t := rv.Type()
	for i := 0; i < t.NumMethod(); i++ {
		m := t.Method(i)
		if m.Type.NumIn() != 1 || m.Type.NumOut() < 1 {
			continue
		}
		if m.Name != "Signature" && m.Name != "OfflineSignature" {
			continue
		}
		var res []reflect.Value
		func() {
			defer func() { recover() }()
			res = rv.Method(i).Call(nil)
		}()
		if len(res) == 0 {
			continue
		}
		r0 := res[0]
		switch r0.Kind() {
		case reflect.Ptr:
			if !r0.IsNil() {
				visit(r0, m.Name+"()/")
			}
		case reflect.Struct:
			pv := reflect.New(r0.Type())
			pv.Elem().Set(r0)
			visit(pv, m.Name+"()/")
		}
	}
}
