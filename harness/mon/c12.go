package mon

import (
	"bytes"
	"encoding/binary"
	"fmt"
	"math"
	"math/big"
	"time"

	"github.com/go-i2p/common/data"
	"github.com/go-i2p/common/lease"
	"github.com/go-i2p/common/router_address"

	"verifharness/core"
	"verifharness/gen"
	rm "verifharness/refmodel"
)

// C12 — Integer, Date and String primitives are exact inverses within their domain.
func init() { register("C12", runC12) }

func beBytes(v uint64, n int) []byte {
	b := make([]byte, 8)
	binary.BigEndian.PutUint64(b, v)
	return b[8-n:]
}

func fitsUnsigned(v uint64, n int) bool {
	if n >= 8 {
		return true
	}
	return new(big.Int).SetUint64(v).Cmp(new(big.Int).Lsh(big.NewInt(1), uint(8*n))) < 0
}

func c12Int(c *core.Ctx, value int, size int) {
	c.Eval(1)
	sh := gen.Shape{"size": size}
	in := []byte(fmt.Sprintf("%d/%d", value, size))
	shouldAccept := value >= 0 && size >= 1 && size <= 8 && fitsUnsigned(uint64(value), size)
	var i1 *data.Integer
	var e1, e2 error
	var b2 []byte
	c.Call("data.NewIntegerFromInt", in, func() { i1, e1 = data.NewIntegerFromInt(value, size) })
	c.Call("data.EncodeIntN", in, func() { b2, e2 = data.EncodeIntN(value, size) })
	for _, x := range []struct {
		site string
		err  error
		out  []byte
	}{{"data.NewIntegerFromInt", e1, func() []byte {
		if i1 == nil {
			return nil
		}
		return i1.Bytes()
	}()}, {"data.EncodeIntN", e2, b2}} {
		c.OpResult(x.site, x.err == nil)
		if shouldAccept {
			if x.err != nil {
				c.Violate(x.site, "in-domain-value-rejected", sh, in, fmt.Sprintf("value %d size %d: %v", value, size, firstLineOf(x.err.Error())))
				continue
			}
			if !bytes.Equal(x.out, beBytes(uint64(value), size)) {
				c.Violate(x.site, "not-n-byte-big-endian", sh, in, fmt.Sprintf("value %d size %d encoded as %x", value, size, x.out))
				continue
			}
		} else if x.err == nil {
			c.Violate(x.site, "out-of-domain-accepted", sh, in, fmt.Sprintf("value %d size %d accepted as %x", value, size, x.out))
			continue
		}
	}
	if !shouldAccept || e1 != nil || i1 == nil {
		return
	}
	c.Nontrivial([]byte("int"), in)
	// encodings handed out earlier stay what they were while other values are encoded
	if e2 == nil {
		held1, held2 := i1.Bytes(), b2
		other := int(^uint64(value) & math.MaxInt64)
		for _, sz := range []int{8, size} {
			fit := other
			if sz < 8 {
				fit = other & (1<<(8*uint(sz)) - 1)
			}
			data.EncodeIntN(fit, sz)
			data.NewIntegerFromInt(fit, sz)
		}
		want := beBytes(uint64(value), size)
		if !bytes.Equal(held2, want) {
			c.Violate("data.EncodeIntN", "earlier-result-changed-by-later-call", sh, in, fmt.Sprintf("value %d size %d: the encoding handed out earlier now reads %x", value, size, held2))
		}
		if !bytes.Equal(held1, want) {
			c.Violate("data.NewIntegerFromInt", "earlier-result-changed-by-later-call", sh, in, fmt.Sprintf("value %d size %d: the encoding handed out earlier now reads %x", value, size, held1))
		}
	}
	// the caller OWNS what it was handed: it overwrites the bytes and appends to them; encoding the
	// same value again gives the right bytes all the same (results must not be views of storage the
	// encoder serves later calls from)
	if e2 == nil {
		for _, held := range [][]byte{i1.Bytes(), b2} {
			for j := range held {
				held[j] ^= 0xAA
			}
			_ = append(held, 0xAA, 0xAA, 0xAA, 0xAA)
		}
		want := beBytes(uint64(value), size)
		if again, err := data.EncodeIntN(value, size); err != nil || !bytes.Equal(again, want) {
			c.Violate("data.EncodeIntN", "encoding-differs-after-an-earlier-result-was-overwritten", sh, in, fmt.Sprintf("value %d size %d now encodes as %x (%v)", value, size, again, err))
		}
		again, err := data.NewIntegerFromInt(value, size)
		if err != nil || again == nil || !bytes.Equal(again.Bytes(), want) {
			c.Violate("data.NewIntegerFromInt", "encoding-differs-after-an-earlier-result-was-overwritten", sh, in, fmt.Sprintf("value %d size %d now encodes as %v (%v)", value, size, again, err))
			return
		}
		i1 = again
	}
	enc := i1.Bytes()
	it := data.Integer(enc)
	if it.Int() != value {
		c.Violate("data.Integer.Int", "decode-differs", sh, enc, fmt.Sprintf("encoded %d, Int() = %d", value, it.Int()))
	}
	if v, err := it.IntSafe(); err != nil || v != value {
		c.Violate("data.Integer.IntSafe", "decode-differs", sh, enc, fmt.Sprintf("encoded %d, IntSafe() = %d, %v", value, v, err))
	}
	if v, err := it.UintSafe(); err != nil || v != uint64(value) {
		c.Violate("data.Integer.UintSafe", "decode-differs", sh, enc, fmt.Sprintf("encoded %d, UintSafe() = %d, %v", value, v, err))
	}
	if v, err := data.DecodeIntN(enc); err != nil || v != value {
		c.Violate("data.DecodeIntN", "decode-differs", sh, enc, fmt.Sprintf("encoded %d, DecodeIntN = %d, %v", value, v, err))
	}
	if it.IsZero() != (value == 0) {
		c.Violate("data.Integer.IsZero", "decode-differs", sh, enc, "IsZero disagrees with the value")
	}
}

func runC12(c *core.Ctx) {
	// widths 1 and 2: every value, plus the first values that do not fit
	c.Job("width1", 256+4, func(i int, r *core.Rand) { c12Int(c, i, 1) })
	c.Exhaustive("all values 0..259 at width 1")
	c.Job("width2", 65536+4, func(i int, r *core.Rand) { c12Int(c, i, 2) })
	c.Exhaustive("all values 0..65539 at width 2")
	if c.Thorough() {
		// width 3: every value as well (16.7 million), plus the first values that do not fit
		c.Job("width3", 1<<24+4, func(i int, r *core.Rand) { c12Int(c, i, 3) })
		c.Exhaustive("all values 0..16777219 at width 3")
	}
	// boundaries for every width and invalid sizes
	var bnd []int
	for n := 1; n <= 8; n++ {
		if n < 8 {
			bnd = append(bnd, 1<<(8*n)-1, 1<<(8*n), 1<<(8*n)+1)
		}
	}
	bnd = append(bnd, 0, 1, -1, -2, math.MaxInt64, math.MaxInt64-1, math.MinInt64, 1<<31, 1<<32, 1<<63-1)
	sizes := []int{-1, 0, 1, 2, 3, 4, 5, 6, 7, 8, 9, 10, 255, 256, 1 << 20}
	c.Job("boundaries", len(bnd)*len(sizes), func(i int, r *core.Rand) {
		c12Int(c, bnd[i%len(bnd)], sizes[i/len(bnd)])
	})
	c.Job("random", c.N(20000, 600000), func(i int, r *core.Rand) {
		size := 1 + r.Pick(8)
		v := int(r.Uint64() >> uint(r.Pick(64)))
		if r.Chance(1, 8) {
			v = -v
		}
		c12Int(c, v, size)
	})

	// UintSafe over the full 64-bit range (top bit set)
	c.Job("uintsafe", c.N(5000, 100000), func(i int, r *core.Rand) {
		v := r.Uint64() | 1<<63
		if i < 4 {
			v = []uint64{math.MaxUint64, 1 << 63, 1<<63 + 1, math.MaxUint64 - 1}[i]
		}
		enc := beBytes(v, 8)
		c.Eval(1)
		got, err := data.Integer(enc).UintSafe()
		if err != nil || got != v {
			c.Violate("data.Integer.UintSafe", "decode-differs", gen.Shape{"size": 8, "topbit": true}, enc, fmt.Sprintf("encoded %d, UintSafe() = %d, %v", v, got, err))
		}
		c.Nontrivial([]byte("uintsafe"), enc)
	})

	// fixed-width helpers
	c.Job("fixedwidth", c.N(20000, 400000), func(i int, r *core.Rand) {
		v := r.Uint64()
		switch i {
		case 0:
			v = 0
		case 1:
			v = math.MaxUint64
		case 2:
			v = 1 << 63
		case 3:
			v = 1<<63 - 1
		case 4:
			v = 1 << 31
		case 5:
			v = 1 << 15
		}
		c.Eval(1)
		in := beBytes(v, 8)
		sh := gen.Shape{}
		e16 := data.EncodeUint16(uint16(v))
		e32 := data.EncodeUint32(uint32(v))
		e64 := data.EncodeUint64(v)
		if !bytes.Equal(e16[:], beBytes(uint64(uint16(v)), 2)) || data.DecodeUint16(e16) != uint16(v) {
			c.Violate("data.EncodeUint16", "not-inverse", sh, in, "")
		}
		if !bytes.Equal(e32[:], beBytes(uint64(uint32(v)), 4)) || data.DecodeUint32(e32) != uint32(v) {
			c.Violate("data.EncodeUint32", "not-inverse", sh, in, "")
		}
		if !bytes.Equal(e64[:], beBytes(v, 8)) || data.DecodeUint64(e64) != v {
			c.Violate("data.EncodeUint64", "not-inverse", sh, in, "")
		}
		i16, i32, i64 := data.EncodeInt16(int16(v)), data.EncodeInt32(int32(v)), data.EncodeInt64(int64(v))
		if data.DecodeInt16(i16) != int16(v) || !bytes.Equal(i16[:], e16[:]) {
			c.Violate("data.EncodeInt16", "not-inverse", sh, in, "")
		}
		if data.DecodeInt32(i32) != int32(v) || !bytes.Equal(i32[:], e32[:]) {
			c.Violate("data.EncodeInt32", "not-inverse", sh, in, "")
		}
		if data.DecodeInt64(i64) != int64(v) || !bytes.Equal(i64[:], e64[:]) {
			c.Violate("data.EncodeInt64", "not-inverse", sh, in, "")
		}
		c.Nontrivial([]byte("fixed"), in)
	})

	// dates: every int64 millisecond value >= 0 is stored exactly
	dateVals := []int64{0, 1, 999, 1000, 1001, 1<<31 - 1, 1 << 31, 1<<32 - 1, 1 << 32, 1700000000000, 9223372036854, 9223372036855,
		9223372036854775, 1 << 53, 1<<53 + 1, 1 << 62, 1<<63 - 1, 1<<63 - 2, 1<<63 - 1000, 1<<63 - 1001}
	c.Job("dates", c.N(20000, 400000), func(i int, r *core.Rand) {
		var m int64
		if i < len(dateVals) {
			m = dateVals[i]
		} else {
			m = int64(r.Uint64() >> uint(1+r.Pick(63)))
		}
		c.Eval(1)
		in := beBytes(uint64(m), 8)
		sh := gen.Shape{"beyond_unixnano_range": m > math.MaxInt64/1000000}
		c.Nontrivial([]byte("date"), in)
		d, err := data.NewDateFromMillis(m)
		if err != nil || d == nil {
			c.Violate("data.NewDateFromMillis", "in-domain-value-rejected", sh, in, fmt.Sprintf("%d ms: %v", m, err))
		} else {
			if !bytes.Equal(d.Bytes(), in) {
				c.Violate("data.NewDateFromMillis", "stored-value-differs", sh, in, fmt.Sprintf("%d ms stored as %x", m, d.Bytes()))
			} else if d.Time().UnixMilli() != m {
				c.Violate("data.Date.Time", "time-differs", sh, in, fmt.Sprintf("%d ms, Time().UnixMilli() = %d", m, d.Time().UnixMilli()))
			}
		}
		d2, err := data.DateFromTime(time.UnixMilli(m))
		if err != nil || d2 == nil || !bytes.Equal(d2.Bytes(), in) {
			c.Violate("data.DateFromTime", "stored-value-differs", sh, in, fmt.Sprintf("%d ms stored as %v (%v)", m, d2, err))
		}
		// parsed dates convert exactly
		pd, _, err := data.ReadDate(in)
		if err != nil || pd.Time().UnixMilli() != m || pd.Int() != int(m) {
			c.Violate("data.ReadDate", "time-differs", sh, in, fmt.Sprintf("%d ms read back as %d", m, pd.Time().UnixMilli()))
		}
		// the same value where the library encodes a millisecond date itself: the end date of a Lease
		if l, err := lease.NewLease(data.Hash{}, 1, time.UnixMilli(m)); err != nil || l == nil {
			c.Violate("lease.NewLease", "in-domain-value-rejected", sh, in, fmt.Sprintf("%d ms: %v", m, err))
		} else if ld := l.Date(); !bytes.Equal(ld.Bytes(), in) || ld.Time().UnixMilli() != m {
			c.Violate("lease.NewLease", "stored-value-differs", sh, in, fmt.Sprintf("%d ms stored as %x", m, ld.Bytes()))
		}
		// seconds
		s := m / 1000
		d3, err := data.NewDateFromUnix(s)
		if s <= math.MaxInt64/1000 {
			if err != nil || d3 == nil || !bytes.Equal(d3.Bytes(), beBytes(uint64(s)*1000, 8)) {
				c.Violate("data.NewDateFromUnix", "stored-value-differs", gen.Shape{"beyond_unixnano_range": s*1000 > math.MaxInt64/1000000}, beBytes(uint64(s), 8), fmt.Sprintf("%d s stored as %v (%v)", s, d3, err))
			}
		}
	})
	c.Job("dates-rejected", 6, func(i int, r *core.Rand) {
		c.Eval(1)
		neg := []int64{-1, -1000, math.MinInt64}[i%3]
		if i < 3 {
			if d, err := data.NewDateFromMillis(neg); err == nil {
				c.Violate("data.NewDateFromMillis", "out-of-domain-accepted", nil, nil, fmt.Sprintf("%d accepted as %v", neg, d))
			}
		} else {
			if d, err := data.NewDateFromUnix(neg); err == nil {
				c.Violate("data.NewDateFromUnix", "out-of-domain-accepted", nil, nil, fmt.Sprintf("%d accepted as %v", neg, d))
			}
			if d, err := data.NewDateFromUnix(math.MaxInt64/1000 + 1 + int64(i)); err == nil {
				c.Violate("data.NewDateFromUnix", "out-of-domain-accepted", nil, nil, fmt.Sprintf("seconds beyond the millisecond range accepted as %v", d))
			}
		}
	})

	// second counts anywhere above the millisecond range (their product with 1000 does not fit 63
	// bits: whatever it wraps to, the value is rejected), and the largest that fit
	c.Job("dates-seconds-out-of-range", c.N(4000, 80000), func(i int, r *core.Rand) {
		limit := int64(math.MaxInt64 / 1000)
		var s int64
		switch i % 4 {
		case 0:
			s = limit + 1 + int64(r.Uint64()%uint64(math.MaxInt64-limit))
		case 1:
			s = limit + 1 + int64(r.Uint64()>>uint(1+r.Pick(63)))
			if s < 0 {
				s = math.MaxInt64
			}
		case 2:
			// decimal round numbers: 1e16 .. 9e18
			s = int64(1+r.Pick(9)) * int64(math.Pow10(16+r.Pick(3)))
			if s <= limit {
				s = limit + 1
			}
		default:
			s = limit - int64(r.Pick(1000)) // in range
		}
		c.Eval(1)
		in := beBytes(uint64(s), 8)
		c.Nontrivial([]byte("date-seconds"), in)
		d, err := data.NewDateFromUnix(s)
		c.OpResult("data.NewDateFromUnix", err == nil)
		if s > limit {
			if err == nil {
				c.Violate("data.NewDateFromUnix", "out-of-domain-accepted", gen.Shape{"seconds_beyond_millisecond_range": true}, in, fmt.Sprintf("%d s does not fit a millisecond date; accepted as %v", s, d))
			}
		} else if err != nil || d == nil || !bytes.Equal(d.Bytes(), beBytes(uint64(s)*1000, 8)) {
			c.Violate("data.NewDateFromUnix", "stored-value-differs", gen.Shape{"seconds_beyond_millisecond_range": false}, in, fmt.Sprintf("%d s stored as %v (%v)", s, d, err))
		}
	})

	// strings: every length 0..300
	c.Job("strings", 301*c.N(4, 40), func(i int, r *core.Rand) {
		n := i % 301
		content := r.Bytes(n)
		sh := gen.Shape{"len": n}
		if (i/301)%2 == 1 {
			// valid multi-byte UTF-8 of exactly n bytes: the limit counts bytes, not characters
			content = utf8OfLen(r, n)
			sh["utf8_multibyte"] = true
		}
		c.Eval(1)
		for _, ctor := range []struct {
			site string
			fn   func(string) (data.I2PString, error)
		}{{"data.NewI2PString", data.NewI2PString}, {"data.ToI2PString", data.ToI2PString}} {
			s, err := ctor.fn(string(content))
			c.OpResult(ctor.site, err == nil)
			if n <= 255 {
				if err != nil {
					c.Violate(ctor.site, "in-domain-value-rejected", sh, content, firstLineOf(err.Error()))
					continue
				}
				if len(s) != n+1 || int(s[0]) != n || !bytes.Equal(s[1:], content) {
					c.Violate(ctor.site, "not-length-prefixed", sh, content, fmt.Sprintf("encoded as %d bytes, prefix %d", len(s), s[0]))
					continue
				}
				if got, err := s.Data(); err != nil || got != string(content) {
					c.Violate("data.I2PString.Data", "decode-differs", sh, content, fmt.Sprint(err))
				}
				if got, err := s.DataSafe(); err != nil || got != string(content) {
					c.Violate("data.I2PString.DataSafe", "decode-differs", sh, content, fmt.Sprint(err))
				}
				if l, err := s.Length(); err != nil || l != n {
					c.Violate("data.I2PString.Length", "decode-differs", sh, content, fmt.Sprint(l, err))
				}
				if !s.IsValid() {
					c.Violate("data.I2PString.IsValid", "decode-differs", sh, content, "constructed string not valid")
				}
				rs, rem, err := data.ReadI2PString(append(append([]byte{}, s...), 0xAA, 0xBB))
				if err != nil || !bytes.Equal(rs, s) || !bytes.Equal(rem, []byte{0xAA, 0xBB}) {
					c.Violate("data.ReadI2PString", "decode-differs", sh, content, fmt.Sprint(err))
				}
				c.Nontrivial([]byte("string"), content)
				// the caller owns the string it was handed: it overwrites it and appends to it; the same
				// content encodes correctly again (also: a second string built meanwhile is its own)
				keep := append([]byte{}, s...)
				for j := range s {
					s[j] ^= 0x5C
				}
				_ = append(s, 0x5C, 0x5C)
				if s2, err := ctor.fn(string(content)); err != nil || !bytes.Equal(s2, keep) {
					c.Violate(ctor.site, "encoding-differs-after-an-earlier-result-was-overwritten", sh, content, fmt.Sprintf("the same %d-byte content now encodes as %x.. (%v)", n, head([]byte(s2), 12), err))
				}
			} else if err == nil {
				c.Violate(ctor.site, "out-of-domain-accepted", sh, content, fmt.Sprintf("%d bytes accepted, encoded length %d", n, len(s)))
			}
		}
	})
	c.Exhaustive("string constructors at every length 0..300")

	// the same strings where the library frames them itself: as key and as value of a Mapping
	// (alone, first and last of several pairs) and as the transport style of a RouterAddress, at
	// every length 0..255 - written by the independent encoder and read by the library, and
	// written by the library and read back
	c.Job("strings-in-use", 256*c.N(4, 40), func(i int, r *core.Rand) {
		n := i % 256
		content := r.Bytes(n)
		if (i/256)%2 == 1 {
			content = utf8OfLen(r, n)
		}
		other := r.Bytes(r.Pick([]int{1, 3, 40, 254, 255}[r.Pick(5)] + 1))
		c.Eval(1)
		c.Nontrivial([]byte("string-in-use"), content, other)
		for role := 0; role < 2; role++ {
			k, v := content, other
			if role == 1 {
				k, v = other, content
			}
			sh := gen.Shape{"len": n, "role": []string{"key", "value"}[role], "other_len": len(other)}
			pairs := []rm.Pair{{K: k, V: v}}
			switch (i / 512) % 3 {
			case 1:
				pairs = append(pairs, rm.Pair{K: append([]byte{0xff}, r.Bytes(2)...), V: r.Bytes(r.Pick(4))})
			case 2:
				pairs = append([]rm.Pair{{K: []byte{0}, V: r.Bytes(r.Pick(4))}}, pairs...)
			}
			enc := rm.Mapping{Pairs: pairs}.Encode()
			want := map[string]string{}
			for _, p := range pairs {
				want[string(p.K)] = string(p.V)
			}
			if len(want) != len(pairs) {
				continue
			}
			same := func(got map[string]string) bool {
				if len(got) != len(want) {
					return false
				}
				for a, b := range want {
					if x, ok := got[a]; !ok || x != b {
						return false
					}
				}
				return true
			}
			mp, rem, errs := data.ReadMapping(enc)
			if len(errs) != 0 || len(rem) != 0 {
				c.Violate("data.ReadMapping", "in-domain-string-lost", sh, enc, fmt.Sprintf("a mapping holding a %d-byte %s is not read cleanly: %v", n, sh["role"], errs))
			} else if got, err := mp.ToGoMap(); err != nil || !same(got) || !bytes.Equal(mp.Data(), enc) {
				c.Violate("data.ReadMapping", "in-domain-string-lost", sh, enc, fmt.Sprintf("a %d-byte %s does not survive reading", n, sh["role"]))
			}
			if gm, err := data.GoMapToMapping(want); err != nil || gm == nil {
				c.Violate("data.GoMapToMapping", "in-domain-value-rejected", sh, enc, fmt.Sprint(err))
			} else if d := gm.Data(); !bytes.Equal(d, enc) && len(pairs) == 1 {
				c.Violate("data.GoMapToMapping", "not-length-prefixed", sh, enc, fmt.Sprintf("a single pair with a %d-byte %s is written as %d bytes, expected %d", n, sh["role"], len(d), len(enc)))
			}
		}
		// transport style
		a := gen.RouterAddress(r)
		a.Style = content
		enc := append(a.Encode(), 0x80, 0xBF)
		sh := gen.Shape{"len": n, "role": "style"}
		ra, rem, err := router_address.ReadRouterAddress(enc)
		c.OpResult("router_address.ReadRouterAddress", err == nil)
		if err == nil {
			st := ra.TransportStyle()
			if got, derr := st.Data(); derr != nil || got != string(content) || len(rem) != 2 {
				c.Violate("router_address.ReadRouterAddress", "in-domain-string-lost", sh, enc, fmt.Sprintf("a %d-byte transport style is read back as %d bytes (%v), remainder %d", n, len(got), derr, len(rem)))
			}
		}
	})
	c.Exhaustive("strings of every length 0..255 as mapping key, mapping value and transport style")

	// a 2-byte Integer where the library encodes one itself: the size field of a Mapping, for bodies
	// of exactly 65,530 .. 65,540 bytes (fits: the field is the body length; does not fit: rejected,
	// never the low 16 bits)
	c.Job("integer-in-use", 11*3, func(i int, r *core.Rand) {
		target := 65530 + i%11
		pairs := []int{257, 300, 512}[i/11]
		g := mapOfExactSize(r, target, pairs)
		if mapSize(g) != target {
			c.FloorFail(fmt.Sprintf("generator produced size %d for target %d", mapSize(g), target))
			return
		}
		c.Eval(1)
		c.Nontrivial([]byte("mapping-size"), []byte(fmt.Sprint(target, pairs)))
		sh := gen.Shape{"body": target, "pairs": pairs}
		m, err := data.GoMapToMapping(g)
		c.OpResult("data.GoMapToMapping", err == nil)
		if target > 65535 {
			if err == nil && m != nil {
				d := m.Data()
				c.Violate("data.GoMapToMapping", "out-of-domain-accepted", sh, head(d, 16), fmt.Sprintf("a body of %d bytes does not fit a 2-byte size; converted with size field %d", target, binary.BigEndian.Uint16(d)))
			}
			return
		}
		if err != nil || m == nil {
			c.Violate("data.GoMapToMapping", "in-domain-value-rejected", sh, nil, fmt.Sprint(err))
			return
		}
		if d := m.Data(); len(d) != target+2 || int(binary.BigEndian.Uint16(d)) != target {
			c.Violate("data.Mapping.Data", "stored-value-differs", sh, head(d, 16), fmt.Sprintf("body of %d bytes written as %d bytes with size field %d", target, len(d)-2, binary.BigEndian.Uint16(d)))
		}
	})

	// readers: all (declared length, available length) combinations
	c.Job("short-reads", 301*301/4+1, func(i int, r *core.Rand) {
		for k := 0; k < 4; k++ {
			idx := i*4 + k
			declared, avail := idx/301, idx%301
			if declared > 255 {
				continue
			}
			in := append([]byte{byte(declared)}, r.Bytes(avail)...)
			c.Eval(1)
			s, rem, err := data.ReadI2PString(in)
			complete := err == nil
			sh := gen.Shape{"declared": declared, "available": avail}
			if avail >= declared {
				if !complete || len(s) != declared+1 || len(rem) != avail-declared {
					c.Violate("data.ReadI2PString", "complete-input-not-read", sh, in, fmt.Sprint(err))
				}
			} else if complete {
				c.Violate("data.ReadI2PString", "complete-value-from-short-input", sh, in, fmt.Sprintf("returned %d bytes without error", len(s)))
			}
			// Integer reader with size = declared (1..8) on `avail` bytes
			if declared >= 1 && declared <= 8 && avail <= 12 {
				iv, irem := data.ReadInteger(in[1:], declared)
				if avail < declared && len(iv) == declared {
					c.Violate("data.ReadInteger", "complete-value-from-short-input", sh, in[1:], "full-width integer from short input")
				}
				if avail >= declared && (len(iv) != declared || len(irem) != avail-declared) {
					c.Violate("data.ReadInteger", "complete-input-not-read", sh, in[1:], "")
				}
				// the pointer-returning counterpart: a complete value exactly when enough bytes are there,
				// also when the integer is the last thing in the buffer
				ni, nrem, nerr := data.NewInteger(in[1:], declared)
				if avail < declared && nerr == nil && ni != nil && len(*ni) == declared {
					c.Violate("data.NewInteger", "complete-value-from-short-input", sh, in[1:], "full-width integer from short input")
				}
				if avail >= declared && (nerr != nil || ni == nil || len(*ni) != declared || len(nrem) != avail-declared) {
					c.Violate("data.NewInteger", "complete-input-not-read", sh, in[1:], fmt.Sprintf("%d bytes available for a %d-byte integer: %v", avail, declared, nerr))
				}
			}
			if declared == 8 && avail <= 12 {
				_, _, err := data.ReadDate(in[1:])
				if (avail < 8) != (err != nil) {
					c.Violate("data.ReadDate", "complete-value-from-short-input", sh, in[1:], fmt.Sprint(err))
				}
			}
			if declared == 32 && avail <= 40 {
				_, _, err := data.ReadHash(in[1:])
				if (avail < 32) != (err != nil) {
					c.Violate("data.ReadHash", "complete-value-from-short-input", sh, in[1:], fmt.Sprint(err))
				}
			}
			c.Nontrivial([]byte("short"), in)
		}
	})
	c.Exhaustive("ReadI2PString on every (declared 0..255, available 0..300) combination")
}

// utf8OfLen returns exactly n bytes of valid UTF-8 made of as many multi-byte characters as fit
// (2-, 3- and 4-byte encodings), filled up with ASCII.
func utf8OfLen(r *core.Rand, n int) []byte {
	runes := []string{"\u00e9", "\u4e16", "\U0001F600", "\u00df", "\u20ac"}
	var b []byte
	for len(b) < n {
		s := runes[r.Pick(len(runes))]
		if len(b)+len(s) > n {
			b = append(b, byte('a'+r.Pick(26)))
			continue
		}
		b = append(b, s...)
	}
	return b
}
