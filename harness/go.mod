module verifharness

go 1.24.5

toolchain go1.24.12

require (
	github.com/go-i2p/common v0.0.0
	github.com/go-i2p/crypto v0.1.4-0.20260218221204-a8834457f3f1
	github.com/go-i2p/logger v0.1.2
	github.com/samber/oops v1.21.0
	github.com/stretchr/testify v1.11.1
	go.step.sm/crypto v0.76.0
	filippo.io/edwards25519 v1.1.0
	github.com/cespare/xxhash/v2 v2.3.0
	github.com/davecgh/go-spew v1.1.2-0.20180830191138-d8f796af33cc
	github.com/go-i2p/elgamal v0.0.2
	github.com/kr/pretty v0.3.1
	github.com/oklog/ulid/v2 v2.1.1
	github.com/pmezard/go-difflib v1.0.1-0.20181226105442-5d4384ee4fb2
	github.com/rogpeppe/go-internal v1.14.1
	github.com/samber/lo v1.52.0
	github.com/sirupsen/logrus v1.9.4
	go.opentelemetry.io/otel v1.39.0
	go.opentelemetry.io/otel/trace v1.39.0
	golang.org/x/crypto v0.47.0
	golang.org/x/sys v0.40.0
	golang.org/x/text v0.33.0
	gopkg.in/check.v1 v1.0.0-20201130134442-10cb98267c6c
	gopkg.in/yaml.v3 v3.0.1
)

replace github.com/go-i2p/common => /repo
