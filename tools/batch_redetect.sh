#!/bin/bash
# usage: batch_redetect.sh <logdir> <parallel> "name:P1,P2" ...
L=$1; P=$2; shift; shift
printf "%s\n" "$@" | xargs -P $P -I{} sh -c 'x={}; n=${x%%:*}; ps=$(echo ${x#*:} | tr "," " "); python3 /verif/tools/mutant.py detect /verif/seeded/$n $ps > '$L'/redetect-$n.json 2>'$L'/redetect-$n.err'
