#!/bin/bash
# usage: batch_verify.sh <parallel> names...
P=$1; shift
printf "%s\n" "$@" | xargs -P $P -I{} sh -c 'python3 /verif/tools/mutant.py verify /verif/seeded/{} > ${MVLOGS:-/tmp/mvlogs5}/verify-{}.json 2>${MVLOGS:-/tmp/mvlogs5}/verify-{}.err'
