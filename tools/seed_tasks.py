import json, glob, os, subprocess, sys
ROUND = sys.argv[1]          # e.g. r6
props = {json.loads(l)['id']: json.loads(l) for l in open('/verif/properties.jsonl')}
TOOL = "/root/go/pkg/mod/golang.org/toolchain@v0.0.1-go1.24.12.linux-amd64/bin"
for pid, p in sorted(props.items()):
    prior = []
    for d in sorted(glob.glob(f'/verif/seeded/{pid}-m*'), key=lambda s: int(s.split('-m')[1])):
        a = os.path.join(d, 'agent_meta.json')
        if os.path.exists(a):
            w = json.load(open(a)).get('what') or ''
            prior.append('- ' + w[:200].replace('\n', ' ') + '…')
    wt = f'/tmp/{ROUND}/{pid}'
    if not os.path.isdir(wt):
        subprocess.run(['git', '-C', '/repo', 'worktree', 'add', '-q', '--detach', wt, 'HEAD'], check=True)
    txt = f"""# Task: seed three realistic defects into a Go library (go-i2p/common)

You are helping to test a verification effort. Your working copy of the library is the git worktree
`{wt}` (module github.com/go-i2p/common, pure Go). Work ONLY inside that directory. Do not read or
write anything under /verif or /repo, and do not look at other directories under /tmp.

## The property

Id: {pid} — {p.get('title','')}

Statement: {p['statement']}

Quantified over: {p['quantifier']['text']}

Why the existing tests cannot settle it: {p.get('why_tests_cant','')}

## What to produce

THREE independent changes (m1, m2, m3) to the library's non-test source, each of which
  1. makes the library violate the property above,
  2. still compiles (`go build ./...`) and keeps the ENTIRE existing test suite green, unedited
     (`go test -vet=off -count=1 -timeout 25m ./...`, about 1-3 minutes),
  3. looks like something a maintainer could plausibly commit (an optimisation, a refactor, a
     'hardening', a spec misreading, a copy/paste slip) - not sabotage, no dead giveaways in names or comments,
  4. needs something SPECIFIC to manifest: a particular interleaving of goroutines, a multi-step
     sequence of calls, state carried from one call to a later one, an unusual but legal input shape,
     an exact boundary value, a rarely taken branch, or two cooperating sites that each look fine
     alone. Ordinary use and the obvious examples must keep working.
Each change is made separately on the unchanged tree (reset with `git checkout -- .` in between; never commit).

For each change also write a demonstration: one Go test file (`demo_test.go`, package of the directory
it must be placed in; say in a comment at the top which package directory it belongs in, e.g.
`// place in lease_set2/`) with test functions named `TestSeeded{pid}{ROUND.upper()}M<n>...` that FAIL with the change
applied and PASS on the unchanged tree. The demonstration may only use what the library exports (or
package-internal access if it lives in the package), and should show the property being violated, not
merely that some internal detail changed.

## Changes already produced for this property by earlier rounds (DO NOT repeat these; find different
code sites, different mechanisms and different triggering conditions)

{chr(10).join(prior)}

Think about what the earlier rounds did NOT touch: other packages and helpers the property also depends
on, secondary outputs, error paths, rarely used constructors and accessors, interactions between two
structures, inputs only a parser (not a constructor) can yield, values near 2^8 / 2^16 / 2^31 / 2^32
boundaries, the order and history of calls, what happens to a value after other calls were made on it.

## Environment (no network)

Before every go command:
  export GOFLAGS=-mod=mod GOPROXY=off GOSUMDB=off GOTOOLCHAIN=local PATH={TOOL}:$PATH; unset DEBUG_I2P WARNFAIL_I2P
Never use `make`. The machine is shared with other jobs: the full suite may take several minutes; run it
once per change (after the targeted packages pass), with `-timeout 25m`.

## Deliverables

Create `{wt}/_out/m1/`, `_out/m2/`, `_out/m3/`, each containing
  - `patch.diff`  : `git diff -- . ':(exclude)_out'` of that one change against the unchanged tree
                    (must apply with `git apply` on a clean checkout; demo file NOT included),
  - `demo_test.go`: the demonstration,
  - `meta.json`   : {{"property": "{pid}", "files_changed": [...], "what": "<one paragraph: what the change does and why it
                    breaks the property>", "needs": "<what exactly is needed for it to manifest>", "ran": ["<each command you ran and its outcome>"]}}
Before finishing, for each change verify yourself: patch applied -> build ok, full suite green, demo FAILS;
patch reverted -> demo PASSES. Leave the worktree clean (`git checkout -- .`, demo files removed) apart from `_out/`.
Your final message: three lines, one per change, `<m>: <one-sentence summary> | suite green: yes/no | demo fails with / passes without: yes/no`.
"""
    open(f'/tmp/{ROUND}/{pid}.TASK.md', 'w').write(txt)
print('ok')
