#!/bin/bash
P=$1; shift
printf "%s\n" "$@" | xargs -P $P -I{} sh -c 'python3 /verif/tools/mutant.py detect /verif/benign/{} > /tmp/mvlogsB/detect-{}.json 2>/tmp/mvlogsB/detect-{}.err'
