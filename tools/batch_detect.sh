#!/bin/bash
# usage: batch_detect.sh <logdir> <parallel> names...   (own property's check only)
L=$1; P=$2; shift; shift
printf "%s\n" "$@" | xargs -P $P -I{} sh -c 'n={}; p=${n%%-*}; python3 /verif/tools/mutant.py detect /verif/seeded/$n $p > '$L'/detect-$n.json 2>'$L'/detect-$n.err'
