#!/usr/bin/env python3
"""Seeded-change tooling (development aid, not a registered check).

  mutant.py verify <dir>            confirm in a scratch worktree that <dir>/patch.diff compiles,
                                    keeps the repository's suite green, and that <dir>/demo_test.go
                                    fails with the patch and passes without it
  mutant.py detect <dir> [Cxx ...]  run the quick checks against a scratch worktree of /repo HEAD
                                    with the patch applied (isolated via VERIF_REPO/VERIF_WORK)
Everything is created under /tmp/mv/<name> and removed afterwards.
"""
import json, os, re, shutil, subprocess, sys, time

TOOLCHAIN = "/root/go/pkg/mod/golang.org/toolchain@v0.0.1-go1.24.12.linux-amd64/bin"
ALL = [f"C{i:02d}" for i in range(1, 21)]


def env():
    e = dict(os.environ)
    for k in ("DEBUG_I2P", "WARNFAIL_I2P"):
        e.pop(k, None)
    e.update({"GOFLAGS": "-mod=mod", "GOPROXY": "off", "GOSUMDB": "off", "GOTOOLCHAIN": "local",
              "PATH": TOOLCHAIN + os.pathsep + e["PATH"]})
    return e


def sh(cmd, cwd=None, timeout=3000):
    p = subprocess.run(cmd, cwd=cwd, env=env(), stdout=subprocess.PIPE, stderr=subprocess.STDOUT, text=True, timeout=timeout)
    return p.returncode, p.stdout


def worktree(name):
    path = f"/tmp/mv/{name}"
    if os.path.isdir(path):
        sh(["git", "-C", "/repo", "worktree", "remove", "--force", path])
        shutil.rmtree(path, ignore_errors=True)
    os.makedirs("/tmp/mv", exist_ok=True)
    rc, out = sh(["git", "-C", "/repo", "worktree", "add", "-q", "--detach", path, "HEAD"])
    if rc != 0:
        raise SystemExit("worktree: " + out)
    return path


def drop(path):
    sh(["git", "-C", "/repo", "worktree", "remove", "--force", path])
    shutil.rmtree(path, ignore_errors=True)


def demo_pkg(demo_src):
    """The demo's comment says in which package directory it belongs; fall back to the package name."""
    m = re.search(r"(?:placed? in|directory|dir)[^\n]*?[`'\" ]([a-z_0-9]+)/?[`'\" ]", demo_src[:1500])
    pk = re.search(r"^package\s+(\w+)", demo_src, re.M).group(1)
    cands = []
    if m:
        cands.append(m.group(1))
    cands.append(pk[:-5] if pk.endswith("_test") else pk)
    for c in cands:
        if os.path.isdir(os.path.join("/repo", c)):
            return c
    raise SystemExit(f"cannot determine package dir for demo (package {pk})")


def verify(d):
    name = os.path.basename(os.path.normpath(d))
    wt = worktree("verify-" + name)
    res = {"name": name}
    try:
        patch = os.path.join(d, "patch.diff")
        rc, out = sh(["git", "apply", "--check", patch], cwd=wt)
        if rc != 0:
            rc, out = sh(["git", "apply", "--3way", patch], cwd=wt)
            res["applied"] = "3way" if rc == 0 else "FAILED: " + out[-300:]
            if rc != 0:
                return res
        else:
            sh(["git", "apply", patch], cwd=wt)
            res["applied"] = "clean"
        rc, out = sh(["go", "build", "./..."], cwd=wt)
        res["build"] = rc == 0
        rc, out = sh(["go", "test", "-vet=off", "-count=1", "-timeout", "25m", "./..."], cwd=wt)
        bad = [l for l in out.splitlines() if l.startswith("FAIL") or l.startswith("--- FAIL") or "panic:" in l]
        res["suite_green_with_patch"] = rc == 0 and not bad
        if bad:
            res["suite_failures"] = bad[:5]
        demo = open(os.path.join(d, "demo_test.go")).read()
        pkg = demo_pkg(demo)
        res["demo_pkg"] = pkg
        dst = os.path.join(wt, pkg, "zz_seeded_demo_test.go")
        shutil.copyfile(os.path.join(d, "demo_test.go"), dst)
        tests = "|".join(re.findall(r"^func (Test\w+)\(", demo, re.M))
        rc, out = sh(["go", "test", "-vet=off", "-count=1", "-run", f"^({tests})$", f"./{pkg}/"], cwd=wt)
        res["demo_fails_with_patch"] = rc != 0
        res["demo_with_patch_tail"] = out[-400:]
        sh(["git", "apply", "-R", patch], cwd=wt) if res["applied"] == "clean" else sh(["git", "checkout", "--", "."], cwd=wt)
        rc, out = sh(["go", "test", "-vet=off", "-count=1", "-run", f"^({tests})$", f"./{pkg}/"], cwd=wt)
        res["demo_passes_without_patch"] = rc == 0
        if rc != 0:
            res["demo_without_patch_tail"] = out[-400:]
    finally:
        drop(wt)
    return res


def detect(d, props):
    name = os.path.basename(os.path.normpath(d))
    wt = worktree("detect-" + name)
    work = f"/tmp/mv/work-{name}"
    shutil.rmtree(work, ignore_errors=True)
    os.makedirs(work)
    res = {"name": name, "checks": {}}
    try:
        # a snapshot of the committed harness, driver and known-findings file, so that edits made
        # in /verif while this runs do not disturb it
        snap = os.path.join(work, "snap")
        os.makedirs(snap)
        subprocess.run("git -C /verif archive HEAD harness verif.py known_findings.json | tar -x -C " + snap, shell=True, check=True)
        res["verif_commit"] = subprocess.run(["git", "-C", "/verif", "rev-parse", "--short", "HEAD"], stdout=subprocess.PIPE, text=True).stdout.strip()
        patch = os.path.join(d, "patch.diff")
        rc, out = sh(["git", "apply", patch], cwd=wt)
        if rc != 0:
            rc, out = sh(["git", "apply", "--3way", patch], cwd=wt)
            if rc != 0:
                res["error"] = "patch does not apply: " + out[-300:]
                return res
        e = env()
        e.pop("GOFLAGS", None)
        for p in props:
            t0 = time.time()
            e2 = dict(os.environ)
            e2.update({"VERIF_REPO": wt, "VERIF_WORK": work, "VERIF_HARNESS_SRC": os.path.join(snap, "harness"),
                       "VERIF_KNOWN_SRC": os.path.join(snap, "known_findings.json")})
            pr = subprocess.run([sys.executable, os.path.join(snap, "verif.py"), "check", p, "--tier", os.environ.get("MUT_TIER", "quick")], env=e2,
                                stdout=subprocess.PIPE, stderr=subprocess.STDOUT, text=True)
            viol = [l for l in pr.stdout.splitlines() if l.startswith("VIOLATION")]
            inc = [l for l in pr.stdout.splitlines() if l.startswith("INCONCLUSIVE")]
            res["checks"][p] = {"exit": pr.returncode, "violations": len(viol), "first": (viol[0][:400] if viol else ""),
                                "inconclusive": inc[:2], "wall_s": round(time.time() - t0, 1)}
    finally:
        drop(wt)
        shutil.rmtree(work, ignore_errors=True)
    return res


if __name__ == "__main__":
    cmd, d = sys.argv[1], os.path.abspath(sys.argv[2])
    if cmd == "verify":
        print(json.dumps(verify(d), indent=1))
    else:
        props = sys.argv[3:] or ALL
        print(json.dumps(detect(d, props), indent=1))
