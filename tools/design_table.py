#!/usr/bin/env python3
"""Prints the DESIGN.md section-9 table rows for the seeded changes whose number is in the given range.
usage: design_table.py <first m> <last m>"""
import glob, json, os, sys
lo, hi = int(sys.argv[1]), int(sys.argv[2])
rows = []
for d in sorted(glob.glob("/verif/seeded/C*-m*"), key=lambda s: (s.split("/")[-1].split("-m")[0], int(s.split("-m")[1]))):
    name = os.path.basename(d)
    n = int(name.split("-m")[1])
    if not (lo <= n <= hi):
        continue
    mp = os.path.join(d, "meta.json")
    if not os.path.exists(mp):
        continue
    m = json.load(open(mp))
    det = m.get("detection", {})
    own = m["property"]
    newly = set(det.get("redetection_after_strengthening", {}).get("newly_caught_by", []))
    by = []
    for p in det.get("detected_by", []):
        s = f"**{p}**" if p == own else p
        if p in newly:
            s += "†"
        by.append(s)
    what = (m.get("what") or "")[:175].replace("|", "/").replace("\n", " ")
    print(f"| {name} | {what}… | {', '.join(by) or '—'} |")
