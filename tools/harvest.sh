#!/bin/bash
# usage: harvest.sh <round dir e.g. /tmp/r6> <offset e.g. 15> Cxx...
R=$1; OFF=$2; shift; shift
for p in "$@"; do
  for n in 1 2 3; do
    src=$R/$p/_out/m$n; dst=/verif/seeded/$p-m$((OFF+n))
    if [ -f $src/patch.diff ] && [ -f $src/demo_test.go ]; then
      mkdir -p $dst; cp $src/patch.diff $dst/patch.diff; cp $src/demo_test.go $dst/demo_test.go; cp $src/meta.json $dst/agent_meta.json
      echo "harvested $dst"
    else echo "MISSING $src"; fi
  done
done
