#!/usr/bin/env python3
"""Writes seeded/<id>/meta.json from the verification and detection logs of tools/mutant.py and
prints the markdown matrix used in DESIGN.md section 9.

usage: seeded_report.py <logdir> [--write]
"""
import glob, json, os, sys

logdir = sys.argv[1]
write = "--write" in sys.argv
rows = []
for d in sorted(glob.glob("/verif/seeded/C*-m*")):
    name = os.path.basename(d)
    agent = json.load(open(os.path.join(d, "agent_meta.json"))) if os.path.exists(os.path.join(d, "agent_meta.json")) else {}
    meta_path = os.path.join(d, "meta.json")
    meta = json.load(open(meta_path)) if os.path.exists(meta_path) else {}
    vpath = os.path.join(logdir, f"verify-{name}.json")
    dpath = os.path.join(logdir, f"detect-{name}.json")
    if os.path.exists(vpath):
        try:
            v = json.load(open(vpath))
            meta["verified"] = {k: v.get(k) for k in ("applied", "build", "suite_green_with_patch", "demo_pkg", "demo_fails_with_patch", "demo_passes_without_patch")}
        except Exception:
            pass
    if os.path.exists(dpath):
        try:
            dd = json.load(open(dpath))
            meta["detection"] = {"verif_commit": dd.get("verif_commit"), "tier": "quick",
                                 "detected_by": sorted(p for p, c in dd["checks"].items() if c["exit"] == 1),
                                 "inconclusive": sorted(p for p, c in dd["checks"].items() if c["exit"] not in (0, 1)),
                                 "first_violation": {p: c["first"] for p, c in dd["checks"].items() if c["exit"] == 1}}
        except Exception:
            pass
    rpath = os.path.join(logdir, f"redetect-{name}.json")
    if os.path.exists(rpath):
        try:
            rr = json.load(open(rpath))
            hit = sorted(p for p, c in rr["checks"].items() if c["exit"] == 1)
            det = meta.setdefault("detection", {"detected_by": [], "inconclusive": [], "first_violation": {}})
            missed_first = sorted(set(hit) - set(det.get("detected_by", [])))
            det["redetection_after_strengthening"] = {"verif_commit": rr.get("verif_commit"), "checks_rerun": sorted(rr["checks"]),
                                                      "detected_by": hit, "newly_caught_by": missed_first}
            det["detected_by"] = sorted(set(det.get("detected_by", [])) | set(hit))
            det["inconclusive"] = sorted(set(det.get("inconclusive", [])) - set(hit))
            for p, c in rr["checks"].items():
                if c["exit"] == 1:
                    det.setdefault("first_violation", {})[p] = c["first"]
        except Exception:
            pass
    meta["property"] = agent.get("property", name.split("-")[0])
    meta["files_changed"] = agent.get("files_changed")
    meta["what"] = agent.get("what")
    meta["needs_to_manifest"] = agent.get("needs")
    meta.setdefault("ran", [
        "python3 tools/mutant.py verify seeded/%s  (scratch worktree of /repo HEAD: git apply, go build ./..., full suite, demo with patch, demo without patch)" % name,
        "python3 tools/mutant.py detect seeded/%s  (scratch worktree + committed snapshot of /verif; every quick check)" % name,
    ])
    meta["produced_by"] = "independent sub-agent given only the property text and its own scratch worktree"
    if write:
        json.dump(meta, open(meta_path, "w"), indent=1)
    det = meta.get("detection", {})
    ver = meta.get("verified", {})
    ok = ver.get("suite_green_with_patch") and ver.get("demo_fails_with_patch") and ver.get("demo_passes_without_patch")
    rows.append((name, meta["property"], (meta.get("what") or "")[:150].replace("|", "/").replace("\n", " "), "yes" if ok else "NO",
                 ", ".join(det.get("detected_by", [])) or "—", ", ".join(det.get("inconclusive", []))))
print("| seeded change | breaks | what | confirmed | caught by (quick tier) |")
print("|---|---|---|---|---|")
for r in rows:
    print(f"| {r[0]} | {r[1]} | {r[2]}… | {r[3]} | {r[4]}{(' (inconclusive: ' + r[5] + ')') if r[5] else ''} |")
